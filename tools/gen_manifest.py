#!/usr/bin/env python3
"""Regenerates /verif/MANIFEST.json from props.py so that the two never disagree."""
import json, os, sys
sys.path.insert(0, '/verif')
from props import PROPS, ENGINES, HOOK_COMMITS
ids = [json.loads(l)['id'] for l in open('/verif/properties.jsonl')]
checks, na = [], []
for i in ids:
    s = PROPS.get(i)
    if not s or s.get('unclaimed'):
        na.append({"property_id": i, "reason": (s or {}).get('unclaimed', "check not built yet in this round; the design for it is DESIGN.md section 2 (model checking applies, nothing is claimed until the check exists)")})
        continue
    checks.append({
        "property_id": i,
        "quick_cmd": f"./check {i} --tier quick",
        "thorough_cmd": f"./check {i} --tier thorough",
        "evidence_file": f"evidence/{i}.json",
        "replay_cmd_template": f"./check {i} --replay {{path}}",
        "engine": s["bin"],
        "level_claimed": {"category": s.get("level", "model_checking"), "text": s["level_text"], "design_ref": f"DESIGN.md section 2, {i}"},
        "level_note": s["level_note"],
        "technique": s["technique"],
    })
m = {
    "version": 1,
    "setup_cmd": "./check --build",
    "hooks": {
        "guard": "--cfg icy_engine_verif",
        "enable": "harness/.cargo/config.toml sets build.rustflags = [\"--cfg\", \"icy_engine_verif\"]; /repo is a path dependency of /verif/harness, so every check rebuilds /repo's working tree with the guard on",
        "baseline_off_cmd": "cd /repo && cargo test --workspace --no-fail-fast --offline",
        "source_commits": HOOK_COMMITS,
        "add_only": True,
    },
    "engines": ENGINES,
    "checks": checks,
    "not_applicable": na,
    "notes": "All checks are bounded exhaustive explorations of the real code (no sampling). ./check <ID> --tier quick|thorough; known findings live in KNOWN_FINDINGS.txt; replays of new violations are written to replays/<ID>/.",
}
json.dump(m, open('/verif/MANIFEST.json', 'w'), indent=1)
print(f"claimed {len(checks)}, not_applicable {len(na)}")
