#!/usr/bin/env python3
"""usage: mkmut.py <name> <file relative to /repo> <old> <new> [count]  - writes /verif/mutations/<name>.diff (repo left clean)"""
import subprocess, sys
name, f, old, new = sys.argv[1:5]
cnt = int(sys.argv[5]) if len(sys.argv) > 5 else 1
p = "/repo/" + f
s = open(p).read()
assert s.count(old) >= 1, "pattern not found"
s2 = s.replace(old, new, cnt)
open(p, "w").write(s2)
d = subprocess.run(["git", "-C", "/repo", "diff"], capture_output=True, text=True).stdout
open("/verif/mutations/%s.diff" % name, "w").write(d)
subprocess.run(["git", "-C", "/repo", "checkout", "--", "."])
print(name, len(d.splitlines()), "lines")
