#!/bin/bash
# usage: mutant.sh <patch file> <property id>... [--baseline]
# Applies a patch to /repo's working tree, runs the named quick checks, reverts. Prints one line per check.
PATCH=$(readlink -f "$1"); shift
BASE=0; PROPS=()
for a in "$@"; do if [ "$a" = "--baseline" ]; then BASE=1; else PROPS+=("$a"); fi; done
cd /repo || exit 2
if ! git diff --quiet; then echo "repo working tree not clean"; exit 2; fi
git apply "$PATCH" || { echo "patch does not apply"; exit 2; }
trap 'git -C /repo checkout -- . ; git -C /repo clean -fdq src' EXIT
if [ $BASE = 1 ]; then /verif/tools/baseline.sh | tail -3; fi
cd /verif
for p in "${PROPS[@]}"; do
  out=$(./check "$p" --tier quick 2>&1); rc=$?
  echo "MUTANT $(basename "$PATCH") $p exit=$rc $(echo "$out" | grep -c '^VIOLATION') violation lines; $(echo "$out" | grep -m2 'signature=' | cut -c1-200 | tr '\n' ' ')"
done
