#!/usr/bin/env python3
"""applies every patch in /verif/mutations to /repo's working tree in turn, runs the quick check of its property, reverts,
and writes mutations/RESULTS.json. usage: run_mutations.py [name-prefix...]"""
import subprocess, sys, os, json, glob, re
os.chdir('/verif')
sel = sys.argv[1:]
res_file = '/verif/mutations/RESULTS.json'
old = {r['name']: r for r in json.load(open(res_file))} if os.path.exists(res_file) else {}
EQUIV = {}  # C11_pad_with_nul was equivalent under the first oracle; the emptiness comparison of round 5 reports it
for f in sorted(glob.glob('/verif/mutations/*.diff')):
    name = os.path.basename(f)[:-5]
    if sel and not any(name.startswith(s) for s in sel):
        continue
    prop = name.split('_')[0]
    if subprocess.run(['git', '-C', '/repo', 'diff', '--quiet']).returncode != 0:
        print('repo working tree not clean'); sys.exit(2)
    if subprocess.run(['git', '-C', '/repo', 'apply', f]).returncode != 0:
        print(name, 'PATCH DOES NOT APPLY')
        rec = old.get(name, {'name': name, 'property': prop, 'exit': -1})
        rec['final_tree'] = 'n/a (patch no longer applies)'
        old[name] = rec
        json.dump(sorted(old.values(), key=lambda r: r['name']), open(res_file, 'w'), indent=1)
        continue
    try:
        o = subprocess.run(['./check', prop, '--tier', 'quick'], capture_output=True, text=True)
    finally:
        subprocess.run(['git', '-C', '/repo', 'checkout', '--', '.'])
    sigs = re.findall(r'signature=(\S+(?: \S+)*?) cases=', o.stdout + o.stderr)
    r = {'name': name, 'property': prop, 'exit': o.returncode, 'signature': sigs[0] if sigs else ''}
    r['final_tree'] = 'caught' if o.returncode == 1 else ('equivalent' if name in EQUIV else 'NOT CAUGHT')
    if name in EQUIV:
        r['equivalent'] = True; r['note'] = EQUIV[name]
    old[name] = r
    print(name, prop, 'exit', o.returncode, r['signature'][:90], flush=True)
    json.dump(sorted(old.values(), key=lambda r: r['name']), open(res_file, 'w'), indent=1)
# leave the harness built against the clean tree
subprocess.run(['./check', '--build'], capture_output=True)
