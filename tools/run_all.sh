#!/bin/bash
# runs every claimed check's quick (or given) tier and prints one summary line each
TIER=${1:-quick}
cd /verif
for p in $(python3 -c "
import json
print(' '.join(c['property_id'] for c in json.load(open('MANIFEST.json'))['checks']))"); do
  t0=$(date +%s)
  out=$(./check $p --tier $TIER 2>&1); rc=$?
  echo "$p exit=$rc $(( $(date +%s) - t0 ))s $(echo "$out" | grep -c '^VIOLATION') viol, $(echo "$out" | grep -c '^KNOWN-FINDING') known | $(echo "$out" | tail -1 | cut -c1-200)"
done
