#!/usr/bin/env python3
"""prints the markdown table of DESIGN.md section 7 from seeded/*/meta.json and mutations/RESULTS.json"""
import json, glob, os, re
rows = []
for f in sorted(glob.glob('/verif/seeded/*/*/meta.json')):
    m = json.load(open(f))
    need = ' '.join(m.get('needs_to_manifest', '').split())
    need = re.sub(r'^#+\s*\S+\s*', '', need)[:150]
    for chk, v in m['checks_quick'].items():
        sig = v['signatures'][0].split(' cases=')[0] if v['signatures'] else ''
        rc = m.get('recheck', {}).get('result', '')
        rcnote = m.get('recheck', {}).get('note', '')
        rc = {'caught': 'caught', 'not caught': 'NOT CAUGHT', 'machinery': 'machinery', 'not a property break on the final tree': 'neutralised by a repair (' + rcnote[:60] + '...)'}.get(rc, 'n/a (patch no longer applies)' if rc else '')
        if int(m['id'][1:]) >= 7:
            rc = 'caught (written for the final tree)' if v['exit'] == 1 else 'MISSED'
        elif not rc:
            rc = 'not re-run'
        rows.append((m['property'], m['id'], 'sub-agent', chk, 'caught' if v['exit'] == 1 else 'MISSED', rc, sig[:70], m.get('note', '')))
res = '/verif/mutations/RESULTS.json'
if os.path.exists(res):
    for r in json.load(open(res)):
        v = 'caught' if r['exit'] == 1 else ('no property break (equivalent)' if r.get('equivalent') else ('n/a (patch no longer applies)' if r['exit'] == -1 else 'MISSED'))
        rows.append((r['property'], r['name'], 'own', r['property'], v, r.get('final_tree', ''), r.get('signature', '')[:70], r.get('note', '')))
print('| property | change | origin | check | verdict (tree it was written for) | on the final tree | first signature | note |')
print('|---|---|---|---|---|---|---|---|')
for r in sorted(rows):
    print('| ' + ' | '.join(x.replace('|', '/') for x in r) + ' |')
