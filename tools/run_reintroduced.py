#!/usr/bin/env python3
"""Detection of repaired defects: every `fixed:` line of KNOWN_FINDINGS.txt names the commit that repaired a defect in /repo.
The reverse of that commit (reintroduced/<property>_<commit>.diff, generated here) puts the defect back into /repo's working
tree; the quick check of the property is run against it and must report a violation; the tree is restored straight afterwards.
Results go to reintroduced/RESULTS.json. A reverse patch that no longer applies (later repairs touch the same lines) is
recorded as such. usage: run_reintroduced.py [--gen-only] [property or commit prefix ...]"""
import subprocess, sys, os, json, re

os.chdir('/verif')
args = [a for a in sys.argv[1:] if not a.startswith('--')]
gen_only = '--gen-only' in sys.argv
os.makedirs('reintroduced', exist_ok=True)
res_file = 'reintroduced/RESULTS.json'
old = {r['name']: r for r in json.load(open(res_file))} if os.path.exists(res_file) else {}

fixed = []
for line in open('KNOWN_FINDINGS.txt'):
    m = re.match(r'fixed: property=(C\d+) ([0-9a-f]{7,}) (.*)', line.strip())
    if m:
        fixed.append(m.groups())

for prop, commit, what in fixed:
    name = f'{prop}_{commit}'
    path = f'reintroduced/{name}.diff'
    d = subprocess.run(['git', '-C', '/repo', 'diff', commit, commit + '^'], capture_output=True, text=True)
    if d.returncode != 0:
        print(name, 'unknown commit'); continue
    open(path, 'w').write(d.stdout)

if gen_only:
    sys.exit(0)

for prop, commit, what in fixed:
    name = f'{prop}_{commit}'
    if args and not any(name.startswith(a) or commit.startswith(a) for a in args):
        continue
    path = os.path.abspath(f'reintroduced/{name}.diff')
    if subprocess.run(['git', '-C', '/repo', 'diff', '--quiet']).returncode != 0:
        print('repo working tree not clean'); sys.exit(2)
    if subprocess.run(['git', '-C', '/repo', 'apply', path], capture_output=True).returncode != 0:
        old[name] = {'name': name, 'property': prop, 'commit': commit, 'defect': what, 'result': 'reverse patch does not apply any more (later repairs changed the same lines)'}
        print(name, 'DOES NOT APPLY', flush=True)
        json.dump(sorted(old.values(), key=lambda r: r['name']), open(res_file, 'w'), indent=1)
        continue
    try:
        b = subprocess.run(['cargo', 'build', '--offline'], cwd='/repo', capture_output=True, text=True, env=dict(os.environ, CARGO_NET_OFFLINE='true'))
        if b.returncode != 0:
            r = {'result': 'reverse patch does not compile on the current tree'}
        else:
            o = subprocess.run(['./check', prop, '--tier', 'quick'], capture_output=True, text=True)
            sigs = re.findall(r'signature=(\S+(?: \S+)*?) cases=', o.stdout + o.stderr)
            r = {'exit': o.returncode, 'signatures': sigs[:6], 'result': 'caught' if o.returncode == 1 and sigs else ('machinery' if o.returncode == 2 else 'not caught')}
    finally:
        subprocess.run(['git', '-C', '/repo', 'checkout', '--', '.'])
        subprocess.run(['git', '-C', '/repo', 'clean', '-fdq', 'src'])
    r.update({'name': name, 'property': prop, 'commit': commit, 'defect': what})
    old[name] = r
    print(name, r['result'], (r.get('signatures') or [''])[0][:100], flush=True)
    json.dump(sorted(old.values(), key=lambda r: r['name']), open(res_file, 'w'), indent=1)
subprocess.run(['./check', '--build'], capture_output=True)
