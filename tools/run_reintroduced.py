#!/usr/bin/env python3
"""Detection of repaired defects: every `fixed:` line of KNOWN_FINDINGS.txt names the commit that repaired a defect in /repo.
The reverse of that commit (reintroduced/<property>_<commit>.diff, generated here) puts the defect back into /repo's working
tree; the quick check of the property is run against it and must report a violation; the tree is restored straight afterwards.
Results go to reintroduced/RESULTS.json. A reverse patch that no longer applies (later repairs touch the same lines) is
recorded as such. usage: run_reintroduced.py [--gen-only] [property or commit prefix ...]"""
import subprocess, sys, os, json, re

os.chdir('/verif')
args = [a for a in sys.argv[1:] if not a.startswith('--')]
gen_only = '--gen-only' in sys.argv
os.makedirs('reintroduced', exist_ok=True)
res_file = 'reintroduced/RESULTS.json'
old = {r['name']: r for r in json.load(open(res_file))} if os.path.exists(res_file) else {}

# why a reintroduced defect is not reported by the QUICK tier on the final tree (looked at one by one)
NOTES = {
    'C08_fc88665': 'needs a history of three operations (set_layer_size, scroll_area_down, erase_row_to_start): depth 3 is the thorough tier; the history is part of the explicit histories of the quick tier since',
    'C08_6b76a7d': 'needs a history of three operations (set_layer_size(0,0x0), resize_buffer(true,4x2), make_layer_transparent): depth 3 is the thorough tier; the history is part of the explicit histories of the quick tier since',
    'C04_0878ba4': 'superseded: since 5093f2d the writer decides by colour, not by index, whether blanks can be skipped; the reverted line is dead on the final tree (equivalent change)',
    'C11_8aed00e': 'superseded: since e6c4e5e the declared height is not applied before parsing at all; the reverted line copies the buffer\'s own height (equivalent change)',
    'C03_a686cf9': 'the loop of 2^31 empty iterations stays below the 0.5 s CPU limit in the release profile of the checks',
    'C12_d275b8e': 'outside the quantifier of C12 (fonts narrower than 8 pixels): no family, recorded as such in the fixed line',
    'C10_fe7809d': 'outside the quantifier of C10 (a panic of the UTF-8 ANSI writer, no invalid character is stored): no family, recorded as such in the fixed line',
    'C12_63867d9': 'outside the quantifier of C12 (sixel images): no family, recorded as such in the fixed line',
    'C13_f7ddc1b': 'pixels, not cells: outside the quantifier of C13',
    'C13_f37f1a1': 'pixels, not cells: outside the quantifier of C13',
    'C13_37deb63': 'pixels, not cells: outside the quantifier of C13',
    'C18_2b90932': 'not a violation of the statement (the attribute is not expressible in the mode), recorded as such in the fixed line',
    'C14_45b7843': 'superseded: since 73dfbf7 a declaration is a minimum on both axes, rows painted below a declared height extend the picture; reading the third number as a height changes nothing any more (equivalent change)',
    'C03_7420df6': 'the families reached the pile of images through a macro, which 5b9763d now charges (4 images per invocation); a macro-free stream of 80 maximum-size images legitimately costs seconds of CPU (25 ms per picture) and its memory peak depends on decode timing - tried as a family and dropped as not deterministic enough for a registered check',
    'C03_7bfe1eb': 'the violation depends on how many decode threads are still running when the next one starts (timing): it did not repeat in the fresh process of the confirmation step, which the supervisor reports as MACHINERY, not as a verdict',
    'C05_bebe3c4': 'a custom font whose 0x20 is visible: outside the built-in fonts the optimiser family of C12 enumerates, no family in C05 (its round trips use the lossless save path)',
    'C05_79a202b': 'no file of the fault menu had more than 200 rows; a 201 row file is one of the re-save seeds since',
    'C05_7277de1': 'the refusal of odd iCE Draw widths was tolerated by the C11 check as "the record cannot carry the width" (true for .bin only); C11 requires the save to succeed for .idf since - reported there',
    'C20_59866c9': 'below the 0.5 s CPU limit in the release profile of the checks, recorded as such in the fixed line',
}

fixed = []
for line in open('KNOWN_FINDINGS.txt'):
    m = re.match(r'fixed: property=(C\d+) ([0-9a-f]{7,}) (.*)', line.strip())
    if m:
        fixed.append(m.groups())

for prop, commit, what in fixed:
    name = f'{prop}_{commit}'
    path = f'reintroduced/{name}.diff'
    d = subprocess.run(['git', '-C', '/repo', 'diff', commit, commit + '^'], capture_output=True, text=True)
    if d.returncode != 0:
        print(name, 'unknown commit'); continue
    open(path, 'w').write(d.stdout)

if '--annotate-only' in sys.argv:
    for name, r in old.items():
        if r.get('result') != 'caught' and name in NOTES:
            r['note'] = NOTES[name]
    json.dump(sorted(old.values(), key=lambda r: r['name']), open(res_file, 'w'), indent=1)
    sys.exit(0)
if gen_only:
    sys.exit(0)

for prop, commit, what in fixed:
    name = f'{prop}_{commit}'
    if args and not any(name.startswith(a) or commit.startswith(a) for a in args):
        continue
    path = os.path.abspath(f'reintroduced/{name}.diff')
    if subprocess.run(['git', '-C', '/repo', 'diff', '--quiet']).returncode != 0:
        print('repo working tree not clean'); sys.exit(2)
    if subprocess.run(['git', '-C', '/repo', 'apply', path], capture_output=True).returncode != 0:
        old[name] = {'name': name, 'property': prop, 'commit': commit, 'defect': what, 'result': 'reverse patch does not apply any more (later repairs changed the same lines)'}
        print(name, 'DOES NOT APPLY', flush=True)
        json.dump(sorted(old.values(), key=lambda r: r['name']), open(res_file, 'w'), indent=1)
        continue
    try:
        b = subprocess.run(['cargo', 'build', '--offline'], cwd='/repo', capture_output=True, text=True, env=dict(os.environ, CARGO_NET_OFFLINE='true'))
        if b.returncode != 0:
            r = {'result': 'reverse patch does not compile on the current tree'}
        else:
            o = subprocess.run(['./check', prop, '--tier', 'quick'], capture_output=True, text=True)
            sigs = re.findall(r'signature=(.*?) cases=', o.stdout + o.stderr)
            r = {'exit': o.returncode, 'signatures': sigs[:6], 'result': 'caught' if o.returncode == 1 else ('machinery' if o.returncode == 2 else 'not caught')}
    finally:
        subprocess.run(['git', '-C', '/repo', 'checkout', '--', '.'])
        subprocess.run(['git', '-C', '/repo', 'clean', '-fdq', 'src'])
    r.update({'name': name, 'property': prop, 'commit': commit, 'defect': what})
    if r.get('result') != 'caught' and name in NOTES:
        r['note'] = NOTES[name]
    old[name] = r
    print(name, r['result'], (r.get('signatures') or [''])[0][:100], flush=True)
    json.dump(sorted(old.values(), key=lambda r: r['name']), open(res_file, 'w'), indent=1)
subprocess.run(['./check', '--build'], capture_output=True)
