#!/bin/bash
# Runs the repository's own test suite with the verification guard OFF and checks that every
# test of BASELINE.json's stable_pass list passes. Usage: baseline.sh [repo dir]
REPO=${1:-/repo}
cd "$REPO" || exit 2
unset RUSTFLAGS
OUT=$(mktemp)
CARGO_NET_OFFLINE=true cargo test --workspace --no-fail-fast --offline -- --test-threads 8 >"$OUT" 2>&1
python3 - "$OUT" <<'PY'
import json,re,sys
out=open(sys.argv[1]).read()
ok=set(re.findall(r"^test (\S+) \.\.\. ok$", out, re.M))
base=json.load(open('/root/.vp/BASELINE.json'))['stable_pass']
missing=[t for t in base if t.split('::',1)[1] not in ok]
print(f"baseline: {len(base)-len(missing)}/{len(base)} stable tests pass; total ok={len(ok)}")
if missing:
    print("MISSING:", *missing[:40], sep="\n  ")
    sys.exit(1)
PY
rc=$?
rm -f "$OUT"
exit $rc
