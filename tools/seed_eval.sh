#!/bin/bash
# usage: seed_eval.sh <PROP> <worktree> <mN> [check props...]
# 1. in the scratch worktree: confirms the patch applies, the 227 baseline tests still pass with it, the demo fails with it and passes without it
# 2. applies the patch to /repo's working tree, runs the quick checks, reverts
# 3. stores patch.diff, demo.rs, README.md and meta.json under /verif/seeded/<PROP>/<mN>/
PROP=$1; WT=$2; M=$3; shift 3; CHECKS=("$@"); [ ${#CHECKS[@]} = 0 ] && CHECKS=("$PROP")
S=$WT/_seed/$M; OM=${SEED_OUT:-$M}; OUT=/verif/seeded/$PROP/$OM; mkdir -p $OUT
cp $S/patch.diff $S/demo.rs $OUT/ 2>/dev/null; cp $S/README.md $OUT/ 2>/dev/null
# PHASE=A: only the confirmation in the worktree (can run in parallel for different worktrees); PHASE=B: only the /repo part
A=/tmp/seedA_${PROP}_$OM.txt
if [ "$PHASE" != "B" ]; then
cd $WT && git checkout -q -- src && rm -f tests/seed_demo_*.rs
export CARGO_NET_OFFLINE=true CARGO_TARGET_DIR=$WT/target
mkdir -p tests; cp $S/demo.rs tests/seed_demo_$M.rs
without=$(cargo test --offline --test seed_demo_$M 2>&1 | grep -a -E "^test result" | tail -1)
git apply $S/patch.diff || { echo "PATCH DOES NOT APPLY"; exit 2; }
with=$(cargo test --offline --test seed_demo_$M 2>&1 | grep -a -E "^test result" | tail -1)
base=$(cargo test --offline --lib --no-fail-fast -- --test-threads 8 > /tmp/seed_base_$$.txt 2>&1; python3 - /tmp/seed_base_$$.txt <<'PY'
import json,re,sys
out=open(sys.argv[1]).read()
ok=set(re.findall(r"^test (\S+) \.\.\. ok$", out, re.M))
base=json.load(open('/root/.vp/BASELINE.json'))['stable_pass']
missing=[t for t in base if t.split('::',1)[1] not in ok]
print(f"{len(base)-len(missing)}/{len(base)}")
PY
)
rm -f /tmp/seed_base_$$.txt
git checkout -q -- src; rm -f tests/seed_demo_$M.rs
echo "[$PROP/$M] baseline with patch: $base ; demo without: $without ; demo with: $with"
printf '%s\n%s\n%s\n' "$base" "$without" "$with" > $A
fi
[ "$PHASE" = "A" ] && exit 0
base=$(sed -n 1p $A); without=$(sed -n 2p $A); with=$(sed -n 3p $A)
# run the checks against /repo
unset CARGO_TARGET_DIR
cd /repo && git diff --quiet || { echo "repo dirty"; exit 2; }
git apply $S/patch.diff || { echo "PATCH DOES NOT APPLY TO /repo"; exit 2; }
echo "[$PROP/$M] applied to /repo: $(git diff --stat | tail -1)"
git diff --name-only | xargs touch
results="{"
for c in "${CHECKS[@]}"; do
  cd /verif; o=$(./check $c --tier quick 2>&1); rc=$?
  sigs=$(echo "$o" | grep 'signature=' | sed 's/^ *signature=//' | cut -c1-160 | head -5 | python3 -c "import sys,json; print(json.dumps([l.strip() for l in sys.stdin]))")
  echo "[$PROP/$M] check $c exit=$rc $(echo "$o" | grep -c '^VIOLATION') VIOLATION lines; $(echo "$o" | tail -1)"
  results="$results\"$c\": {\"exit\": $rc, \"signatures\": $sigs},"
done
results="${results%,}}"
git -C /repo checkout -- .
python3 - "$OUT" "$PROP" "$OM" "$base" "$without" "$with" "$results" <<'PY'
import json,sys
out,prop,m,base,without,with_,res=sys.argv[1:8]
readme=''
try: readme=open(out+'/README.md').read()
except Exception: pass
json.dump({"property":prop,"id":m,"origin":"independent sub-agent given only the property text and a scratch worktree",
 "needs_to_manifest": readme[:1500],
 "confirmed":{"baseline_tests_with_patch":base,"demo_without_patch":without,"demo_with_patch":with_},
 "checks_quick": json.loads(res)}, open(out+'/meta.json','w'), indent=1)
PY
