#!/usr/bin/env python3
"""Re-validates every stored seeded change (seeded/<ID>/mN) against the CURRENT /repo tree and the current checks:
applies the patch (plain, then --3way), builds, runs the quick check of its property, restores the tree, and records the
outcome in the change's meta.json under "recheck" (the verdict on the tree the change was written for stays in "checks_quick").
A patch that no longer applies (repairs changed the same lines) is recorded as such. usage: seed_recheck_all.py [ID ...]"""
import subprocess, sys, json, re, os, glob

os.chdir('/verif')
sel = sys.argv[1:]
head = subprocess.run(['git', '-C', '/repo', 'rev-parse', '--short', 'HEAD'], capture_output=True, text=True).stdout.strip()
summary = []
for d in sorted(glob.glob('/verif/seeded/*/m*')):
    prop, m = d.split('/')[-2:]
    if sel and prop not in sel:
        continue
    patch = d + '/patch.diff'
    if not os.path.exists(d + '/meta.json') or int(m[1:]) >= 7:
        continue  # m7.. were written for the final tree and evaluated there (seed_eval.sh)
    meta = json.load(open(d + '/meta.json'))
    if subprocess.run(['git', '-C', '/repo', 'diff', '--quiet']).returncode != 0:
        print('repo working tree not clean'); sys.exit(2)
    ok = subprocess.run(['git', '-C', '/repo', 'apply', patch], capture_output=True).returncode == 0
    if not ok:
        ok = subprocess.run(['git', '-C', '/repo', 'apply', '--3way', patch], capture_output=True).returncode == 0
        if ok and subprocess.run(['git', '-C', '/repo', 'diff', '--name-only', '--diff-filter=U'], capture_output=True, text=True).stdout.strip():
            ok = False
    r = {'tree': head}
    try:
        if not ok:
            r['result'] = 'patch no longer applies (repairs changed the same lines)'
        else:
            b = subprocess.run(['cargo', 'build', '--offline'], cwd='/repo', capture_output=True, text=True, env=dict(os.environ, CARGO_NET_OFFLINE='true'))
            if b.returncode != 0:
                r['result'] = 'patch no longer compiles on the repaired tree'
            else:
                o = subprocess.run(['./check', prop, '--tier', 'quick'], capture_output=True, text=True)
                sigs = [s[:160] for s in re.findall(r'signature=(.*)', o.stdout + o.stderr)][:4]
                r.update({'exit': o.returncode, 'signatures': sigs, 'result': 'caught' if o.returncode == 1 and sigs else ('machinery' if o.returncode == 2 else 'not caught')})
    finally:
        subprocess.run(['git', '-C', '/repo', 'reset', '-q', '--hard', 'HEAD'])
        subprocess.run(['git', '-C', '/repo', 'clean', '-fdq', 'src', 'tests'])
    meta['recheck'] = r
    json.dump(meta, open(d + '/meta.json', 'w'), indent=1)
    summary.append((prop, m, r['result']))
    print(prop, m, r['result'], (r.get('signatures') or [''])[0][:100], flush=True)
subprocess.run(['./check', '--build'], capture_output=True)
bad = [s for s in summary if s[2] == 'not caught' or s[2] == 'machinery']
print(f"{len(summary)} changes: {sum(1 for s in summary if s[2]=='caught')} caught, {len(bad)} not caught / machinery, {len(summary)-len(bad)-sum(1 for s in summary if s[2]=='caught')} no longer apply")
for b in bad:
    print('ATTENTION', *b)
