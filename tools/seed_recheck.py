#!/usr/bin/env python3
"""usage: seed_recheck.py <PROP> <mN> "<what was strengthened>"  - re-runs the quick check against a stored seeded change and records the new verdict in its meta.json"""
import subprocess, sys, json, re, os
prop, m, note = sys.argv[1], sys.argv[2], sys.argv[3]
d = f'/verif/seeded/{prop}/{m}'
if subprocess.run(['git', '-C', '/repo', 'diff', '--quiet']).returncode != 0:
    print('repo working tree not clean'); sys.exit(2)
if subprocess.run(['git', '-C', '/repo', 'apply', d + '/patch.diff']).returncode != 0:
    print('patch does not apply'); sys.exit(2)
try:
    o = subprocess.run(['./check', prop, '--tier', 'quick'], capture_output=True, text=True, cwd='/verif')
finally:
    subprocess.run(['git', '-C', '/repo', 'checkout', '--', '.'])
sigs = [s[:160] for s in re.findall(r'signature=(.*)', o.stdout + o.stderr)][:5]
meta = json.load(open(d + '/meta.json'))
meta['checks_quick_first_version'] = meta.get('checks_quick_first_version', meta['checks_quick'])
meta['checks_quick'] = {prop: {'exit': o.returncode, 'signatures': sigs}}
meta['note'] = 'missed by the first version of the check; ' + note
json.dump(meta, open(d + '/meta.json', 'w'), indent=1)
print(prop, m, 'exit', o.returncode, sigs[0][:120] if sigs else '')
