#!/bin/bash
# re-validates detection on the current tree: repaired defects put back, seeded changes, own mutants (each restores /repo afterwards)
cd /verif
tools/run_reintroduced.py
tools/seed_recheck_all.py
tools/run_mutations.py
