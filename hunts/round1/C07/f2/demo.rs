// C07 / finding 2: a layer's default font page that has no font in the font table makes the
// native save panic as soon as the preview image is not empty.
// (The in-tree test formats::icy_draw::tests::test_default_font_page uses exactly such a document -
//  default_font_page 12 and 1 with only font slot 0 - and passes only because its buffer is empty,
//  so the preview renderer is never entered.)
use icy_engine::{AttributedChar, Buffer, Layer, SaveOptions, TextAttribute, TextPane};
use std::path::Path;

#[test]
fn default_font_page_roundtrips_when_document_is_not_empty() {
    // the document of test_default_font_page ...
    let mut buf = Buffer::default();
    buf.layers[0].default_font_page = 12;
    buf.layers.push(Layer::new("test", (80, 25)));
    buf.layers[1].default_font_page = 1;
    // ... plus one visible cell (font page 0, which has a font) on the top layer
    buf.layers[1].set_char((0, 0), AttributedChar::new('A', TextAttribute::default()));

    let mut opt = SaveOptions::new();
    opt.lossles_output = true;
    let bytes = std::panic::catch_unwind(std::panic::AssertUnwindSafe(|| buf.to_bytes("icy", &opt)));
    let bytes = match bytes {
        Ok(res) => res.expect("save returns Ok"),
        Err(_) => panic!(
            "saving a document in the native format panicked: layer default font pages 12 / 1 are not in the font table \
             and Buffer::render_to_rgba unwraps get_font(default_font_page) for every cell no layer has painted"
        ),
    };
    let loaded = Buffer::from_bytes(Path::new("demo.icy"), false, &bytes).expect("load");
    assert_eq!(loaded.layers[0].default_font_page, 12);
    assert_eq!(loaded.layers[1].default_font_page, 1);
    assert_eq!(loaded.layers[1].get_char((0, 0)).ch, 'A');
}
