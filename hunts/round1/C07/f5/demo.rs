// C07 / finding 5: an invisible cell that carries any other attribute bit desynchronises the
// cell stream: the writer emits 2 bytes for it, the reader takes it for a 'long' cell and
// consumes 14 more. The visible cells behind it are lost: the file the crate has just written
// is rejected by its own loader ("data length out ouf bounds" when the row is short,
// "invalid character code ..." when enough bytes follow to be taken for a cell).
use icy_engine::{AttributedChar, Buffer, SaveOptions, TextAttribute, TextPane};
use std::path::Path;

fn save(buf: &Buffer) -> Vec<u8> {
    let mut opt = SaveOptions::new();
    opt.lossles_output = true;
    buf.to_bytes("icy", &opt).expect("save")
}

#[test]
fn visible_cell_behind_flagged_invisible_cell_survives() {
    let mut buf = Buffer::new((2, 1));
    let mut hole = AttributedChar::invisible();
    hole.attribute.set_is_bold(true); // INVISIBLE | BOLD, still !is_visible()
    assert!(!hole.is_visible());
    buf.layers[0].set_char((0, 0), hole);
    buf.layers[0].set_char((1, 0), AttributedChar::new('A', TextAttribute::default()));

    let bytes = save(&buf);
    let loaded = match Buffer::from_bytes(Path::new("demo.icy"), false, &bytes) {
        Ok(b) => b,
        Err(err) => panic!("the file written by the native save path can't be loaded again: {err}"),
    };
    assert_eq!(loaded.layers[0].get_char((1, 0)), buf.layers[0].get_char((1, 0)), "visible cell (1,0) changed");
}

#[test]
fn row_behind_flagged_invisible_cell_is_not_shifted() {
    // with enough data behind the hole the following cells are decoded as one bogus 'long' cell
    let mut buf = Buffer::new((12, 1));
    let mut hole = AttributedChar::invisible();
    hole.attribute.set_is_underlined(true);
    buf.layers[0].set_char((0, 0), hole);
    for x in 1..12 {
        buf.layers[0].set_char((x, 0), AttributedChar::new((b'a' + x as u8) as char, TextAttribute::default()));
    }
    let bytes = save(&buf);
    let loaded = match Buffer::from_bytes(Path::new("demo.icy"), false, &bytes) {
        Ok(b) => b,
        Err(err) => panic!("the file written by the native save path can't be loaded again: {err}"),
    };
    for x in 1..12 {
        let want = buf.layers[0].get_char((x, 0));
        let got = loaded.layers[0].get_char((x, 0));
        assert!(
            got.is_visible() && got == want,
            "cell ({x},0): saved {:?} fg {} bg {}, loaded {:?} fg {} bg {} visible {}",
            want.ch, want.attribute.get_foreground(), want.attribute.get_background(),
            got.ch, got.attribute.get_foreground(), got.attribute.get_background(), got.is_visible()
        );
    }
}
