// C07 / finding 3: the writer treats a layer with role Image as "exactly one sixel and nothing else".
//  - visible cells of an image layer are never written, they are gone after save + load
//  - Layer::set_char on the picture's first row removes the sixel (layer.rs, sixels.retain), the
//    role stays Image, and the next native save panics on `layer.sixels[0]`
use icy_engine::{AttributedChar, Buffer, Layer, Role, SaveOptions, Sixel, TextAttribute, TextPane};
use std::path::Path;

fn document() -> Buffer {
    let mut buf = Buffer::new((10, 5));
    buf.layers[0].set_char((9, 4), AttributedChar::new('A', TextAttribute::default()));
    // an image layer as formats::parse_with_parser builds it for a sixel in an ANSI file
    let mut image = Layer::new("image", (2, 2));
    image.role = Role::Image;
    image.sixels.push(Sixel::from_data((16, 32), 1, 1, vec![0x7F; 16 * 32 * 4]));
    image.set_offset((1, 1));
    buf.layers.push(image);
    buf
}

fn roundtrip(buf: &Buffer, what: &str) -> Buffer {
    let mut opt = SaveOptions::new();
    opt.lossles_output = true;
    let saved = std::panic::catch_unwind(std::panic::AssertUnwindSafe(|| buf.to_bytes("icy", &opt)));
    let bytes = match saved {
        Ok(res) => res.expect("save returns Ok"),
        Err(_) => panic!("saving in the native format panicked: {what}"),
    };
    Buffer::from_bytes(Path::new("demo.icy"), false, &bytes).expect("load")
}

#[test]
fn cell_on_second_row_of_image_layer_survives() {
    let mut buf = document();
    let cell = AttributedChar::new('Z', TextAttribute::new(14, 1));
    buf.layers[1].set_char((1, 1), cell);
    assert_eq!(buf.layers[1].sixels.len(), 1, "the picture is still there");
    assert_eq!(buf.layers[1].get_char((1, 1)), cell);

    let loaded = roundtrip(&buf, "image layer with a cell on its second row");
    assert_eq!(loaded.layers[1].role, Role::Image);
    assert_eq!(loaded.layers[1].sixels, buf.layers[1].sixels);
    let got = loaded.layers[1].get_char((1, 1));
    assert!(
        got.is_visible() && got == cell,
        "visible cell (1,1) of the image layer was 'Z' fg 14 bg 1 before the save, after the load it is {:?} visible={}",
        got.ch,
        got.is_visible()
    );
}

#[test]
fn cell_on_first_row_of_image_layer_survives() {
    let mut buf = document();
    let cell = AttributedChar::new('Z', TextAttribute::new(14, 1));
    buf.layers[1].set_char((1, 0), cell); // drops the sixel, role stays Image
    assert_eq!(buf.layers[1].role, Role::Image);

    let loaded = roundtrip(&buf, "layer has role Image but set_char removed its sixel, the writer indexes sixels[0]");
    assert_eq!(loaded.layers[1].get_char((1, 0)), cell);
}
