// C07 / finding 1: the SAUCE record is not stored, it is regenerated on every save.
// The creation date of the record is replaced by the day of the save, and the other
// SAUCE fields that are not title/author/group/comments are rebuilt from buffer state.
use icy_engine::{Buffer, SaveOptions, SauceData, SauceString};
use std::path::Path;

fn roundtrip(buf: &Buffer) -> Buffer {
    let mut opt = SaveOptions::new();
    opt.lossles_output = true;
    let bytes = buf.to_bytes("icy", &opt).expect("save");
    Buffer::from_bytes(Path::new("demo.icy"), false, &bytes).expect("load")
}

#[test]
fn sauce_creation_date_survives_icy_roundtrip() {
    let mut buf = Buffer::new((4, 1));
    let mut sauce = SauceData::default();
    sauce.title = SauceString::from("Title");
    sauce.author = SauceString::from("Author");
    sauce.group = SauceString::from("Group");
    sauce.creation_time = chrono::NaiveDate::from_ymd_opt(1996, 4, 1).unwrap().and_hms_opt(0, 0, 0).unwrap();
    buf.set_sauce(Some(sauce.clone()), false);

    let loaded = roundtrip(&buf);
    let got = loaded.get_sauce().clone().expect("SAUCE chunk is read back");

    // these survive
    assert!(got.title == sauce.title && got.author == sauce.author && got.group == sauce.group);
    // this does not: the writer stamps Utc::now() into the record
    assert_eq!(
        got.creation_time, sauce.creation_time,
        "SAUCE creation date changed by save+load in the native format: saved {} loaded {}",
        sauce.creation_time, got.creation_time
    );
}

#[test]
fn sauce_font_name_survives_icy_roundtrip() {
    // same root cause: TInfoS is always written from the name of font slot 0
    let mut buf = Buffer::new((4, 1));
    let mut sauce = SauceData::default();
    sauce.font_opt = Some("IBM VGA50".to_string());
    buf.set_sauce(Some(sauce.clone()), false);
    let loaded = roundtrip(&buf);
    let got = loaded.get_sauce().clone().unwrap();
    assert_eq!(got.font_opt, sauce.font_opt, "SAUCE font name (TInfoS) changed by save+load in the native format");
}
