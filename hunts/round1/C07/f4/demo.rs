// C07 / finding 4: a document with an image layer whose x offset is negative (the picture hangs
// over the left border of the canvas) can't be saved in the native format: the preview renderer
// converts the negative pixel column to usize and the save panics.
use icy_engine::{AttributedChar, Buffer, Layer, Role, SaveOptions, Sixel, TextAttribute, TextPane};
use std::path::Path;

fn document(offset: (i32, i32)) -> Buffer {
    let mut buf = Buffer::new((10, 5));
    buf.layers[0].set_char((5, 0), AttributedChar::new('A', TextAttribute::default()));
    // what formats::parse_with_parser builds for a sixel in an ANSI file: a layer with role Image,
    // the sixel at (0, 0) of that layer, the layer offset carries the position
    let mut image = Layer::new("image", (2, 1));
    image.role = Role::Image;
    image.sixels.push(Sixel::from_data((16, 16), 1, 1, vec![0x7F; 16 * 16 * 4]));
    image.set_offset(offset);
    buf.layers.push(image);
    buf
}

fn roundtrip(buf: &Buffer) -> Buffer {
    let mut opt = SaveOptions::new();
    opt.lossles_output = true;
    let saved = std::panic::catch_unwind(std::panic::AssertUnwindSafe(|| buf.to_bytes("icy", &opt)));
    let bytes = match saved {
        Ok(res) => res.expect("save returns Ok"),
        Err(_) => panic!(
            "saving a document with an image layer at offset {} panicked (Buffer::render_to_rgba, negative pixel column cast to usize)",
            buf.layers[1].get_offset()
        ),
    };
    Buffer::from_bytes(Path::new("demo.icy"), false, &bytes).expect("load")
}

#[test]
fn image_layer_inside_canvas_roundtrips() {
    // control: the same document with the layer inside the canvas is fine
    let buf = document((1, 0));
    let loaded = roundtrip(&buf);
    assert_eq!(loaded.layers[1].role, Role::Image);
    assert_eq!(loaded.layers[1].get_offset(), buf.layers[1].get_offset());
    assert_eq!(loaded.layers[1].sixels, buf.layers[1].sixels);
}

#[test]
fn image_layer_left_of_canvas_roundtrips() {
    let buf = document((-1, 0));
    let loaded = roundtrip(&buf);
    assert_eq!(loaded.layers[1].role, Role::Image);
    assert_eq!(loaded.layers[1].get_offset(), buf.layers[1].get_offset());
    assert_eq!(loaded.layers[1].get_size(), buf.layers[1].get_size());
    assert_eq!(loaded.layers[1].sixels, buf.layers[1].sixels);
}
