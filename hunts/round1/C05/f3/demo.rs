// C05 / XBin: "where the format embeds them, identical font glyphs".
// The XBin writer decides by the NAME of the font whether it has to embed it. A font that still carries
// the name of the built-in font but has other glyphs (a glyph of the default font was edited, or a
// custom font was simply given that name) is not written, the file falls back to the stock CP437 font.
use icy_engine::{AttributedChar, BitFont, Buffer, IceMode, Rectangle, SaveOptions, TextAttribute, TextPane};
use std::path::Path;

#[test]
fn xbin_embeds_an_edited_default_font() {
    let mut buf = Buffer::new((2, 1));
    buf.ice_mode = IceMode::Ice;

    // start from the built-in 8x16 font and redraw 'A' (top scan line completely set), the name stays as it is
    let mut font = BitFont::default();
    font.get_glyph_mut('A').unwrap().data[0] = 0xFF;
    assert_eq!((font.size.width, font.size.height, font.length), (8, 16, 256));
    buf.set_font(0, font);

    let attr = TextAttribute::from_u8(0x1F, IceMode::Ice);
    buf.layers[0].set_char((0, 0), AttributedChar::new('A', attr));
    buf.layers[0].set_char((1, 0), AttributedChar::new('B', attr));

    for compress in [false, true] {
        let mut opt = SaveOptions::default();
        opt.compress = compress;
        opt.lossles_output = true;
        let bytes = buf.to_bytes("xb", &opt).unwrap();
        println!("compress={compress}: file has {} bytes, flags byte = {:#04x} (bit 1 = font present)", bytes.len(), bytes[10]);
        let loaded = Buffer::from_bytes(Path::new("demo.xb"), false, &bytes).unwrap();

        let old_glyph = buf.get_glyph(&buf.get_char((0, 0))).unwrap().clone();
        let new_glyph = loaded.get_glyph(&loaded.get_char((0, 0))).unwrap().clone();
        println!("glyph 'A' saved : {:?}", old_glyph.data);
        println!("glyph 'A' loaded: {:?}", new_glyph.data);

        let rect = Rectangle::from_min_size((0, 0), (2, 1));
        let same_pixels = buf.render_to_rgba(rect).1 == loaded.render_to_rgba(rect).1;
        assert_eq!(old_glyph, new_glyph, "the glyph of 'A' changed in an XBin save/load cycle: the edited font was not embedded");
        assert!(same_pixels, "the rendered picture changed");
    }
}
