// C05 / Tundra: cells that are transparent (not covered by any layer) are dropped by the writer
// instead of being written as blanks, so every cell after them moves to the left / up.
use icy_engine::{AttributedChar, Buffer, IceMode, SaveOptions, TextAttribute, TextPane};
use std::path::Path;

#[test]
fn tundra_keeps_cells_in_place_next_to_transparent_cells() {
    // a 4x2 picture "ABCD" / "EFGH", white on blue
    let mut buf = Buffer::new((4, 2));
    buf.ice_mode = IceMode::Ice;
    let attr = TextAttribute::from_u8(0x1F, IceMode::Ice);
    for (i, ch) in "ABCDEFGH".chars().enumerate() {
        buf.layers[0].set_char((i as i32 % 4, i as i32 / 4), AttributedChar::new(ch, attr));
    }
    // the canvas is made 2 columns wider, the layer keeps its size (what
    // EditState::resize_buffer(false, ..) does): columns 4 and 5 are not covered by a layer
    buf.set_size((6, 2));
    assert!(!buf.get_char((4, 0)).is_visible(), "precondition: (4,0) is a transparent cell");
    assert_eq!(buf.get_char((0, 1)).ch, 'E');

    let mut opt = SaveOptions::default();
    opt.save_sauce = true; // Tundra carries the width in the SAUCE record
    opt.lossles_output = true; // hand the buffer to the format writer as it is
    let bytes = buf.to_bytes("tnd", &opt).unwrap();
    let loaded = Buffer::from_bytes(Path::new("demo.tnd"), false, &bytes).unwrap();

    let row = |b: &Buffer, y: i32| (0..b.get_width()).map(|x| b.get_char((x, y)).ch).map(|c| if c == '\0' { '0' } else { c }).collect::<String>();
    println!("saved : {:?} / {:?}", row(&buf, 0), row(&buf, 1));
    for y in 0..loaded.get_height() {
        println!("loaded row {y}: {:?}", row(&loaded, y));
    }

    for y in 0..2 {
        for x in 0..4 {
            assert_eq!(
                loaded.get_char((x, y)).ch,
                buf.get_char((x, y)).ch,
                "cell ({x},{y}) changed: the writer dropped the transparent cells (4,0) and (5,0) and the second row moved into their place"
            );
        }
    }
    assert_eq!(loaded.get_size(), buf.get_size(), "size changed by a Tundra save/load cycle");
}
