// C05 / Tundra: "the same displayed foreground/background colours".
// The Tundra writer adds 8 to the foreground colour of every bold cell, also when the colour already is a
// bright one (8..15). Colour 12 + 8 = 20 is not in the 16 colour palette, Palette::get_rgb answers black
// for it, and black is what gets written. Everything else in the crate (TextAttribute::as_u8,
// Buffer::render_to_rgba) brightens a bold colour only if it is below 8.
use icy_engine::{AttributedChar, Buffer, IceMode, Rectangle, SaveOptions, TextAttribute, TextPane};
use std::path::Path;

#[test]
fn tundra_keeps_a_bold_bright_foreground() {
    let mut buf = Buffer::new((2, 1));
    buf.ice_mode = IceMode::Ice;

    // light red (12) on blue, with the bold attribute set as well
    let mut bold_bright = TextAttribute::from_u8(0x1C, IceMode::Ice);
    bold_bright.set_is_bold(true);
    buf.layers[0].set_char((0, 0), AttributedChar::new('A', bold_bright));
    buf.layers[0].set_char((1, 0), AttributedChar::new('B', TextAttribute::from_u8(0x1F, IceMode::Ice)));

    let mut opt = SaveOptions::default();
    opt.save_sauce = true;
    opt.lossles_output = true;
    let bytes = buf.to_bytes("tnd", &opt).unwrap();
    let loaded = Buffer::from_bytes(Path::new("demo.tnd"), false, &bytes).unwrap();
    assert_eq!(loaded.get_size(), buf.get_size());

    // the same cell through the 8 bit attribute formats keeps its colour: as_u8 gives 0x1C
    assert_eq!(bold_bright.as_u8(IceMode::Ice), 0x1C);

    let shown = |b: &Buffer| {
        let ch = b.get_char((0, 0));
        let fg = if ch.attribute.is_bold() && ch.attribute.get_foreground() < 8 {
            ch.attribute.get_foreground() + 8
        } else {
            ch.attribute.get_foreground()
        };
        b.palette.get_rgb(fg) // what Buffer::render_to_rgba uses
    };
    println!("foreground of (0,0): saved {:?}, loaded {:?}", shown(&buf), shown(&loaded));

    let rect = Rectangle::from_min_size((0, 0), (2, 1));
    let same_pixels = buf.render_to_rgba(rect).1 == loaded.render_to_rgba(rect).1;
    assert_eq!(shown(&loaded), shown(&buf), "the displayed foreground colour of the bold light red 'A' changed in a Tundra save/load cycle");
    assert!(same_pixels, "the rendered picture changed");
}
