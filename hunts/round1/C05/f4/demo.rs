// C05 / XBin re-save stability: "Loading any file these loaders accept, saving it again in the same
// format and loading that gives the same picture as the first load."
// The XBin loader accepts a header with the 512-character flag but without the font flag. It then puts
// every cell with a bright foreground on font page 1 - a page for which no font exists. Such a buffer
// can't be saved again: the XBin writer returns an error and Buffer::to_bytes even panics.
use icy_engine::{Buffer, SaveOptions, TextPane};
use std::path::Path;

fn file() -> Vec<u8> {
    let mut data = b"XBIN\x1a".to_vec();
    data.extend([2, 0]); // width 2
    data.extend([1, 0]); // height 1
    data.push(16); // font height
    data.push(0b0001_0000); // flags: 512 chars, no font, no palette, not compressed, blink
    data.extend([b'A', 0x07, b'B', 0x0F]); // 'A' grey, 'B' with attribute bit 3 set
    data
}

#[test]
fn xbin_512_flag_without_font_can_be_saved_again() {
    let first = Buffer::from_bytes(Path::new("demo.xb"), false, &file()).expect("the loader accepts the file");
    assert_eq!((first.get_width(), first.get_height()), (2, 1));
    let b = first.get_char((1, 0));
    println!("cell (1,0) after the first load: {b:?}, fonts in the buffer: {}, font 1 present: {}", first.font_count(), first.has_font(1));

    let mut opt = SaveOptions::default();
    opt.lossles_output = true; // straight to the XBin writer
    let saved = first.to_bytes("xb", &opt);
    if let Err(err) = &saved {
        println!("saving again failed: {}", err.to_string().lines().next().unwrap());
    }
    let saved = saved.expect("a file the XBin loader accepted must be savable as XBin again");
    let second = Buffer::from_bytes(Path::new("demo.xb"), false, &saved).unwrap();
    for x in 0..2 {
        assert_eq!(first.get_char((x, 0)), second.get_char((x, 0)));
        assert_eq!(first.get_glyph(&first.get_char((x, 0))), second.get_glyph(&second.get_char((x, 0))));
    }
}

#[test]
fn xbin_512_flag_without_font_default_save_options() {
    let first = Buffer::from_bytes(Path::new("demo.xb"), false, &file()).expect("the loader accepts the file");
    // default options: the buffer goes through the ColorOptimizer first, which looks up the glyph shapes
    // of font page 1 and unwraps a None (src/formats/color_optimization.rs:40)
    let res = std::panic::catch_unwind(std::panic::AssertUnwindSafe(|| first.to_bytes("xb", &SaveOptions::default())));
    assert!(res.is_ok(), "Buffer::to_bytes(\"xb\") panicked on a buffer that Buffer::from_bytes produced from an accepted XBin file");
    assert!(res.unwrap().is_ok(), "Buffer::to_bytes(\"xb\") failed on a buffer that Buffer::from_bytes produced from an accepted XBin file");
}
