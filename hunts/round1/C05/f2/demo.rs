// C05 / Tundra: "Tundra any width with SAUCE" - a picture wider than 1000 columns comes back 80 columns wide.
use icy_engine::{AttributedChar, Buffer, IceMode, SaveOptions, TextAttribute, TextPane};
use std::path::Path;

fn roundtrip(width: i32) -> (Buffer, Buffer) {
    let mut buf = Buffer::new((width, 2));
    buf.ice_mode = IceMode::Ice;
    let attr = TextAttribute::from_u8(0x1F, IceMode::Ice);
    for y in 0..2 {
        for x in 0..width {
            let ch = if y == 0 { 'A' } else { 'B' };
            buf.layers[0].set_char((x, y), AttributedChar::new(ch, attr));
        }
    }
    let mut opt = SaveOptions::default();
    opt.save_sauce = true; // the SAUCE record is the only place a Tundra file keeps its width
    opt.lossles_output = true;
    let bytes = buf.to_bytes("tnd", &opt).unwrap();
    let loaded = Buffer::from_bytes(Path::new("demo.tnd"), false, &bytes).unwrap();
    (buf, loaded)
}

#[test]
fn tundra_1000_columns_is_fine() {
    let (buf, loaded) = roundtrip(1000);
    assert_eq!(loaded.get_size(), buf.get_size());
}

#[test]
fn tundra_1001_columns_keeps_its_width() {
    let (buf, loaded) = roundtrip(1001);
    println!("saved {} -> loaded {}", buf.get_size(), loaded.get_size());
    assert_eq!(
        loaded.get_size(),
        buf.get_size(),
        "a 1001x2 Tundra picture with SAUCE was loaded with another size (Buffer::set_sauce replaces every SAUCE width above 1000 by 80)"
    );
    assert_eq!(loaded.get_char((0, 1)).ch, 'B', "first cell of the second row");
}
