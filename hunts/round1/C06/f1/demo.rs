//! C06 - a picture whose last 64 cells spell a SAUCE record: the uncompressed encoding ends with those
//! 128 bytes, `Buffer::from_bytes` takes them for a SAUCE trailer and cuts them (and one more byte) off the
//! image, the compressed encoding of the same buffer is not affected -> the two encodings decode to
//! different pictures.
use icy_engine::{AttributedChar, Buffer, IceMode, SaveOptions, TextAttribute, TextPane, FORMATS};
use std::path::Path;

fn xb() -> &'static dyn icy_engine::OutputFormat {
    FORMATS.iter().find(|f| f.get_file_extension() == "xb").unwrap().as_ref()
}

/// 128 bytes laid out like a SAUCE record (no comments)
fn sauce_like_bytes(width: u16, height: u16) -> Vec<u8> {
    let mut r = Vec::new();
    r.extend(b"SAUCE00");
    r.extend(format!("{:<35}", "a title").bytes());
    r.extend(format!("{:<20}", "an author").bytes());
    r.extend(format!("{:<20}", "a group").bytes());
    r.extend(b"19960101"); // date
    r.extend(0u32.to_le_bytes()); // file size
    r.push(6); // data type XBin
    r.push(0); // file type
    r.extend(width.to_le_bytes());
    r.extend(height.to_le_bytes());
    r.extend([0u8; 4]); // tinfo3, tinfo4
    r.push(0); // comments
    r.push(0); // flags
    r.extend([0u8; 22]); // tinfos
    assert_eq!(r.len(), 128);
    r
}

#[test]
fn picture_ending_in_sauce_like_cells() {
    let (w, h) = (64, 2);
    let mut buf = Buffer::new((w, h));
    buf.ice_mode = IceMode::Blink; // every attribute byte round-trips in blink mode
    for x in 0..w {
        buf.layers[0].set_char((x, 0), AttributedChar::new((b'a' + (x % 26) as u8) as char, TextAttribute::from_u8(0x1E, IceMode::Blink)));
    }
    let rec = sauce_like_bytes(w as u16, h as u16);
    for x in 0..w {
        let ch = rec[2 * x as usize];
        let at = rec[2 * x as usize + 1];
        buf.layers[0].set_char((x, 1), AttributedChar::new(ch as char, TextAttribute::from_u8(at, IceMode::Blink)));
    }

    let mut opt = SaveOptions::default();
    opt.save_sauce = false;
    opt.compress = false;
    let raw = xb().to_bytes(&buf, &opt).unwrap();
    opt.compress = true;
    let comp = xb().to_bytes(&buf, &opt).unwrap();
    // the uncompressed file is exactly header + w*h*2 bytes: nothing follows the image
    assert_eq!(raw.len(), 11 + (w * h * 2) as usize);

    let b_raw = Buffer::from_bytes(Path::new("pic.xb"), false, &raw).unwrap();
    let b_comp = Buffer::from_bytes(Path::new("pic.xb"), false, &comp).unwrap();
    assert_eq!(b_raw.get_size(), b_comp.get_size());

    let mut diffs = Vec::new();
    for y in 0..h {
        for x in 0..w {
            let c1 = b_raw.get_char((x, y));
            let c2 = b_comp.get_char((x, y));
            let orig = buf.get_char((x, y));
            assert!(c2 == orig, "compressed encoding decodes wrongly at ({x},{y}): {c2} instead of {orig}");
            if c1 != c2 || c1.is_visible() != c2.is_visible() {
                diffs.push((x, y));
            }
        }
    }
    assert!(
        diffs.is_empty(),
        "the uncompressed and the compressed XBin encoding of the same {w}x{h} buffer decode to different pictures: {} cells differ, first at {:?}: uncompressed gives {} (visible: {}), compressed gives {}; has_sauce after loading the uncompressed file (written WITHOUT sauce): {}",
        diffs.len(),
        diffs[0],
        b_raw.get_char(diffs[0]),
        b_raw.get_char(diffs[0]).is_visible(),
        b_comp.get_char(diffs[0]),
        b_raw.has_sauce()
    );
}

/// smallest input: a 64x1 picture. Here the cut (128 bytes + the supposed EOF character) reaches into the
/// 11 byte header, so the uncompressed file does not load at all while the compressed one loads fine.
#[test]
fn one_row_picture_of_sauce_like_cells() {
    let (w, h) = (64, 1);
    let mut buf = Buffer::new((w, h));
    buf.ice_mode = IceMode::Blink;
    let rec = sauce_like_bytes(w as u16, h as u16);
    for x in 0..w {
        let (ch, at) = (rec[2 * x as usize], rec[2 * x as usize + 1]);
        buf.layers[0].set_char((x, 0), AttributedChar::new(ch as char, TextAttribute::from_u8(at, IceMode::Blink)));
    }
    let mut opt = SaveOptions::default();
    opt.save_sauce = false;
    opt.compress = true;
    let comp = xb().to_bytes(&buf, &opt).unwrap();
    opt.compress = false;
    let raw = xb().to_bytes(&buf, &opt).unwrap();

    let b_comp = Buffer::from_bytes(Path::new("pic.xb"), false, &comp).expect("compressed encoding loads");
    for x in 0..w {
        assert!(b_comp.get_char((x, 0)) == buf.get_char((x, 0)));
    }
    let b_raw = Buffer::from_bytes(Path::new("pic.xb"), false, &raw);
    assert!(
        b_raw.is_ok(),
        "the compressed encoding of the 64x1 buffer loads and shows the picture, the uncompressed encoding of the same buffer ({} bytes = 11 header + 64*2) is rejected: {}",
        raw.len(),
        b_raw.err().unwrap()
    );
}
