// C12 / finding 3: a cell that no layer fills is composited as an invisible blank of the layer's
// default_font_page; the flattened copy used by the optimiser turns it into a blank of font page 0.
// With an 8x8 default page inside an 8x16 document the cell is rendered with a different height.
use icy_engine::{AttributedChar, BitFont, Buffer, ColorOptimizer, SaveOptions, TextAttribute, TextPane};

#[test]
fn unfilled_cell_of_layer_with_default_font_page_renders_the_same() {
    let mut buf = Buffer::new((2, 1));
    buf.set_font(32, BitFont::from_ansi_font_page(32).unwrap()); // C64 font, 8x8; font 0 is 8x16
    buf.layers[0].properties.has_alpha_channel = true;
    buf.layers[0].default_font_page = 32; // as stored in / loaded from .icy files
    let mut attr = TextAttribute::new(14, 1);
    attr.set_font_page(32);
    buf.layers[0].set_char((0, 0), AttributedChar::new('A', attr));
    // cell (1,0) is never written: it stays invisible

    let orig = buf.render_to_rgba(buf.get_rectangle());
    for normalize in [false, true] {
        let mut opt = SaveOptions::new();
        opt.normalize_whitespaces = normalize;
        let optimized = ColorOptimizer::new(&buf, &opt).optimize(&buf);
        let img = optimized.render_to_rgba(optimized.get_rectangle());
        assert_eq!(orig.0, img.0);
        // pixel (8, 12): column 0 of cell (1,0), row 12 (below the 8 rows of the 8x8 font)
        let o = (12 * 16 + 8) * 4;
        assert!(
            orig.1 == img.1,
            "normalize_whitespaces={normalize}: pixel (8,12) of the unfilled cell (1,0) is {:?} in the original (cell {:?}) but {:?} in the optimised buffer (cell {:?})",
            &orig.1[o..o + 4],
            buf.get_char((1, 0)),
            &img.1[o..o + 4],
            optimized.get_char((1, 0)),
        );
    }
}
