// C12 / finding 5: get_shape counts the set bits of all 8 columns of a glyph row but compares the sum with
// width * height. In a font that is narrower than 8 pixels a glyph that is not solid can reach that sum,
// is classified as a solid block, and gets its (visible) background replaced.
use icy_engine::{AttributedChar, BitFont, Buffer, ColorOptimizer, SaveOptions, TextAttribute, TextPane};

#[test]
fn narrow_font_glyph_is_not_mistaken_for_a_solid_block() {
    // a 4x2 font: glyph 'A' = row 0 all bits set (0xFF, the low nibble is outside the 4 visible columns), row 1 empty.
    // 8 set bits == 4 * 2, but only the upper half of the cell is foreground.
    let mut data = vec![0u8; 256 * 2];
    data['A' as usize * 2] = 0xFF;
    data['B' as usize * 2] = 0x50; // some ordinary glyph
    let font = BitFont::create_8("narrow", 4, 2, &data);

    let mut buf = Buffer::new((2, 1));
    buf.set_font(0, font);
    buf.layers[0].set_char((0, 0), AttributedChar::new('B', TextAttribute::new(15, 1))); // white on blue
    buf.layers[0].set_char((1, 0), AttributedChar::new('A', TextAttribute::new(15, 4))); // white on red

    let orig = buf.render_to_rgba(buf.get_rectangle());
    let optimized = ColorOptimizer::new(&buf, &SaveOptions::new()).optimize(&buf);
    let img = optimized.render_to_rgba(optimized.get_rectangle());
    // pixel (4, 1): first column of cell (1,0), second row -> background of 'A'
    let o = (1 * 8 + 4) * 4;
    assert!(
        orig == img,
        "background pixel (4,1) of the half filled glyph is {:?} in the original (cell {:?}) and {:?} in the optimised buffer (cell {:?})",
        &orig.1[o..o + 4],
        buf.get_char((1, 0)),
        &img.1[o..o + 4],
        optimized.get_char((1, 0))
    );
}
