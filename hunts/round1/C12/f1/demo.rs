// C12 / finding 1: a bold glyph whose foreground is RGB black (0x8000_0000, the value that is also
// TextAttribute::TRANSPARENT_COLOR) on a layer with an alpha channel changes colour in the optimised buffer.
use icy_engine::{AttributedChar, Buffer, ColorOptimizer, SaveOptions, TextAttribute, TextPane};

fn pixel(buf: &Buffer, px: usize, py: usize) -> [u8; 4] {
    let (size, data) = buf.render_to_rgba(buf.get_rectangle());
    let o = (py * size.width as usize + px) * 4;
    [data[o], data[o + 1], data[o + 2], data[o + 3]]
}

#[test]
fn rgb_black_bold_glyph_on_alpha_layer_keeps_its_colour() {
    // one layer, 1x1, the layer has an alpha channel (like every layer but the background in an .icy file)
    let mut buf = Buffer::new((1, 1));
    buf.layers[0].properties.has_alpha_channel = true;

    // 'A' in RGB black (directly encoded: bit 31 | 0x000000) on light grey, bold
    let mut attr = TextAttribute::new(0x8000_0000, 7);
    attr.set_is_bold(true);
    buf.layers[0].set_char((0, 0), AttributedChar::new('A', attr));

    // find one foreground pixel of the CP437 'A'
    let glyph = buf.get_font(0).unwrap().get_glyph('A').unwrap().clone();
    let (mut fx, mut fy) = (0, 0);
    'o: for y in 0..16 {
        for x in 0..8 {
            if glyph.data[y] & (128 >> x) != 0 {
                fx = x;
                fy = y;
                break 'o;
            }
        }
    }
    let orig_px = pixel(&buf, fx, fy);
    assert_eq!(orig_px, [0, 0, 0, 255], "the original renders the glyph in RGB black");

    for normalize in [false, true] {
        let mut opt = SaveOptions::new();
        opt.normalize_whitespaces = normalize;
        let optimized = ColorOptimizer::new(&buf, &opt).optimize(&buf);
        assert_eq!(optimized.get_size(), buf.get_size());

        let a = buf.render_to_rgba(buf.get_rectangle());
        let b = optimized.render_to_rgba(optimized.get_rectangle());
        assert!(
            a == b,
            "normalize_whitespaces={normalize}: the optimised buffer renders differently: glyph pixel ({fx},{fy}) is {:?} in the original and {:?} after optimisation; cell before {:?}, cell after {:?}",
            orig_px,
            pixel(&optimized, fx, fy),
            buf.get_char((0, 0)),
            optimized.get_char((0, 0)),
        );
    }
}
