// C12 / finding 4: the optimised buffer loses the sixel images of the document, so it renders differently.
use icy_engine::{Buffer, ColorOptimizer, SaveOptions, Sixel, TextPane};

#[test]
fn sixel_survives_colour_optimisation() {
    let mut buf = Buffer::new((2, 1));
    // an 8x16 pixel red image on cell (0,0)
    let mut data = Vec::new();
    for _ in 0..8 * 16 {
        data.extend_from_slice(&[255, 0, 0, 255]);
    }
    buf.layers[0].sixels.push(Sixel::from_data((8, 16), 1, 1, data));

    let orig = buf.render_to_rgba(buf.get_rectangle());
    assert_eq!(&orig.1[0..4], &[255, 0, 0, 255], "the original shows the image");

    let optimized = ColorOptimizer::new(&buf, &SaveOptions::new()).optimize(&buf);
    let img = optimized.render_to_rgba(optimized.get_rectangle());
    assert!(
        orig == img,
        "pixel (0,0) is {:?} in the original and {:?} in the optimised buffer; sixels before: {}, after: {}",
        &orig.1[0..4],
        &img.1[0..4],
        buf.layers.iter().map(|l| l.sixels.len()).sum::<usize>(),
        optimized.layers.iter().map(|l| l.sixels.len()).sum::<usize>()
    );
}
