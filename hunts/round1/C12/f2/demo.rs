// C12 / finding 2: the optimiser panics on a cell whose character has no glyph in its font page,
// although such a document renders fine. A UTF-8 file (with BOM) loaded by the crate's own ANSI loader is enough.
use icy_engine::{AttributedChar, Buffer, ColorOptimizer, SaveOptions, TextAttribute, TextPane};
use std::path::Path;

fn check(buf: &Buffer, what: &str) {
    // the original renders (cells without a glyph are simply left empty)
    let orig = buf.render_to_rgba(buf.get_rectangle());
    for normalize in [false, true] {
        let mut opt = SaveOptions::new();
        opt.normalize_whitespaces = normalize;
        let res = std::panic::catch_unwind(std::panic::AssertUnwindSafe(|| {
            let optimized = ColorOptimizer::new(buf, &opt).optimize(buf);
            optimized.render_to_rgba(optimized.get_rectangle())
        }));
        match res {
            Ok(img) => assert!(img == orig, "{what}: optimised picture differs (normalize_whitespaces={normalize})"),
            Err(_) => panic!("{what}: the original renders, but ColorOptimizer::optimize panicked (normalize_whitespaces={normalize}) - no optimised buffer is produced"),
        }
    }
}

#[test]
fn loaded_utf8_ansi_can_be_optimised() {
    // "A─B" as UTF-8 with a BOM: the loader stores U+2500 in the cell, the CP437 font has the glyphs 0..=255 only
    let bytes = "\u{FEFF}A\u{2500}B".as_bytes();
    let buf = Buffer::from_bytes(Path::new("utf8.ans"), false, bytes).unwrap();
    assert!((0..buf.get_width()).any(|x| buf.get_char((x, 0)).ch == '\u{2500}'), "loader keeps the unicode char");
    check(&buf, "utf8.ans loaded with Buffer::from_bytes");
    // default saving takes the same path
    let saved = std::panic::catch_unwind(std::panic::AssertUnwindSafe(|| buf.to_bytes("ans", &SaveOptions::default()).is_ok()));
    assert!(saved.is_ok(), "Buffer::to_bytes with default options panicked");
}

#[test]
fn cell_with_char_outside_the_font_can_be_optimised() {
    let mut buf = Buffer::new((2, 1));
    buf.layers[0].set_char((0, 0), AttributedChar::new('A', TextAttribute::default()));
    buf.layers[0].set_char((1, 0), AttributedChar::new('\u{100}', TextAttribute::default()));
    check(&buf, "2x1 buffer with U+0100 in cell (1,0)");
}
