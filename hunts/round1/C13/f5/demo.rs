// C13 / f5: an OPAQUE Chars-mode / Attributes-mode layer hides nothing: what lies beneath it decides the displayed cell.
use icy_engine::{AttributedChar, Buffer, Layer, Mode, Position, TextAttribute, TextPane};

fn opaque_layer(mode: Mode) -> Layer {
    let mut l = Layer::new("opaque", (3, 2));
    l.properties.has_alpha_channel = false; // opaque
    l.properties.mode = mode;
    l.set_offset((1, 1));
    l.set_char((1, 0), AttributedChar::new('C', TextAttribute::new(14, 4)));
    l
}

fn beneath(ch: char, fg: u32, bg: u32) -> Layer {
    let mut l = Layer::new("beneath", (6, 4));
    l.properties.has_alpha_channel = true;
    for y in 0..4 {
        for x in 0..6 {
            l.set_char((x, y), AttributedChar::new(ch, TextAttribute::new(fg, bg)));
        }
    }
    l
}

fn check(mode: Mode) {
    // the same opaque layer on top of two different pictures
    let mut a = Buffer::new((6, 4));
    a.layers = vec![beneath('x', 7, 1), opaque_layer(mode)];
    let mut b = Buffer::new((6, 4));
    b.layers = vec![beneath('y', 10, 2), opaque_layer(mode)];

    let rect = opaque_layer(mode).get_rectangle();
    let mut leaks = Vec::new();
    for y in rect.y_range() {
        for x in rect.x_range() {
            let p = Position::new(x, y);
            let (ca, cb) = (a.get_char(p), b.get_char(p));
            if ca != cb {
                leaks.push(format!(
                    "({x},{y}): {:?} {}/{} vs {:?} {}/{}",
                    ca.ch,
                    ca.attribute.get_foreground(),
                    ca.attribute.get_background(),
                    cb.ch,
                    cb.attribute.get_foreground(),
                    cb.attribute.get_background()
                ));
            }
        }
    }
    assert!(
        leaks.is_empty(),
        "an opaque {mode:?} layer has to hide everything beneath it inside its rectangle, but {} of its 6 cells show the layer beneath: {:?}",
        leaks.len(),
        leaks
    );
}

#[test]
fn control_opaque_normal_layer_hides_everything() {
    check(Mode::Normal);
}

#[test]
fn opaque_chars_layer_hides_nothing() {
    check(Mode::Chars);
}

#[test]
fn opaque_attributes_layer_hides_nothing() {
    check(Mode::Attributes);
}
