// C13 / f2: a transparent-colour half block of the top layer disappears when a Chars / Attributes layer lies
// between it and an EMPTY cell of an opaque layer.
use icy_engine::{AttributedChar, Buffer, Layer, Mode, TextAttribute, TextPane};

const HALF_BLOCK_TOP: char = 223 as char;

fn build(modifier_mode: Mode, bottom_alpha: bool) -> Buffer {
    // bottom: Normal layer, cell (0,0) = 'x', cell (1,0) left empty (invisible)
    let mut bottom = Layer::new("bottom", (2, 1));
    bottom.properties.has_alpha_channel = bottom_alpha;
    bottom.set_char((0, 0), AttributedChar::new('x', TextAttribute::new(7, 1)));

    // middle: a Chars (or Attributes) layer with a cell at both positions
    let mut middle = Layer::new("middle", (2, 1));
    middle.properties.has_alpha_channel = true;
    middle.properties.mode = modifier_mode;
    for x in 0..2 {
        middle.set_char((x, 0), AttributedChar::new('M', TextAttribute::new(10, 2)));
    }

    // top: alpha Normal layer, both cells are an upper half block: red, lower half transparent
    let mut top = Layer::new("top", (2, 1));
    top.properties.has_alpha_channel = true;
    for x in 0..2 {
        top.set_char((x, 0), AttributedChar::new(HALF_BLOCK_TOP, TextAttribute::new(4, TextAttribute::TRANSPARENT_COLOR)));
    }

    let mut buf = Buffer::new((4, 4));
    buf.layers = vec![bottom, middle, top];
    buf
}

fn check(modifier_mode: Mode) {
    let buf = build(modifier_mode, false);

    // over the filled cell of the opaque layer the red half block of the top layer is shown
    let over_filled = buf.get_char((0, 0));
    assert_eq!(HALF_BLOCK_TOP, over_filled.ch);
    assert_eq!(4, over_filled.attribute.get_foreground());

    // the same top cell with the same middle cell over the empty cell of an ALPHA bottom layer: shown as well
    let over_alpha = build(modifier_mode, true).get_char((1, 0));
    assert_eq!(HALF_BLOCK_TOP, over_alpha.ch);
    assert_eq!(4, over_alpha.attribute.get_foreground());

    // over the EMPTY cell of the opaque layer the visible cell of the topmost layer is gone
    let over_empty = buf.get_char((1, 0));
    assert!(
        over_empty.ch == HALF_BLOCK_TOP && over_empty.attribute.get_foreground() == 4,
        "{modifier_mode:?} layer in the middle: the topmost layer has a visible red upper half block at (1,0) and has to be shown \
         (layers are looked at topmost first), but the displayed cell is {:?} fg {} bg {} - the cell of the top layer was thrown away",
        over_empty.ch,
        over_empty.attribute.get_foreground(),
        over_empty.attribute.get_background()
    );
}

#[test]
fn half_block_over_chars_layer_over_empty_opaque_cell() {
    check(Mode::Chars);
}

#[test]
fn half_block_over_attributes_layer_over_empty_opaque_cell() {
    check(Mode::Attributes);
}

// second symptom of the same lines: the character of a FILLED opaque cell is lost when the Attributes layer above it
// carries a transparent colour
#[test]
fn attributes_layer_with_transparent_colour_erases_the_character_of_the_opaque_layer() {
    let mut bottom = Layer::new("bottom", (1, 1));
    bottom.properties.has_alpha_channel = false;
    bottom.set_char((0, 0), AttributedChar::new('x', TextAttribute::new(7, 1)));

    let mut colours = Layer::new("colours", (1, 1));
    colours.properties.has_alpha_channel = true;
    colours.properties.mode = Mode::Attributes;
    colours.set_char((0, 0), AttributedChar::new(' ', TextAttribute::new(14, TextAttribute::TRANSPARENT_COLOR)));

    let mut buf = Buffer::new((4, 4));
    buf.layers = vec![bottom, colours];
    let shown = buf.get_char((0, 0));
    assert_eq!(
        'x', shown.ch,
        "the opaque layer has a visible 'x' at (0,0) and no layer above it has a character there, but {:?} is shown",
        shown.ch
    );
}
