// C13 / f3: an INVISIBLE cell of an alpha Chars-mode layer changes the displayed cell.
use icy_engine::{attribute, AttributedChar, Buffer, Layer, Mode, TextAttribute, TextPane};

fn stack(with_chars_layer: Option<AttributedChar>) -> Buffer {
    let mut base = Layer::new("base", (1, 1));
    base.properties.has_alpha_channel = false;
    base.set_char((0, 0), AttributedChar::new('x', TextAttribute::new(7, 1)));

    let mut buf = Buffer::new((4, 4));
    buf.layers = vec![base];
    if let Some(cell) = with_chars_layer {
        let mut l = Layer::new("chars", (1, 1));
        l.properties.has_alpha_channel = true;
        l.properties.mode = Mode::Chars;
        l.set_char((0, 0), cell);
        buf.layers.push(l);
    }
    buf
}

#[test]
fn invisible_cell_with_a_character_in_an_alpha_chars_layer() {
    let mut attr = TextAttribute::default();
    attr.attr = attribute::INVISIBLE;
    let cell = AttributedChar::new('Z', attr);
    assert!(!cell.is_visible(), "the cell is invisible");

    let without = stack(None).get_char((0, 0));
    let with = stack(Some(cell)).get_char((0, 0));
    assert_eq!(
        without, with,
        "the only cell of the alpha Chars layer is invisible, so the layer must not influence the display: \
         without the layer {:?}, with it {:?}",
        without.ch, with.ch
    );
}

#[test]
fn invisible_cell_with_a_background_colour_in_an_alpha_chars_layer() {
    let mut cell = AttributedChar::invisible();
    cell.attribute.set_background(1);
    assert!(!cell.is_visible(), "the cell is invisible");

    let without = stack(None).get_char((0, 0));
    let with = stack(Some(cell)).get_char((0, 0));
    assert_eq!(
        without, with,
        "the only cell of the alpha Chars layer is invisible, so the layer must not influence the display: \
         without the layer {:?}, with it {:?}",
        without.ch, with.ch
    );
}

#[test]
fn the_same_cells_are_ignored_in_normal_and_attributes_mode() {
    // control: this passes - Normal and Attributes mode test is_visible()
    for mode in [Mode::Normal, Mode::Attributes] {
        let mut attr = TextAttribute::new(3, 4);
        attr.attr = attribute::INVISIBLE;
        let mut buf = stack(None);
        let mut l = Layer::new("l", (1, 1));
        l.properties.has_alpha_channel = true;
        l.properties.mode = mode;
        l.set_char((0, 0), AttributedChar::new('Z', attr));
        buf.layers.push(l);
        assert_eq!(stack(None).get_char((0, 0)), buf.get_char((0, 0)));
    }
}
