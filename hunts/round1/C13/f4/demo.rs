// C13 / f4: an empty alpha layer put UNDER the stack changes the font page (= the glyph set) of displayed cells.
use icy_engine::{AttributedChar, Buffer, Layer, Mode, Position, TextAttribute, TextPane};

fn empty_alpha_layer() -> Layer {
    let mut e = Layer::new("empty", (4, 2));
    e.properties.has_alpha_channel = true;
    e
}

#[test]
fn empty_alpha_layer_at_the_bottom_changes_the_font_page_of_a_chars_layer_cell() {
    // a Chars-mode layer whose characters are meant for font page 2 (Layer::default_font_page, stored in .icy files)
    let mut text = Layer::new("text", (4, 2));
    text.properties.has_alpha_channel = true;
    text.properties.mode = Mode::Chars;
    text.default_font_page = 2;
    text.set_char((1, 1), AttributedChar::new('A', TextAttribute::default()));

    let mut buf = Buffer::new((4, 2));
    buf.layers = vec![text.clone()];
    let before = buf.get_char((1, 1));
    assert_eq!(('A', 2), (before.ch, before.get_font_page()));

    // insert an empty alpha layer at the bottom of the stack
    buf.layers.insert(0, empty_alpha_layer());
    let after = buf.get_char((1, 1));
    assert_eq!(
        (before.ch, before.get_font_page()),
        (after.ch, after.get_font_page()),
        "inserting an empty alpha layer must not change a displayed cell, but 'A' moved from font page {} to font page {}",
        before.get_font_page(),
        after.get_font_page()
    );
}

#[test]
fn empty_alpha_layer_decides_the_font_page_of_every_cell_it_lies_under() {
    // all positions: a stack of one Attributes layer (font page 3) with and without an empty alpha layer under it
    let mut colours = Layer::new("colours", (3, 2));
    colours.properties.has_alpha_channel = true;
    colours.properties.mode = Mode::Attributes;
    colours.default_font_page = 3;
    colours.set_offset((1, 0));
    for x in 0..3 {
        colours.set_char((x, 0), AttributedChar::new(' ', TextAttribute::new(14, 4)));
    }

    let mut a = Buffer::new((6, 4));
    a.layers = vec![colours.clone()];
    let mut b = Buffer::new((6, 4));
    b.layers = vec![empty_alpha_layer(), colours];

    let mut diffs = Vec::new();
    for y in -2..6 {
        for x in -2..8 {
            let p = Position::new(x, y);
            let (ca, cb) = (a.get_char(p), b.get_char(p));
            if ca != cb || ca.get_font_page() != cb.get_font_page() {
                diffs.push(format!("({x},{y}): font page {} -> {}", ca.get_font_page(), cb.get_font_page()));
            }
        }
    }
    assert!(diffs.is_empty(), "an empty alpha layer under the stack changed {} cells: {:?}", diffs.len(), diffs);
}
