// C13 / f1: of two stacked Chars-mode (or Attributes-mode) layers the LOWER one wins.
use icy_engine::{AttributedChar, Buffer, Layer, Mode, TextAttribute, TextPane};

fn layer(mode: Mode, alpha: bool, cell: AttributedChar) -> Layer {
    let mut l = Layer::new("l", (1, 1));
    l.properties.has_alpha_channel = alpha;
    l.properties.mode = mode;
    l.set_char((0, 0), cell);
    l
}

fn stack(layers: Vec<Layer>) -> Buffer {
    let mut buf = Buffer::new((4, 4));
    buf.layers = layers;
    buf
}

#[test]
fn upper_chars_layer_is_overridden_by_the_chars_layer_beneath_it() {
    let base = layer(Mode::Normal, false, AttributedChar::new('x', TextAttribute::new(7, 1)));
    let lower = layer(Mode::Chars, true, AttributedChar::new('L', TextAttribute::default()));
    let upper = layer(Mode::Chars, true, AttributedChar::new('U', TextAttribute::default()));

    // sanity: each Chars layer alone replaces the character of the base layer
    assert_eq!('L', stack(vec![base.clone(), lower.clone()]).get_char((0, 0)).ch);
    assert_eq!('U', stack(vec![base.clone(), upper.clone()]).get_char((0, 0)).ch);

    // bottom -> top: base, lower, upper.  The topmost layer with a character at (0,0) is `upper`.
    let shown = stack(vec![base, lower, upper]).get_char((0, 0));
    assert_eq!(
        'U', shown.ch,
        "layers are looked at topmost first, so the character of the upper Chars layer ('U') has to be shown, \
         but the Chars layer beneath it shines through a non blank cell of the upper layer: got {:?}",
        shown.ch
    );
}

#[test]
fn upper_attributes_layer_is_overridden_by_the_attributes_layer_beneath_it() {
    let base = layer(Mode::Normal, false, AttributedChar::new('x', TextAttribute::new(7, 1)));
    let lower = layer(Mode::Attributes, true, AttributedChar::new(' ', TextAttribute::new(2, 3)));
    let upper = layer(Mode::Attributes, true, AttributedChar::new(' ', TextAttribute::new(14, 5)));

    let shown = stack(vec![base, lower, upper]).get_char((0, 0));
    assert_eq!(
        (14, 5),
        (shown.attribute.get_foreground(), shown.attribute.get_background()),
        "the colours of the upper Attributes layer (14 on 5) have to be shown, the Attributes layer beneath it won"
    );
}
