//! C11 / finding 1: the BinaryText (and ANSiMation) SAUCE variants carry the full ANSiFlags byte
//! (SAUCE rev. 5: "BinaryText ... Flags: ANSiFlags, TInfoS: FontName"), but the writer only stores the
//! ice-colour bit and the reader only reads the ice-colour bit: letter-spacing and aspect-ratio are lost
//! for .bin and .idf files (and for every record written with SauceFileType::ANSiMation).
use icy_engine::{AttributedChar, Buffer, IceMode, SauceData, SauceFileType, SauceString, SaveOptions, TextAttribute};
use std::path::PathBuf;

fn picture(w: i32, h: i32) -> Buffer {
    let mut b = Buffer::new((w, h));
    for y in 0..h {
        for x in 0..w {
            b.layers[0].set_char((x, y), AttributedChar::new((b'A' + ((x + y) % 26) as u8) as char, TextAttribute::default()));
        }
    }
    b
}

fn meta() -> SauceData {
    let mut s = SauceData::default();
    s.title = SauceString::from("flags");
    s.use_letter_spacing = true;
    s.use_aspect_ratio = true;
    s
}

/// the ANS writer is the reference: same metadata, flags survive
#[test]
fn reference_ans_keeps_the_flags() {
    let mut b = picture(80, 2);
    b.set_sauce(Some(meta()), false);
    let mut o = SaveOptions::default();
    o.save_sauce = true;
    let bytes = b.to_bytes("ans", &o).unwrap();
    let l = Buffer::from_bytes(&PathBuf::from("a.ans"), true, &bytes).unwrap();
    let s = l.get_sauce().as_ref().unwrap();
    assert!(s.use_letter_spacing && s.use_aspect_ratio);
}

#[test]
fn bin_loses_letter_spacing_and_aspect_ratio() {
    let mut b = picture(160, 2);
    b.set_sauce(Some(meta()), false);
    let mut o = SaveOptions::default();
    o.save_sauce = true;
    let bytes = b.to_bytes("bin", &o).unwrap();
    // TFlags is byte 105 of the 128 byte record
    let t_flags = bytes[bytes.len() - 128 + 105];
    let l = Buffer::from_bytes(&PathBuf::from("a.bin"), true, &bytes).unwrap();
    let s = l.get_sauce().as_ref().expect("sauce record");
    assert_eq!(s.title.to_string(), "flags");
    assert!(
        s.use_letter_spacing && s.use_aspect_ratio,
        ".bin saved with letter_spacing=true aspect_ratio=true comes back as letter_spacing={} aspect_ratio={} (TFlags byte in the file: {:#010b}, the BinaryText variant carries ANSiFlags)",
        s.use_letter_spacing,
        s.use_aspect_ratio,
        t_flags
    );
}

#[test]
fn idf_loses_letter_spacing_and_aspect_ratio() {
    let mut b = picture(80, 2);
    b.ice_mode = IceMode::Ice;
    b.set_sauce(Some(meta()), false);
    let mut o = SaveOptions::default();
    o.save_sauce = true;
    let bytes = b.to_bytes("idf", &o).unwrap();
    let l = Buffer::from_bytes(&PathBuf::from("a.idf"), true, &bytes).unwrap();
    let s = l.get_sauce().as_ref().expect("sauce record");
    assert!(
        s.use_letter_spacing && s.use_aspect_ratio,
        ".idf (BinaryText record) saved with letter_spacing=true aspect_ratio=true comes back as letter_spacing={} aspect_ratio={}",
        s.use_letter_spacing,
        s.use_aspect_ratio
    );
}

#[test]
fn ansimation_record_loses_letter_spacing_and_aspect_ratio() {
    let mut b = picture(80, 2);
    b.set_sauce(Some(meta()), false);
    let mut file = b"content".to_vec();
    b.write_sauce_info(SauceFileType::ANSiMation, &mut file).unwrap();
    let s = SauceData::extract(&file).unwrap().unwrap();
    assert!(
        s.use_letter_spacing && s.use_aspect_ratio,
        "ANSiMation record written with letter_spacing=true aspect_ratio=true reads letter_spacing={} aspect_ratio={}",
        s.use_letter_spacing,
        s.use_aspect_ratio
    );
}

/// the reader half of the defect: a BinaryText record that has the bits set (as other SAUCE writers produce it)
#[test]
fn reader_ignores_the_bits_in_a_binarytext_record() {
    let mut b = picture(160, 1);
    b.set_sauce(Some(meta()), false);
    let mut o = SaveOptions::default();
    o.save_sauce = true;
    let mut bytes = b.to_bytes("bin", &o).unwrap();
    let n = bytes.len();
    bytes[n - 128 + 105] |= 0b0000_1100; // AR = 01 (stretch), LS = 10 (9 pixel)
    let l = Buffer::from_bytes(&PathBuf::from("a.bin"), true, &bytes).unwrap();
    let s = l.get_sauce().as_ref().unwrap();
    assert!(
        s.use_letter_spacing && s.use_aspect_ratio,
        "BinaryText record with TFlags=0b01100: reader yields letter_spacing={} aspect_ratio={}",
        s.use_letter_spacing,
        s.use_aspect_ratio
    );
}
