//! C11 / finding 4: a comment line is a 64 byte CP437 `Character` field, but `SauceString::<64, 0>::read`
//! stops at the first NUL byte: everything behind a NUL inside a comment line is dropped on load
//! (a line that starts with NUL comes back empty).  Title / author / group (same field type, read by the
//! same function with EMPTY = b' ') keep such bytes.
use icy_engine::{AttributedChar, Buffer, SauceData, SauceString, SaveOptions, TextAttribute};
use std::path::PathBuf;

fn save_load(ext: &str, text: &str) -> (SauceData, SauceData) {
    let mut b = Buffer::new((80, 1));
    b.layers[0].set_char((0, 0), AttributedChar::new('x', TextAttribute::default()));
    let mut s = SauceData::default();
    s.title = SauceString::from(text);
    s.comments.push(SauceString::from(text));
    s.comments.push(SauceString::from("second line"));
    b.set_sauce(Some(s.clone()), false);
    let mut o = SaveOptions::default();
    o.save_sauce = true;
    let bytes = b.to_bytes(ext, &o).unwrap();
    let l = Buffer::from_bytes(&PathBuf::from(format!("a.{ext}")), true, &bytes).unwrap();
    (s, l.get_sauce().clone().expect("sauce"))
}

#[test]
fn nul_inside_a_comment_line() {
    // CP437 0x00 between two words (the CP437 table of the crate maps U+0000 <-> 0x00)
    let text = "left\0right";
    let (saved, loaded) = save_load("ans", text);
    assert_eq!(loaded.title, saved.title, "the title field carries the same bytes");
    assert_eq!(loaded.title.to_string(), text);
    assert_eq!(loaded.comments.len(), 2);
    assert_eq!(loaded.comments[1].to_string(), "second line");
    assert_eq!(
        loaded.comments[0].to_string(),
        text,
        "comment line saved as {:?} (the title with the same text came back as {:?})",
        text,
        loaded.title.to_string()
    );
}

#[test]
fn comment_line_starting_with_nul() {
    let text = "\0indented";
    let (saved, loaded) = save_load("xb", text);
    assert_eq!(loaded.title, saved.title);
    assert!(
        loaded.comments[0] == saved.comments[0],
        "comment line saved as {:?} came back as {:?}",
        text,
        loaded.comments[0].to_string()
    );
}
