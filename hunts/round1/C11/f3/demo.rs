//! C11 / finding 3: the BinaryText record stores the width as FileType = width / 2.  `write_sauce_info`
//! refuses widths above 510 (`BinFileWidthLimitExceeded`) but silently truncates odd widths (and stores 0
//! for width 1), so a .bin file saved with SAUCE comes back with another width and every row of the
//! picture is shifted; the reader then even maps the stored 0 to 80 columns.
use icy_engine::{AttributedChar, Buffer, SauceData, SaveOptions, TextAttribute, TextPane};
use std::path::PathBuf;

fn picture(w: i32, h: i32) -> Buffer {
    let mut b = Buffer::new((w, h));
    for y in 0..h {
        for x in 0..w {
            b.layers[0].set_char((x, y), AttributedChar::new((b'a' + y as u8) as char, TextAttribute::default()));
        }
    }
    b.set_sauce(Some(SauceData::default()), false);
    b
}

fn rows(b: &Buffer) -> Vec<String> {
    (0..b.get_height()).map(|y| (0..b.get_width()).map(|x| b.get_char((x, y)).ch).collect()).collect()
}

fn save_load(w: i32, h: i32) -> (Buffer, Buffer) {
    let b = picture(w, h);
    let mut o = SaveOptions::default();
    o.save_sauce = true;
    let bytes = b.to_bytes("bin", &o).expect("the writer accepts the width");
    // nothing but the picture, EOF and the record
    assert_eq!(bytes.len(), (w * h * 2) as usize + 1 + 128);
    let l = Buffer::from_bytes(&PathBuf::from("a.bin"), true, &bytes).unwrap();
    (b, l)
}

#[test]
fn even_width_is_fine() {
    let (b, l) = save_load(6, 3);
    assert_eq!(rows(&b), rows(&l));
}

#[test]
fn odd_width_5() {
    let (b, l) = save_load(5, 3);
    assert_eq!(
        l.get_sauce().as_ref().unwrap().buffer_size.width,
        5,
        "width in the loaded SAUCE data (saved 5) - the writer neither stored nor refused the odd width"
    );
    let _ = b;
}

#[test]
fn odd_width_5_picture() {
    let (b, l) = save_load(5, 3);
    assert_eq!(rows(&b), rows(&l), "picture saved as 5x3 .bin with SAUCE, loaded as {}x{}", l.get_width(), l.get_height());
}

#[test]
fn width_1_comes_back_as_80() {
    let (b, l) = save_load(1, 4);
    assert_eq!(
        (l.get_width(), l.get_height()),
        (b.get_width(), b.get_height()),
        "size of a 1x4 .bin saved with SAUCE (FileType 0 is written, the loader turns 0 into 80)"
    );
}
