//! C11 / finding 5: an empty (or all blank) title / author / group does not come back empty.
//! `SauceString::read` starts with `last_non_empty = LEN`, so for a field that consists of padding only
//! nothing is cut off and the value becomes LEN blanks: `is_empty()` is false after the round trip and
//! the Debug form shows 35 / 20 / 20 blanks.  (A field with at least one character is trimmed correctly.)
use icy_engine::{AttributedChar, Buffer, SauceData, SauceString, SaveOptions, TextAttribute};
use std::path::PathBuf;

fn save_load(ext: &str, s: SauceData) -> SauceData {
    let mut b = Buffer::new((80, 1));
    b.layers[0].set_char((0, 0), AttributedChar::new('x', TextAttribute::default()));
    b.set_sauce(Some(s), false);
    let mut o = SaveOptions::default();
    o.save_sauce = true;
    let bytes = b.to_bytes(ext, &o).unwrap();
    let l = Buffer::from_bytes(&PathBuf::from(format!("a.{ext}")), true, &bytes).unwrap();
    l.get_sauce().clone().expect("sauce")
}

#[test]
fn one_character_is_trimmed() {
    let mut s = SauceData::default();
    s.title = SauceString::from("t");
    let l = save_load("ans", s);
    assert_eq!(format!("{:?}", l.title), format!("{:?}", SauceString::<35, b' '>::from("t")));
}

#[test]
fn empty_fields_come_back_as_blanks() {
    let s = SauceData::default();
    assert!(s.title.is_empty() && s.author.is_empty() && s.group.is_empty());
    for ext in ["ans", "asc", "avt", "pcb", "bin", "xb", "tnd", "icy"] {
        let l = save_load(ext, s.clone());
        assert!(
            l.title.is_empty() && l.author.is_empty() && l.group.is_empty(),
            ".{ext}: saved with empty title/author/group, loaded title={:?} author={:?} group={:?} (is_empty: {} {} {})",
            l.title,
            l.author,
            l.group,
            l.title.is_empty(),
            l.author.is_empty(),
            l.group.is_empty()
        );
    }
}

#[test]
fn second_generation_is_still_not_empty() {
    // load -> save -> load: the 35 blanks are stable, the value never becomes empty again
    let l1 = save_load("ans", SauceData::default());
    let l2 = save_load("ans", l1.clone());
    assert_eq!(format!("{:?}", l1.title), format!("{:?}", l2.title));
    assert_eq!(
        format!("{:?}", l2.title),
        format!("{:?}", SauceString::<35, b' '>::new()),
        "Debug form of the title after two generations vs. the empty title that was saved"
    );
}
