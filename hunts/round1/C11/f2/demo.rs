//! C11 / finding 2: a SAUCE record whose width, ice-colour and font settings are the loader's defaults still
//! changes the picture: `Buffer::set_sauce(.., true)` copies the record's *height* (TInfo2) into
//! `terminal_state`, and the parsers take the screen height from there (`TerminalState::limit_caret_pos`:
//! a cursor jump is clamped to `line_count + terminal height`).  The same content therefore renders
//! differently with and without the record.
use icy_engine::{AttributedChar, Buffer, SauceFileType, SaveOptions, TextAttribute, TextPane};
use std::path::PathBuf;

fn rows(b: &Buffer) -> Vec<String> {
    (0..b.get_height())
        .map(|y| (0..b.get_width()).map(|x| b.get_char((x, y)).ch).collect::<String>().trim_end().to_string())
        .collect()
}

fn first_row_with(b: &Buffer, ch: char) -> Option<usize> {
    rows(b).iter().position(|r| r.contains(ch))
}

/// everything produced by the crate's own ANSI writer
#[test]
fn writer_generated_file_with_and_without_record() {
    // 80x40, 'A' in the first line, 'X' in the last line, nothing in between
    let mut buf = Buffer::new((80, 40));
    buf.layers[0].set_char((0, 0), AttributedChar::new('A', TextAttribute::default()));
    buf.layers[0].set_char((0, 39), AttributedChar::new('X', TextAttribute::default()));

    let mut with = SaveOptions::default();
    with.longer_terminal_output = true; // "generate a gotoxy sequence at each line start"
    with.skip_lines = Some((1..39).collect()); // the empty lines are not written
    with.save_sauce = true;
    let mut without = with.clone();
    without.save_sauce = false;

    let content = buf.to_bytes("ans", &without).unwrap();
    let file = buf.to_bytes("ans", &with).unwrap();
    assert_eq!(String::from_utf8_lossy(&content), "\x1b[0m\x1b[1HA\x1b[40HX");
    // file == content + EOF + 128 byte record
    assert_eq!(&file[..content.len()], &content[..]);
    assert_eq!(file[content.len()], 0x1A);
    assert_eq!(file.len(), content.len() + 1 + 128);

    let path = PathBuf::from("a.ans");
    let alone = Buffer::from_bytes(&path, true, &content).unwrap();
    let sauced = Buffer::from_bytes(&path, true, &file).unwrap();

    // the record carries nothing but defaults (as far as width / ice / font go)
    let s = sauced.get_sauce().as_ref().unwrap();
    assert_eq!(s.buffer_size.width, 80);
    assert!(!s.use_ice);
    assert!(icy_engine::BitFont::from_sauce_name(s.font_opt.as_ref().unwrap()).is_err(), "no SAUCE font is selected");

    assert_eq!(
        (alone.get_height(), first_row_with(&alone, 'X')),
        (sauced.get_height(), first_row_with(&sauced, 'X')),
        "(height, row of 'X'): content alone vs. content+EOF+SAUCE - the record (width 80, no ice, default font) changed the picture"
    );
}

/// smallest input: 9 bytes of content, record written by `write_sauce_info`
#[test]
fn minimal_content() {
    let content = b"\x1b[40;1HX".to_vec();
    let mut file = content.clone();
    Buffer::new((80, 40)).write_sauce_info(SauceFileType::Ansi, &mut file).unwrap();

    for ext in ["ans", "avt", "pcb", "asc"] {
        // (the avt / pcb / asc loaders run the same caret code; only ans understands the CSI, the others
        //  are listed to show that they are not affected by this particular content)
        let path = PathBuf::from(format!("a.{ext}"));
        let alone = Buffer::from_bytes(&path, true, &content).unwrap();
        let sauced = Buffer::from_bytes(&path, true, &file).unwrap();
        assert_eq!(
            rows(&alone),
            rows(&sauced),
            ".{ext}: picture of content alone ({} lines) != picture of content+EOF+SAUCE ({} lines)",
            alone.get_height(),
            sauced.get_height()
        );
    }
}
