#!/bin/bash
# usage: _hunt/run.sh N   -> runs _hunt/fN/demo.rs as tests/hunt_N.rs and prints the trimmed output
cd /tmp/hunt_C11
mkdir -p tests && cp _hunt/f$1/demo.rs tests/hunt_$1.rs
RUST_BACKTRACE=0 CARGO_NET_OFFLINE=true CARGO_TARGET_DIR=/tmp/hunt_C11/target cargo test --offline --test hunt_$1 2>&1 | sed -n '/^running/,$p'
rm -f tests/hunt_$1.rs; rmdir tests 2>/dev/null
