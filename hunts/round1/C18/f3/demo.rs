// C18 / f3: in IceMode::Unlimited the encoder does not mask the background to what the byte can hold.
// A NON-blinking attribute with a high background (8..=15, legal in an unlimited buffer) is written with
// bit 7 set, and the decoder of the same mode reads bit 7 as blink: the attribute comes back blinking.
// (IceMode::Blink masks the background to 3 bits and keeps blink = false for the very same attribute.)
use icy_engine::{IceMode, TextAttribute};

#[test]
fn unlimited_mode_never_invents_blink() {
    let mut bad = Vec::new();
    for fg in 0..16u32 {
        for bg in 0..16u32 {
            let a = TextAttribute::new(fg, bg); // blink = false
            let byte = a.as_u8(IceMode::Unlimited);
            let d = TextAttribute::from_u8(byte, IceMode::Unlimited);
            if d.is_blinking() != a.is_blinking() {
                bad.push(format!("fg {fg} bg {bg} blink false -> byte {byte:#04x} -> fg {} bg {} blink {}", d.get_foreground(), d.get_background(), d.is_blinking()));
            }
        }
    }
    assert!(
        bad.is_empty(),
        "{} non-blinking attributes decode as blinking after as_u8(Unlimited) -> from_u8(Unlimited); first: {}",
        bad.len(),
        bad[0]
    );
}

#[test]
fn blink_mode_does_not_have_the_problem() {
    // control: same attribute, Blink mode: background is reduced, but blink stays false
    let a = TextAttribute::new(7, 9);
    let d = TextAttribute::from_u8(a.as_u8(IceMode::Blink), IceMode::Blink);
    assert!(!d.is_blinking());
}
