// C18 / f4: the PETSCII converter truncates the character to u8 before the table lookup
// (`ch as u8` in convert_from_unicode and `ch.ch as u8` in convert_to_unicode).
// A typed letter above U+00FF is therefore looked up by its low byte and becomes a different letter.
use icy_engine::parsers::petscii;
use icy_engine::{AttributedChar, TextAttribute, UnicodeConverter};

#[test]
fn typed_letter_above_latin1_is_not_turned_into_another_letter() {
    let c = petscii::CharConverter::default();
    let mut bad = Vec::new();
    // Latin Extended-A letters: U+0141 'Ł', U+0161 'š', ...
    for cp in 0x100u32..0x180 {
        let ch = char::from_u32(cp).unwrap();
        if !ch.is_alphabetic() {
            continue;
        }
        let code = c.convert_from_unicode(ch, 0);
        let back = c.convert_to_unicode(AttributedChar::new(code, TextAttribute::default()));
        if back != ch {
            bad.push(format!("{ch:?} (U+{cp:04X}) -> code {:#04x} -> {back:?}", code as u32));
        }
    }
    assert!(bad.is_empty(), "{} typed letters come back as a different character; first: {}", bad.len(), bad[0]);
}

#[test]
fn smallest_case() {
    let c = petscii::CharConverter::default();
    let code = c.convert_from_unicode('Ł', 0); // U+0141, low byte 0x41 = 'A'
    let back = c.convert_to_unicode(AttributedChar::new(code, TextAttribute::default()));
    assert_eq!(back, 'Ł', "typed 'Ł' (U+0141) became code {:#04x}, which reads back as {back:?}", code as u32);
}

#[test]
fn stored_wide_character_is_not_read_as_a_petscii_code() {
    let c = petscii::CharConverter::default();
    // a cell that holds U+0161 is not PETSCII code 0x61
    let u = c.convert_to_unicode(AttributedChar::new('\u{0161}', TextAttribute::default()));
    assert_eq!(u, '\u{0161}', "cell U+0161 was truncated to code 0x61 and shown as {u:?}");
}
