// C18 / f1: a bold attribute with a low foreground does not survive as_u8 -> from_u8.
// as_u8 folds the BOLD flag into bit 3 of the foreground nibble, from_u8 never unfolds it:
// the decoded attribute has a different foreground (fg | 8) and is no longer bold.
use icy_engine::{IceMode, TextAttribute};

#[test]
fn bold_low_foreground_round_trips_through_the_attribute_byte() {
    let mut bad = Vec::new();
    for mode in [IceMode::Blink, IceMode::Ice, IceMode::Unlimited] {
        for fg in 0..16u32 {
            for bg in 0..16u32 {
                for blink in [false, true] {
                    for bold in [false, true] {
                        // only attributes the byte can express in this mode
                        let expressible = match mode {
                            IceMode::Blink | IceMode::Unlimited => bg < 8,
                            IceMode::Ice => !blink,
                        };
                        if !expressible {
                            continue;
                        }
                        let mut a = TextAttribute::new(fg, bg);
                        a.set_is_blinking(blink);
                        a.set_is_bold(bold);
                        let byte = a.as_u8(mode);
                        let d = TextAttribute::from_u8(byte, mode);
                        if d.get_foreground() != fg || d.get_background() != bg || d.is_blinking() != blink {
                            bad.push(format!(
                                "{mode:?}: fg {fg} bg {bg} blink {blink} bold {bold} -> byte {byte:#04x} -> fg {} bg {} blink {} bold {}",
                                d.get_foreground(),
                                d.get_background(),
                                d.is_blinking(),
                                d.is_bold()
                            ));
                        }
                    }
                }
            }
        }
    }
    assert!(
        bad.is_empty(),
        "{} expressible (fg, bg, blink, bold) tuples come back with a different foreground/background/blink after as_u8 -> from_u8; first: {}",
        bad.len(),
        bad[0]
    );
}

#[test]
fn smallest_case() {
    // the two public constructors for "DOS colour 9 on 0" disagree, and only one of them survives the byte
    let a = TextAttribute::from_color(9, 0); // fg 1 + BOLD
    let byte = a.as_u8(IceMode::Blink);
    assert_eq!(byte, 0x09);
    let d = TextAttribute::from_u8(byte, IceMode::Blink);
    assert_eq!(
        (d.get_foreground(), d.is_bold()),
        (a.get_foreground(), a.is_bold()),
        "from_color(9, 0) = (fg 1, bold) encodes to 0x09, but 0x09 decodes to (fg {}, bold {})",
        d.get_foreground(),
        d.is_bold()
    );
}
