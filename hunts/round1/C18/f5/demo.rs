// C18 / f5: CP437Converter::convert_from_unicode falls back to the identity for characters CP437 does
// not have. For Latin-1 letters (U+0080..=U+00FF) the "identity" value is itself a valid CP437 code with a
// completely different meaning, so a typed letter such as 'Ã' (U+00C3) is stored as code 0xC3 and reads
// back as the box drawing character U+251C.
use icy_engine::parsers::ascii::CP437Converter;
use icy_engine::{AttributedChar, TextAttribute, UnicodeConverter};

#[test]
fn typed_latin1_letters_come_back_or_are_refused() {
    let c = CP437Converter::default();
    let mut bad = Vec::new();
    for cp in 0x80u32..=0xFF {
        let ch = char::from_u32(cp).unwrap();
        if !ch.is_alphabetic() {
            continue;
        }
        let code = c.convert_from_unicode(ch, 0);
        let back = c.convert_to_unicode(AttributedChar::new(code, TextAttribute::default()));
        if back != ch {
            bad.push(format!("{ch:?} (U+{cp:04X}) -> code {:#04x} -> {back:?}", code as u32));
        }
    }
    assert!(bad.is_empty(), "{} typed Latin-1 letters come back as a different character: {:?}", bad.len(), bad);
}
