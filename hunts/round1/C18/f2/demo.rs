// C18 / f2: the Viewdata (and Mode 7) code table maps code 0x23 to 'f' (it is the pound sign in the
// Viewdata G0 set), the same Unicode character as code 0x66. Two printable codes share one Unicode
// character, so code 0x23 cannot come back, and a typed pound sign is not converted at all.
use icy_engine::parsers::{mode7, viewdata};
use icy_engine::{AttributedChar, TextAttribute, UnicodeConverter};

fn check(name: &str, c: &dyn UnicodeConverter) {
    // the printable alphanumeric (G0) range 0x21..=0x7F must be an injective code -> Unicode map
    let mut bad = Vec::new();
    for code in 0x21u8..=0x7F {
        let u = c.convert_to_unicode(AttributedChar::new(code as char, TextAttribute::default()));
        let back = c.convert_from_unicode(u, 0);
        if back != code as char {
            bad.push(format!("code {code:#04x} -> {u:?} -> code {:#04x}", back as u32));
        }
    }
    assert!(bad.is_empty(), "{name}: printable codes that do not convert to Unicode and back: {bad:?}");

    let pound = c.convert_from_unicode('£', 0);
    assert_eq!(pound, '\x23', "{name}: a typed pound sign should become code 0x23, got {:#04x}", pound as u32);
}

#[test]
fn viewdata_code_0x23_round_trips() {
    check("viewdata", &viewdata::CharConverter::default());
}

#[test]
fn mode7_code_0x23_round_trips() {
    check("mode7", &mode7::CharConverter::default());
}
