// C15 / finding 2: ATASCII - a normal-video '}' (or '~') that follows an inverse-video cell
// parses back as an inverse-video cell. The writer escapes the character (ESC 0x7D), the
// parser prints an escaped character with whatever attribute the previous character left behind.
use icy_engine::{AttributedChar, Buffer, BufferType, SaveOptions, TextAttribute, TextPane};
use std::path::PathBuf;

#[test]
fn normal_video_brace_after_inverse_cell_stays_normal_video() {
    let normal = TextAttribute::new(7, 0);
    let inverse = TextAttribute::new(0, 7); // what the ATASCII loader itself produces for inverse video

    let mut buf = Buffer::new((40, 1));
    buf.buffer_type = BufferType::Atascii;
    buf.layers[0].set_char((0, 0), AttributedChar::new('A', inverse));
    buf.layers[0].set_char((1, 0), AttributedChar::new('}', normal));

    let mut opt = SaveOptions::new();
    opt.lossles_output = true;
    let bytes = buf.to_bytes("ata", &opt).unwrap();
    assert_eq!(bytes, vec![0xC1, 0x1B, 0x7D], "the writer output is as expected: inverse A, ESC, '}}'");

    let loaded = Buffer::from_bytes(&PathBuf::from("demo.ata"), false, &bytes).unwrap();

    let a = loaded.get_char((0, 0));
    let b = loaded.get_char((1, 0));
    assert_eq!(a.ch, 'A');
    assert!(a.attribute.get_background() > 0, "cell 0 is inverse video");
    assert_eq!(b.ch, '}');
    assert!(
        b.attribute.get_background() == 0,
        "cell (1,0) was saved as a NORMAL video '}}' but parsed back as INVERSE video (fg {}, bg {}): the escaped character inherited the video state of the cell before it",
        b.attribute.get_foreground(),
        b.attribute.get_background()
    );
}
