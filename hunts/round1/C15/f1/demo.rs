// C15 / finding 1: a Ctrl-A, Renegade or ASCII file whose first three cells are the CP437
// characters 0xEF 0xBB 0xBF ("∩╗┐") in the default colour is re-read as UTF-8: the three
// cells collapse into one U+FEFF cell and everything behind them moves two columns to the left.
use icy_engine::{AttributedChar, Buffer, SaveOptions, ScreenPreperation, TextAttribute, TextPane};
use std::path::PathBuf;

fn roundtrip(ext: &str, prep: ScreenPreperation) -> Result<(), String> {
    // one row, four cells, light gray on black (the colour every one of the writers starts with)
    let cells = [0xEFu32, 0xBB, 0xBF, 'A' as u32];
    let mut buf = Buffer::new((80, 1));
    for (x, c) in cells.iter().enumerate() {
        buf.layers[0].set_char((x as i32, 0), AttributedChar::new(char::from_u32(*c).unwrap(), TextAttribute::default()));
    }

    let mut opt = SaveOptions::new();
    opt.lossles_output = true; // no colour optimizer: write the cells as they are
    opt.screen_preparation = prep;
    let bytes = buf.to_bytes(ext, &opt).unwrap();
    let loaded = Buffer::from_bytes(&PathBuf::from(format!("demo.{ext}")), false, &bytes).unwrap();

    for x in 0..cells.len() as i32 {
        let a = buf.get_char((x, 0));
        let b = loaded.get_char((x, 0));
        if a.ch != b.ch {
            return Err(format!(
                "{ext} ({prep:?}): file bytes {bytes:02X?}: column {x} was saved as U+{:04X} but parsed back as U+{:04X} (loaded buffer type {:?})",
                a.ch as u32, b.ch as u32, loaded.buffer_type
            ));
        }
    }
    Ok(())
}

#[test]
fn leading_ef_bb_bf_cells_parse_back_as_saved() {
    let mut failures = Vec::new();
    // Renegade and ASCII ignore the screen preparation; Ctrl-A only escapes with None
    // (with Home / ClearScreen the file starts with ^A and is read as CP437).
    for ext in ["msg", "an1", "asc"] {
        if let Err(e) = roundtrip(ext, ScreenPreperation::None) {
            failures.push(e);
        }
    }
    assert!(failures.is_empty(), "cells do not parse back as saved:\n{}", failures.join("\n"));
}
