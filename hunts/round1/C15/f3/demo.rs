// C15 / finding 3: ATASCII - an inverse-video '}' or '~' is written as the bare control code
// 0xFD (bell) / 0xFE (delete character): the writer decides about the ESC prefix only after it
// has added the inverse bit. The cell is lost on load and the rest of the row moves left.
use icy_engine::{AttributedChar, Buffer, BufferType, SaveOptions, TextAttribute, TextPane};
use std::path::PathBuf;

fn row_of(buf: &Buffer, n: i32) -> String {
    (0..n)
        .map(|x| {
            let c = buf.get_char((x, 0));
            format!("{}{}", if c.attribute.get_background() > 0 { "inv:" } else { "" }, c.ch)
        })
        .collect::<Vec<_>>()
        .join(" ")
}

#[test]
fn inverse_video_brace_and_tilde_parse_back_as_saved() {
    let normal = TextAttribute::new(7, 0);
    let inverse = TextAttribute::new(0, 7);
    let mut failures = Vec::new();

    for special in ['}', '~'] {
        let mut buf = Buffer::new((40, 1));
        buf.buffer_type = BufferType::Atascii;
        buf.layers[0].set_char((0, 0), AttributedChar::new('X', normal));
        buf.layers[0].set_char((1, 0), AttributedChar::new(special, inverse));
        buf.layers[0].set_char((2, 0), AttributedChar::new('Y', normal));

        let mut opt = SaveOptions::new();
        opt.lossles_output = true;
        let bytes = buf.to_bytes("ata", &opt).unwrap();
        let loaded = Buffer::from_bytes(&PathBuf::from("demo.ata"), false, &bytes).unwrap();

        let saved = row_of(&buf, 3);
        let got = row_of(&loaded, 3);
        if saved != got {
            failures.push(format!("inverse '{special}': file bytes {bytes:02X?}: saved row [{saved}] parsed back as [{got}]"));
        }
    }
    assert!(failures.is_empty(), "ATASCII rows do not parse back as saved:\n{}", failures.join("\n"));
}
