// C15 / finding 4: a buffer whose *text* happens to look like a SAUCE record is not parsed back
// at all. The writers (save_sauce = false) write the cells without the EOF character 0x1A,
// Buffer::from_bytes nevertheless looks for "SAUCE00" 128 bytes before the end of every file and
// does not require the 0x1A in front of the record (it even strips one more byte "for the EOF
// char" without looking at it): the text is cut off before it reaches the parser.
use icy_engine::{AttributedChar, Buffer, SaveOptions, TextAttribute, TextPane};
use std::path::PathBuf;

/// 128 printable ASCII characters that read as a SAUCE record with `comments` comment lines.
fn sauce_lookalike(comments: u8) -> Vec<u8> {
    let mut v = Vec::new();
    v.extend(b"SAUCE00");
    v.extend(std::iter::repeat(b't').take(35)); // title
    v.extend(std::iter::repeat(b'a').take(20)); // author
    v.extend(std::iter::repeat(b'g').take(20)); // group
    v.extend(b"20240101"); // date
    v.extend(b"size"); // file size
    v.extend(b"xx"); // data type, file type
    v.extend(b"11223344"); // tinfo 1-4
    v.push(comments); // number of comment lines
    v.push(b'f'); // flags
    v.extend(std::iter::repeat(b'i').take(22)); // tinfos
    assert_eq!(v.len(), 128);
    v
}

#[test]
fn text_that_looks_like_a_sauce_record_parses_back_as_saved() {
    // "COMNT" + 32 comment lines of 64 characters + the 128 character record: 2181 characters,
    // all of them printable ASCII (' ' = 0x20 = 32 is the comment count).
    let mut text = Vec::new();
    text.extend(b"COMNT");
    text.extend((0..32 * 64).map(|i| b'A' + (i % 26) as u8));
    text.extend(sauce_lookalike(b' '));
    assert_eq!(text.len(), 2181);
    assert!(text.iter().all(|c| (0x20..0x7F).contains(c)));

    // 27 full-width rows and a last row of 21 cells: a width 80, height 28 buffer.
    let height = (text.len() as i32 + 79) / 80;
    let mut buf = Buffer::new((80, height));
    for (i, c) in text.iter().enumerate() {
        buf.layers[0].set_char((i as i32 % 80, i as i32 / 80), AttributedChar::new(*c as char, TextAttribute::default()));
    }

    let mut failures = Vec::new();
    for ext in ["asc", "an1", "msg"] {
        let mut opt = SaveOptions::new();
        opt.lossles_output = true;
        opt.save_sauce = false;
        let bytes = buf.to_bytes(ext, &opt).unwrap();
        assert_eq!(bytes, text, "{ext}: the file is exactly the text (no colour codes, no line breaks after full-width rows)");
        let loaded = Buffer::from_bytes(&PathBuf::from(format!("demo.{ext}")), false, &bytes).unwrap();

        let mut lost = 0;
        let mut first = None;
        for (i, c) in text.iter().enumerate() {
            let pos = (i as i32 % 80, i as i32 / 80);
            if loaded.get_char(pos).ch != *c as char {
                lost += 1;
                first.get_or_insert(pos);
            }
        }
        if lost > 0 {
            failures.push(format!(
                "{ext}: {lost} of {} cells did not parse back (first at {:?}); loaded buffer has {} line(s)",
                text.len(),
                first.unwrap(),
                loaded.get_line_count()
            ));
        }
    }
    assert!(failures.is_empty(), "text was swallowed as SAUCE metadata:\n{}", failures.join("\n"));
}
