// C02 / finding 5: the iCE Draw (.idf) loader expands run length records without any bound:
// every 6 byte record becomes 65535 cells (820 lines). A 4.7 KB file needs > 300 MB, a 64 KB file > 20 GB
// -> the allocator aborts the process.
use icy_engine::{AttributedChar, Buffer};
use std::path::PathBuf;

fn idf(records: usize) -> Vec<u8> {
    let mut data = Vec::new();
    data.extend(b"\x041.4");
    data.extend(0u16.to_le_bytes()); // x1
    data.extend(0u16.to_le_bytes()); // y1
    data.extend(79u16.to_le_bytes()); // x2
    data.extend(0u16.to_le_bytes()); // y2
    for _ in 0..records {
        data.extend([1, 0, 0xFF, 0xFF, b'A', 7]); // RLE marker, count = 65535, char, attribute
    }
    data.extend([0u8; 4096]); // font
    data.extend([0u8; 48]); // palette
    data
}

fn allocated_cells(buf: &Buffer) -> usize {
    buf.layers.iter().map(|l| l.lines.iter().map(|line| line.chars.capacity()).sum::<usize>()).sum()
}

#[test]
fn idf_run_length_amplification() {
    // HUNT_RECORDS=1000 together with `ulimit -v 2000000` shows the real abort (see README)
    let records: usize = std::env::var("HUNT_RECORDS").ok().and_then(|s| s.parse().ok()).unwrap_or(100);
    let data = idf(records);
    let buf = Buffer::from_bytes(&PathBuf::from("demo.idf"), false, &data).unwrap();
    let cells = allocated_cells(&buf);
    let bytes = cells * std::mem::size_of::<AttributedChar>();
    println!("file: {} bytes, lines: {}, allocated cells: {} = {} MB", data.len(), buf.layers[0].lines.len(), cells, bytes / (1024 * 1024));
    assert!(
        cells <= 1_000_000,
        "C02 violated (abort by memory exhaustion): a {} byte .idf file ({} bytes of image data) made the loader allocate {} cells = {} MB; the need grows by {} KB per input byte without limit",
        data.len(),
        records * 6,
        cells,
        bytes / (1024 * 1024),
        bytes / 1024 / (records * 6)
    );
}
