// C02 / finding 1: an ANSI file that loads a zero sized font into slot 0 (CTerm font DCS) and then
// contains a sixel image makes the loader panic (division by zero in parse_with_parser).
use icy_engine::Buffer;
use std::path::PathBuf;

fn load(ext: &str, data: &[u8]) -> std::thread::Result<Result<(), String>> {
    let name = PathBuf::from(format!("demo.{ext}"));
    let data = data.to_vec();
    std::panic::catch_unwind(move || Buffer::from_bytes(&name, false, &data).map(|_| ()).map_err(|e| e.to_string()))
}

/// smallest input: PSF1 header `36 04 00 00` (mode 0, charsize 0) as base64 = "NgQAAA==", then the sixel `~`
#[test]
fn zero_height_font_then_sixel() {
    let data = b"\x1BPCTerm:Font:0:NgQAAA==\x1B\\\x1BPq~\x1B\\";
    let res = load("ans", data);
    assert!(
        res.is_ok(),
        "C02 violated: Buffer::from_bytes(\"demo.ans\", {} bytes) panicked instead of returning a buffer or an error",
        data.len()
    );
}

/// the same root cause with a PSF2 header that declares width = height = 0xFFFF_FFFF (-1 as i32):
/// the sixel layer gets a negative height -> `capacity overflow` (also in release builds)
#[test]
fn negative_font_size_then_sixel() {
    let data = b"\x1BPCTerm:Font:0:crVKhgAAAAAgAAAAAAAAAAAAAAAAAAAA//////////8=\x1B\\\x1BPq~\x1B\\";
    let panicking: Vec<&str> = ["ans", "ice", "diz", "pcb", "avt", "msg", "an1", "xyz"].into_iter().filter(|ext| load(ext, data).is_err()).collect();
    assert!(
        panicking.is_empty(),
        "C02 violated: loading the {} byte file panicked instead of returning a buffer or an error under the extensions {panicking:?}",
        data.len()
    );
}
