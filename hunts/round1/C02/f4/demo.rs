// C02 / finding 4: extracting a palette from raw bytes panics when the length is no multiple of 3
// (Palette::from / Palette::from_63), and always for the palette format PaletteFormat::Ase.
use icy_engine::{Palette, PaletteFormat};

#[test]
fn palette_from_one_byte() {
    let res = std::panic::catch_unwind(|| Palette::from(&[0x2a]).len());
    assert!(res.is_ok(), "C02 violated: Palette::from(&[0x2a]) panicked (index out of bounds) instead of returning a palette");
}

#[test]
fn palette_from_63_every_length_up_to_50() {
    for len in 0..=50usize {
        let bytes = vec![0x15u8; len];
        let res = std::panic::catch_unwind(move || Palette::from_63(&bytes).len());
        assert!(res.is_ok(), "C02 violated: Palette::from_63 panicked on a {len} byte input");
    }
}

#[test]
fn palette_load_ase() {
    let res = std::panic::catch_unwind(|| Palette::load_palette(&PaletteFormat::Ase, b"ASEF\x00\x01\x00\x00").map(|p| p.len()).map_err(|e| e.to_string()));
    assert!(res.is_ok(), "C02 violated: Palette::load_palette(&PaletteFormat::Ase, ..) panicked (todo!) instead of returning an error");
}
