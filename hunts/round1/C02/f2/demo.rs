// C02 / finding 2: a 162 byte ANSI file (33 bytes of text + SAUCE record) makes the loader allocate
// ~16 million cells (~500 MB); every further 11 bytes add ~170 MB more. A file of a few KB exhausts
// the memory of any machine -> the allocator aborts the process.
use icy_engine::{AttributedChar, Buffer};
use std::path::PathBuf;

fn sauce(width: u16, height: u16) -> Vec<u8> {
    let mut out = vec![0x1a];
    out.extend(b"SAUCE00");
    out.extend([b' '; 75]); // title, author, group
    out.extend(b"20200101");
    out.extend([0, 0, 0, 0]); // file size
    out.push(1); // data type: character
    out.push(1); // file type: ANSI
    out.extend(width.to_le_bytes()); // TInfo1
    out.extend(height.to_le_bytes()); // TInfo2
    out.extend([0, 0, 0, 0]);
    out.push(0); // comments
    out.push(0); // flags
    out.extend([0u8; 22]);
    assert_eq!(out.len(), 129);
    out
}

fn allocated_cells(buf: &Buffer) -> usize {
    buf.layers.iter().map(|l| l.lines.iter().map(|line| line.chars.capacity()).sum::<usize>()).sum()
}

#[test]
fn cursor_down_insert_line_amplification() {
    // HUNT_REPEAT=40 together with `ulimit -v 4000000` shows the real abort (see README)
    let repeat: usize = std::env::var("HUNT_REPEAT").ok().and_then(|s| s.parse().ok()).unwrap_or(3);
    let mut data = Vec::new();
    for _ in 0..repeat {
        data.extend(b"\x1b[99999B\x1b[L"); // cursor down as far as possible, insert line
    }
    data.extend(sauce(80, 65535));

    let buf = Buffer::from_bytes(&PathBuf::from("demo.ans"), false, &data).unwrap();
    let cells = allocated_cells(&buf);
    let bytes = cells * std::mem::size_of::<AttributedChar>();
    println!(
        "file: {} bytes, lines: {}, allocated cells: {}, = {} MB, = {} KB per input byte",
        data.len(),
        buf.layers[0].lines.len(),
        cells,
        bytes / (1024 * 1024),
        bytes / 1024 / data.len()
    );
    // the file prints not a single character; 1 million cells (32 MB) would already be 6000 cells per input byte
    assert!(
        cells <= 1_000_000,
        "C02 violated (abort by memory exhaustion): a {} byte .ans file without any printable character made the loader allocate {} cells = {} MB, and every further 11 bytes add {} cells more",
        data.len(),
        cells,
        bytes / (1024 * 1024),
        cells / repeat
    );
}
