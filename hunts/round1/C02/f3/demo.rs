// C02 / finding 3: an .icy file whose LAYER chunk declares a data length close to u64::MAX makes
// the loader panic with `attempt to add with overflow` while it builds the error message
// (profiles with overflow checks: dev / test, i.e. what `cargo test` and `cargo run` use).
use base64::{engine::general_purpose, Engine};
use icy_engine::Buffer;
use std::path::PathBuf;

/// builds an .icy file like the writer does: a PNG with one zTXt chunk per record (base64 payload) and an END chunk
fn icy(chunks: &[(&str, Vec<u8>)]) -> Vec<u8> {
    let mut result = Vec::new();
    {
        let mut encoder = png::Encoder::new(&mut result, 1, 1);
        encoder.set_color(png::ColorType::Rgba);
        encoder.set_depth(png::BitDepth::Eight);
        for (k, v) in chunks {
            encoder.add_ztxt_chunk((*k).to_string(), general_purpose::STANDARD.encode(v)).unwrap();
        }
        encoder.add_ztxt_chunk("END".to_string(), String::new()).unwrap();
        let mut writer = encoder.write_header().unwrap();
        writer.write_image_data(&[0, 0, 0, 0]).unwrap();
        writer.finish().unwrap();
    }
    result
}

/// the layer record as `IcyDraw::to_bytes` writes it, only the data length field is changed
fn layer_record(width: i32, height: i32, data_length: u64) -> Vec<u8> {
    let mut l = Vec::new();
    l.extend(u32::to_le_bytes(1)); // title length
    l.push(b'A'); // title
    l.push(0); // role: normal
    l.extend([0, 0, 0, 0]); // unused
    l.push(0); // mode
    l.extend([0, 0, 0, 0]); // color
    l.extend(u32::to_le_bytes(1)); // flags: visible
    l.push(0); // transparency
    l.extend(i32::to_le_bytes(0)); // x offset
    l.extend(i32::to_le_bytes(0)); // y offset
    l.extend(i32::to_le_bytes(width));
    l.extend(i32::to_le_bytes(height));
    l.extend(u16::to_le_bytes(0)); // default font page
    l.extend(u64::to_le_bytes(data_length));
    l
}

#[test]
fn layer_data_length_extreme() {
    // control: the same file with the true length (0) loads
    let ok = icy(&[("LAYER_0", layer_record(1, 1, 0))]);
    assert!(Buffer::from_bytes(&PathBuf::from("demo.icy"), false, &ok).is_ok());

    let data = icy(&[("LAYER_0", layer_record(1, 1, u64::MAX))]);
    let d2 = data.clone();
    let res = std::panic::catch_unwind(move || Buffer::from_bytes(&PathBuf::from("demo.icy"), false, &d2).map(|_| ()).map_err(|e| e.to_string()));
    assert!(
        res.is_ok(),
        "C02 violated: a {} byte .icy file whose layer header declares u64::MAX data bytes made Buffer::from_bytes panic instead of returning an error",
        data.len()
    );
    println!("{res:?}");
}
