//! C10 / IcyDraw: the writer emits a layer chunk whose 32-bit character field is not a
//! Unicode scalar value (as decoded by the engine's own reader) for a cell that is
//! invisible *and* carries another attribute bit.
//!
//! gen-1 file (hand made, accepted by the loader) -> load -> save -> load again fails with
//! "invalid character code <n>", n > 0x10FFFF.
use base64::{engine::general_purpose, Engine};
use icy_engine::{Buffer, SaveOptions, TextPane};
use std::path::Path;

/// builds an .icy (png with zTXt chunks) file from raw chunk payloads
fn icy_file(chunks: &[(&str, Vec<u8>)]) -> Vec<u8> {
    let mut result = Vec::new();
    {
        let mut enc = png::Encoder::new(&mut result, 1, 1);
        enc.set_color(png::ColorType::Rgba);
        enc.set_depth(png::BitDepth::Eight);
        for (k, v) in chunks {
            enc.add_ztxt_chunk((*k).to_string(), general_purpose::STANDARD.encode(v)).unwrap();
        }
        enc.add_ztxt_chunk("END".to_string(), String::new()).unwrap();
        let mut w = enc.write_header().unwrap();
        w.write_image_data(&[0, 0, 0, 0]).unwrap();
        w.finish().unwrap();
    }
    result
}

fn iced_header(w: u32, h: u32) -> Vec<u8> {
    let mut r = vec![0u8, 0]; // version
    r.extend(0u32.to_le_bytes()); // type
    r.extend(0u16.to_le_bytes()); // buffer type
    r.extend([0, 0, 0]); // ice mode, palette mode, font mode
    r.extend(w.to_le_bytes());
    r.extend(h.to_le_bytes());
    r
}

/// one long-form cell record: attr, 32 bit char, fg, bg, 16 bit font page
fn long_cell(attr: u16, ch: u32) -> Vec<u8> {
    let mut v = Vec::new();
    v.extend(attr.to_le_bytes());
    v.extend(ch.to_le_bytes());
    v.extend(7u32.to_le_bytes());
    v.extend(0u32.to_le_bytes());
    v.extend(0u16.to_le_bytes());
    v
}

fn layer_chunk(title: &str, w: i32, h: i32, cells: &[Vec<u8>]) -> Vec<u8> {
    let mut v = Vec::new();
    v.extend((title.len() as u32).to_le_bytes());
    v.extend(title.as_bytes());
    v.push(0); // role: normal
    v.extend([0, 0, 0, 0]); // unused
    v.push(0); // mode
    v.extend([0, 0, 0, 0]); // colour
    v.extend(0b0000_1001u32.to_le_bytes()); // flags: visible, has alpha
    v.push(0); // transparency
    v.extend(0i32.to_le_bytes()); // x offset
    v.extend(0i32.to_le_bytes()); // y offset
    v.extend(w.to_le_bytes());
    v.extend(h.to_le_bytes());
    v.extend(0u16.to_le_bytes()); // default font page
    let data: Vec<u8> = cells.iter().flatten().copied().collect();
    v.extend((data.len() as u64).to_le_bytes());
    v.extend(data);
    v
}

const INVISIBLE: u16 = 0x8000;
const BOLD: u16 = 0x0001;

#[test]
fn icy_draw_second_generation_has_a_non_scalar_character_field() {
    // a 4x1 layer: an invisible cell that also has the bold bit set, then 'A', 'B', 'C'.
    let gen1 = icy_file(&[
        ("ICED", iced_header(4, 1)),
        (
            "LAYER_0",
            layer_chunk(
                "t",
                4,
                1,
                &[long_cell(INVISIBLE | BOLD, 'x' as u32), long_cell(0, 'A' as u32), long_cell(0, 'B' as u32), long_cell(0, 'C' as u32)],
            ),
        ),
    ]);

    let buf1 = Buffer::from_bytes(Path::new("gen1.icy"), false, &gen1).expect("the first generation loads");
    assert_eq!(buf1.layers.len(), 1);
    assert_eq!(buf1.layers[0].get_char((1, 0)).ch, 'A');
    assert_eq!(buf1.layers[0].get_char((2, 0)).ch, 'B');
    assert_eq!(buf1.layers[0].get_char((3, 0)).ch, 'C');
    assert!(!buf1.layers[0].get_char((0, 0)).is_visible());

    // every cell holds a valid scalar value, the engine writes the file itself
    let mut opt = SaveOptions::default();
    opt.lossles_output = true; // write the cells as they are
    let gen2 = buf1.to_bytes("icy", &opt).expect("save");

    // ... and must be able to read every character field it wrote.
    let buf2 = match Buffer::from_bytes(Path::new("gen2.icy"), false, &gen2) {
        Ok(b) => b,
        Err(err) => panic!(
            "the IcyDraw writer stored a layer chunk whose character field is no unicode scalar value \
             (all cells of the saved buffer were valid chars): loading the engine's own file fails with: {err}"
        ),
    };
    for x in 0..4 {
        assert_eq!(
            buf1.layers[0].get_char((x, 0)).ch,
            buf2.layers[0].get_char((x, 0)).ch,
            "character in column {x} changed in the second generation"
        );
    }
}
