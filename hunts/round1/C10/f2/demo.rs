//! C10 / clipboard: `EditState::get_clipboard_data` writes the character of a cell as
//! `ch as u16`. For a cell above the BMP the truncated value can be a surrogate, so the engine
//! itself materialises a 16 bit value that is no Unicode scalar value in a clipboard cell record
//! (and the reader then replaces the character by a blank).
use icy_engine::{ansi, editor::EditState, Buffer, BufferParser, Caret, Layer, Rectangle, TextPane};

#[test]
fn clipboard_cell_record_of_a_valid_char_holds_a_surrogate() {
    // U+1D800 (SIGNWRITING HAND-FIST INDEX) is a valid scalar value; it gets into the buffer
    // through the fill-rectangle control function: CSI 120832;1;1;1;1 $ x
    let mut buf = Buffer::new((80, 25));
    let mut caret = Caret::default();
    let mut parser = ansi::Parser::default();
    for ch in "\x1b[120832;1;1;1;1$x".chars() {
        parser.print_char(&mut buf, 0, &mut caret, ch).unwrap();
    }
    let stored = buf.get_char((0, 0)).ch;
    assert_eq!(stored, '\u{1D800}', "DECFRA stored the fill character");

    // copy that cell
    let mut state = EditState::from_buffer(buf);
    state.set_selection(Rectangle::from_min_size((0, 0), (1, 1))).unwrap();
    let data = state.get_clipboard_data().expect("clipboard data");

    // header: 1 byte type, x, y, width, height (4 bytes each); then 14 byte cell records
    let field = u16::from_le_bytes([data[17], data[18]]);
    let pasted = Layer::from_clipboard_data(&data).expect("own clipboard data is readable").get_char((0, 0)).ch;

    assert!(
        char::from_u32(field as u32).is_some(),
        "the clipboard cell record written by the engine for the valid character {:?} (U+{:04X}) holds the \
         16 bit value 0x{field:04X}, which is a surrogate and no unicode scalar value; pasting it back gives {:?}",
        stored,
        stored as u32,
        pasted
    );
    assert_eq!(pasted, stored, "copy & paste changed the character");
}
