//! NOT claimed as C10 violations (every stored char stays a valid scalar value) - two genuine
//! panics that every character above U+00FF accepted by the C10 entry points runs into as soon
//! as the buffer is written again.
use icy_engine::{ansi, Buffer, BufferParser, Caret, SaveOptions, TextPane};
use std::panic::{catch_unwind, AssertUnwindSafe};

fn buffer_with_u0100() -> Buffer {
    let mut buf = Buffer::new((80, 25));
    let mut caret = Caret::default();
    let mut parser = ansi::Parser::default();
    // DECFRA with fill character 256 = U+0100
    for ch in "\x1b[256;1;1;1;1$x".chars() {
        parser.print_char(&mut buf, 0, &mut caret, ch).unwrap();
    }
    assert_eq!(buf.get_char((0, 0)).ch, '\u{100}');
    buf
}

/// a1: ColorOptimizer::optimize (src/formats/color_optimization.rs:43) unwraps the glyph shape of
/// every cell; a char without a glyph in its font (or a font page without a font) panics. The
/// optimizer runs for every format unless `lossles_output` is set.
#[test]
fn a1_default_save_panics_for_a_char_without_glyph() {
    let buf = buffer_with_u0100();
    for ext in ["ans", "icy", "xb", "asc"] {
        let r = catch_unwind(AssertUnwindSafe(|| buf.to_bytes(ext, &SaveOptions::default()).map(|b| b.len())));
        assert!(r.is_ok(), "saving a buffer that holds the valid character U+0100 as .{ext} with default options panics");
    }
}

/// a2: the utf8 ("modern terminal") ANSI writer indexes CP437_TO_UNICODE[cell.ch as usize]
/// (src/formats/ansi.rs:505) - out of bounds for every char above U+00FF.
#[test]
fn a2_utf8_ansi_output_panics_for_a_char_above_ff() {
    let buf = buffer_with_u0100();
    let mut opt = SaveOptions::default();
    opt.lossles_output = true; // skip the optimizer of a1
    opt.modern_terminal_output = true;
    let r = catch_unwind(AssertUnwindSafe(|| buf.to_bytes("ans", &opt).map(|b| b.len())));
    assert!(r.is_ok(), "utf8 ANSI output of a buffer that holds U+0100 panics");
}
