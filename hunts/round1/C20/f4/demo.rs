// C20 / finding 4: RIP_BUTTON_STYLE (|1B): the reserved field swallows 7 base-36 digits into an i32 -> arithmetic overflow panic.
use icy_engine::{rip, Buffer, BufferParser, Caret};
use std::panic::{catch_unwind, AssertUnwindSafe};
use std::path::PathBuf;

fn feed(stream: &str) -> Result<(), String> {
    catch_unwind(AssertUnwindSafe(|| {
        let mut parser = rip::Parser::new(Box::default(), PathBuf::new());
        let mut buf = Buffer::new((80, 25));
        buf.is_terminal_buffer = true;
        let mut caret = Caret::default();
        for ch in stream.chars() {
            let _ = parser.print_char(&mut buf, 0, &mut caret, ch);
        }
        if let Some((size, pixels)) = parser.get_picture_data() {
            assert_eq!(pixels.len() as i32, size.width * size.height * 4, "canvas is not a complete image");
        }
    }))
    .map_err(|e| {
        e.downcast_ref::<String>()
            .cloned()
            .or_else(|| e.downcast_ref::<&str>().map(|s| (*s).to_string()))
            .unwrap_or_else(|| "panic".to_string())
    })
}

#[test]
fn rip_button_style_reserved_field() {
    // the example of the RIPscrip 1.54 specification (36 parameter characters, res = "000000")
    assert_eq!(feed("!|1B0A0A010274030F080F080700010E07000000|\r\n"), Ok(()));
    // all digits 'Z' up to the spec length but one (35 characters): fine
    assert_eq!(feed(&format!("!|1B{}|\r\n", "Z".repeat(35))), Ok(()));

    // 36 characters, every digit 'Z' (digits {0,1,Z} of the quantifier): res = ZZZZZZ = 36^6 - 1 > i32::MAX
    let all_z = format!("!|1B{}|\r\n", "Z".repeat(36));
    // 37 characters over the digits {0,1}: 30 zeros, then "1000000" = 36^6 > i32::MAX
    let one_too_long = format!("!|1B{}1000000|\r\n", "0".repeat(30));
    for s in [all_z, one_too_long] {
        let res = feed(&s);
        assert_eq!(
            res,
            Ok(()),
            "RIP stream {s:?} panicked inside the engine ({res:?}): the reserved field of |1B is accumulated into an i32 without a bound"
        );
    }
}
