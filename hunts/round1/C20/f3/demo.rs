// C20 / finding 3: IGS 'W' (write text) panics on any character that is not in the 256 glyph ATARI font.
use icy_engine::{igs, Buffer, BufferParser, Caret};
use std::panic::{catch_unwind, AssertUnwindSafe};
use std::sync::{Arc, Mutex};

fn feed(stream: &str) -> Result<(), String> {
    catch_unwind(AssertUnwindSafe(|| {
        let mut parser = igs::Parser::new(Arc::new(Mutex::new(Box::<igs::DrawExecutor>::default())));
        let mut buf = Buffer::new((80, 25));
        buf.is_terminal_buffer = true;
        let mut caret = Caret::default();
        for ch in stream.chars() {
            let _ = parser.print_char(&mut buf, 0, &mut caret, ch);
            while parser.get_next_action(&mut buf, &mut caret, 0).is_some() {}
        }
        let (size, pixels) = parser.get_picture_data().expect("IGS always exposes a canvas");
        assert_eq!(pixels.len() as i32, size.width * size.height * 4, "canvas is not a complete image");
    }))
    .map_err(|e| {
        e.downcast_ref::<String>()
            .cloned()
            .or_else(|| e.downcast_ref::<&str>().map(|s| (*s).to_string()))
            .unwrap_or_else(|| "panic".to_string())
    })
}

#[test]
fn igs_write_text_with_character_outside_the_font() {
    // control: Latin-1 text is written
    assert_eq!(feed("G#W>20,50,Chain \u{e9}\u{ff}@L>0,0,300,190:\r\n"), Ok(()));
    // the same command with one character >= U+0100
    // (U+2591 is what the CP437 byte 0xB0 decodes to, U+20AC is the Euro sign)
    for s in ["G#W>20,50,\u{2591}@\r\n", "G#W>20,50,Price: 5 \u{20ac}@L>0,0,300,190:\r\n", "G#W>20,50,\u{100}@\r\n"] {
        let res = feed(s);
        assert_eq!(
            res,
            Ok(()),
            "IGS stream {s:?} panicked inside the engine ({res:?}): write_text unwraps the glyph of a character the ATARI font doesn't have"
        );
    }
}
