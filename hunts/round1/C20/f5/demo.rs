// C20 / finding 5: an IGS '&' loop with step 0 never finishes - the engine hands out actions forever.
use icy_engine::{igs, Buffer, BufferParser, Caret};
use std::sync::{Arc, Mutex};

/// Feeds the stream, drains the pending actions after every character (that is how a loop is driven)
/// and returns the largest number of actions a single character produced (capped).
fn feed(stream: &str, cap: usize) -> usize {
    let mut parser = igs::Parser::new(Arc::new(Mutex::new(Box::<igs::DrawExecutor>::default())));
    let mut buf = Buffer::new((80, 25));
    buf.is_terminal_buffer = true;
    let mut caret = Caret::default();
    let mut worst = 0;
    for ch in stream.chars() {
        let _ = parser.print_char(&mut buf, 0, &mut caret, ch);
        let mut n = 0;
        while parser.get_next_action(&mut buf, &mut caret, 0).is_some() {
            n += 1;
            if n >= cap {
                break;
            }
        }
        worst = worst.max(n);
    }
    worst
}

#[test]
fn igs_loop_with_step_zero_never_ends() {
    // control: the loop of the IG documentation, 0..10 step 1 -> 10 steps (1 in print_char + 9 pending)
    let n = feed("G#&>0,10,1,0,L,4,0,0,x,x:\r\n", 1_000_000);
    assert!(n < 10, "a loop from 0 to 10 with step 1 runs {n} pending steps");
    // from > to, step 3
    let n = feed("G#&>10,0,3,0,L,4,0,0,x,x:\r\n", 1_000_000);
    assert!(n < 10, "a loop from 10 to 0 with step 3 runs {n} pending steps");

    // the same loops with step 0: the loop variable never moves
    for s in ["G#&>0,10,0,0,L,4,0,0,x,x:\r\n", "G#&>10,0,0,0,L,4,0,0,x,x:\r\n", "G#&>0,1,0,0,s,1,0:\r\n"] {
        let n = feed(s, 1_000_000);
        assert!(
            n < 1_000_000,
            "IGS stream {s:?}: the loop with step 0 is still producing actions after 1000000 steps - the command never finishes (stall)"
        );
    }
}
