// C20 / finding 2: IGS polymarker type 5 (diagonal cross) + 'P' plot panics (index out of bounds).
use icy_engine::{igs, Buffer, BufferParser, Caret};
use std::panic::{catch_unwind, AssertUnwindSafe};
use std::sync::{Arc, Mutex};

fn feed(stream: &str) -> Result<(), String> {
    catch_unwind(AssertUnwindSafe(|| {
        let mut parser = igs::Parser::new(Arc::new(Mutex::new(Box::<igs::DrawExecutor>::default())));
        let mut buf = Buffer::new((80, 25));
        buf.is_terminal_buffer = true;
        let mut caret = Caret::default();
        for ch in stream.chars() {
            let _ = parser.print_char(&mut buf, 0, &mut caret, ch);
            while parser.get_next_action(&mut buf, &mut caret, 0).is_some() {}
        }
        let (size, pixels) = parser.get_picture_data().expect("IGS always exposes a canvas");
        assert_eq!(pixels.len() as i32, size.width * size.height * 4, "canvas is not a complete image");
    }))
    .map_err(|e| {
        e.downcast_ref::<String>()
            .cloned()
            .or_else(|| e.downcast_ref::<&str>().map(|s| (*s).to_string()))
            .unwrap_or_else(|| "panic".to_string())
    })
}

#[test]
fn igs_polymarker_diagonal_cross_plot() {
    // control: the other five polymarker shapes can be plotted
    for t in [1, 2, 3, 4, 6] {
        let s = format!("G#T>1,{t},1:P>100,100:\r\n");
        assert_eq!(feed(&s), Ok(()), "control stream {s:?} must not panic");
    }
    // IG219.TXT: "for polymarkers: ... 5 = diagonal cross"
    let s = "G#T>1,5,1:P>100,100:\r\n";
    let res = feed(s);
    assert_eq!(
        res,
        Ok(()),
        "IGS stream {s:?} panicked inside the engine ({res:?}): plotting the 'diagonal cross' polymarker reads past the end of its point table"
    );
}
