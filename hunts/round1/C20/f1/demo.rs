// C20 / finding 1: IGS "T 2,7,n" (user defined line type) makes every later line drawing command panic.
use icy_engine::{igs, Buffer, BufferParser, Caret};
use std::panic::{catch_unwind, AssertUnwindSafe};
use std::sync::{Arc, Mutex};

fn feed(stream: &str) -> Result<(), String> {
    catch_unwind(AssertUnwindSafe(|| {
        let mut parser = igs::Parser::new(Arc::new(Mutex::new(Box::<igs::DrawExecutor>::default())));
        let mut buf = Buffer::new((80, 25));
        buf.is_terminal_buffer = true;
        let mut caret = Caret::default();
        for ch in stream.chars() {
            // an Err(..) is fine (the property allows "an action or an error"), a panic is not
            let _ = parser.print_char(&mut buf, 0, &mut caret, ch);
            while parser.get_next_action(&mut buf, &mut caret, 0).is_some() {}
        }
        let (size, pixels) = parser.get_picture_data().expect("IGS always exposes a canvas");
        assert_eq!(pixels.len() as i32, size.width * size.height * 4, "canvas is not a complete image");
    }))
    .map_err(|e| {
        e.downcast_ref::<String>()
            .cloned()
            .or_else(|| e.downcast_ref::<&str>().map(|s| (*s).to_string()))
            .unwrap_or_else(|| "panic".to_string())
    })
}

#[test]
fn igs_user_defined_line_type_then_line() {
    // control: the six predefined line types are fine
    for t in 1..=6 {
        let s = format!("G#T>2,{t},1:L>0,0,10,10:\r\n");
        assert_eq!(feed(&s), Ok(()), "control stream {s:?} must not panic");
    }
    // T 2,7,n selects the "user defined" line type (IG219.TXT: "7 = user defined ( see X 7 command )")
    for s in [
        "G#T>2,7,1:L>0,0,10,10:\r\n",       // line
        "G#T>2,7,1:D>10,10:\r\n",           // draw to
        "G#T>2,7,1:z>2,0,0,10,10:\r\n",     // poly line
        "G#T>2,7,1:U>0,0,50,50,0:\r\n",     // rounded rectangle
        "G#T>2,7,1:A>1,1,1:f>3,0,0,9,0,9,9:\r\n", // filled polygon with border
    ] {
        let res = feed(s);
        assert_eq!(
            res,
            Ok(()),
            "IGS stream {s:?} panicked inside the engine ({res:?}): the line type chosen by 'T 2,7,n' indexes past the end of LINE_STYLE"
        );
    }
}
