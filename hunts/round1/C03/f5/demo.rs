// C03 / f5: the .icy (IcyDraw) loader takes the width / height of a LAYER chunk over unchecked. With width <= 0 a cell
// row consumes no data, so the row loop `for y in 0..height` runs `height` times: a 254 byte file that declares a
// 0 x 2147483647 layer keeps an unoptimised build busy for ~30 s (an optimised build removes the empty loop).
use icy_engine::{Buffer, TextPane};
use std::path::Path;
use std::time::{Duration, Instant};

fn crc32(data: &[u8]) -> u32 {
    let mut crc = 0xFFFF_FFFFu32;
    for &b in data {
        crc ^= b as u32;
        for _ in 0..8 {
            crc = if crc & 1 != 0 { (crc >> 1) ^ 0xEDB8_8320 } else { crc >> 1 };
        }
    }
    !crc
}
fn adler32(data: &[u8]) -> u32 {
    let (mut a, mut b) = (1u32, 0u32);
    for &x in data {
        a = (a + x as u32) % 65521;
        b = (b + a) % 65521;
    }
    (b << 16) | a
}
fn zlib_stored(data: &[u8]) -> Vec<u8> {
    let mut out = vec![0x78, 0x01];
    let mut chunks = data.chunks(65535).peekable();
    if data.is_empty() {
        out.extend_from_slice(&[1, 0, 0, 0xFF, 0xFF]);
    }
    while let Some(c) = chunks.next() {
        out.push(if chunks.peek().is_none() { 1 } else { 0 });
        out.extend_from_slice(&(c.len() as u16).to_le_bytes());
        out.extend_from_slice(&(!(c.len() as u16)).to_le_bytes());
        out.extend_from_slice(c);
    }
    out.extend_from_slice(&adler32(data).to_be_bytes());
    out
}
fn chunk(out: &mut Vec<u8>, ty: &[u8; 4], data: &[u8]) {
    out.extend_from_slice(&(data.len() as u32).to_be_bytes());
    let mut c = ty.to_vec();
    c.extend_from_slice(data);
    out.extend_from_slice(&c);
    out.extend_from_slice(&crc32(&c).to_be_bytes());
}
fn b64(data: &[u8]) -> String {
    const T: &[u8; 64] = b"ABCDEFGHIJKLMNOPQRSTUVWXYZabcdefghijklmnopqrstuvwxyz0123456789+/";
    let mut s = String::new();
    for c in data.chunks(3) {
        let n = (c[0] as u32) << 16 | (*c.get(1).unwrap_or(&0) as u32) << 8 | *c.get(2).unwrap_or(&0) as u32;
        s.push(T[(n >> 18) as usize & 63] as char);
        s.push(T[(n >> 12) as usize & 63] as char);
        s.push(if c.len() > 1 { T[(n >> 6) as usize & 63] as char } else { '=' });
        s.push(if c.len() > 2 { T[n as usize & 63] as char } else { '=' });
    }
    s
}
fn ztxt(out: &mut Vec<u8>, key: &str, payload: &[u8]) {
    let mut d = key.as_bytes().to_vec();
    d.push(0);
    d.push(0);
    d.extend(zlib_stored(b64(payload).as_bytes()));
    chunk(out, b"zTXt", &d);
}

fn icy(buf_w: u32, buf_h: u32, layer_w: i32, layer_h: i32, layer_data: &[u8]) -> Vec<u8> {
    let mut out = vec![0x89, b'P', b'N', b'G', 0x0D, 0x0A, 0x1A, 0x0A];
    let mut ihdr = vec![];
    ihdr.extend_from_slice(&1u32.to_be_bytes());
    ihdr.extend_from_slice(&1u32.to_be_bytes());
    ihdr.extend_from_slice(&[8, 6, 0, 0, 0]);
    chunk(&mut out, b"IHDR", &ihdr);
    // ICED header
    let mut h = vec![0u8, 0];
    h.extend_from_slice(&0u32.to_le_bytes());
    h.extend_from_slice(&1u16.to_le_bytes()); // CP437
    h.push(0);
    h.push(1);
    h.push(1);
    h.extend_from_slice(&buf_w.to_le_bytes());
    h.extend_from_slice(&buf_h.to_le_bytes());
    assert_eq!(h.len(), 19);
    ztxt(&mut out, "ICED", &h);
    // layer
    let mut l = vec![];
    l.extend_from_slice(&1u32.to_le_bytes());
    l.push(b'L');
    l.push(0); // role
    l.extend_from_slice(&[0; 4]);
    l.push(0); // mode
    l.extend_from_slice(&[0; 4]); // color
    l.extend_from_slice(&1u32.to_le_bytes()); // flags visible
    l.push(0); // transparency
    l.extend_from_slice(&0i32.to_le_bytes());
    l.extend_from_slice(&0i32.to_le_bytes());
    l.extend_from_slice(&layer_w.to_le_bytes());
    l.extend_from_slice(&layer_h.to_le_bytes());
    l.extend_from_slice(&0u16.to_le_bytes());
    l.extend_from_slice(&(layer_data.len() as u64).to_le_bytes());
    l.extend_from_slice(layer_data);
    ztxt(&mut out, "LAYER_0", &l);
    ztxt(&mut out, "END", &[]);
    chunk(&mut out, b"IDAT", &zlib_stored(&[0, 0, 0, 0, 0]));
    chunk(&mut out, b"IEND", &[]);
    out
}


#[test]
fn crafted_files_are_valid() {
    // sanity check of the file builder: a 2x1 layer with two cells loads as expected
    let data = [0x00, 0x40, b'A', 7, 0, 0, 0x00, 0x40, b'B', 7, 0, 0];
    let buf = Buffer::from_bytes(Path::new("a.icy"), false, &icy(2, 1, 2, 1, &data)).unwrap();
    assert_eq!(buf.layers.len(), 1);
    assert_eq!(buf.get_char((0, 0)).ch, 'A');
    assert_eq!(buf.get_char((1, 0)).ch, 'B');
}

#[test]
fn load_time_does_not_depend_on_the_declared_layer_height() {
    // layer: width 0, height i32::MAX, two bytes of cell data
    let bytes = icy(80, 25, 0, i32::MAX, &[0, 0]);
    let len = bytes.len();
    let (tx, rx) = std::sync::mpsc::channel();
    let t = Instant::now();
    std::thread::spawn(move || {
        let r = Buffer::from_bytes(Path::new("a.icy"), false, &bytes);
        let _ = tx.send(r.is_ok());
    });
    match rx.recv_timeout(Duration::from_secs(5)) {
        Ok(ok) => println!("loaded (ok = {ok}) in {:?}", t.elapsed()),
        Err(_) => panic!(
            "loading a {len} byte .icy file whose layer declares 0 x 2147483647 cells did not finish within 5 s: the row loop runs once per declared row"
        ),
    }
}
