// C03 / f4: the iCE Draw (.idf) loader skips the declared bottom row (y2) and never clips a run: 16 bit RLE counts
// are expanded without any bound. A file that declares an 80x1 image and carries 300 bytes of RLE records
// becomes a 40,960 line buffer (161 MB); with a declared width of 1 every 6 bytes add 65,535 lines.
use icy_engine::{Buffer, TextPane};
use std::alloc::{GlobalAlloc, Layout, System};
use std::path::Path;
use std::sync::atomic::{AtomicUsize, Ordering::Relaxed};
use std::time::Instant;

struct Counting;
static LIVE: AtomicUsize = AtomicUsize::new(0);
static PEAK: AtomicUsize = AtomicUsize::new(0);
unsafe impl GlobalAlloc for Counting {
    unsafe fn alloc(&self, l: Layout) -> *mut u8 {
        let p = System.alloc(l);
        if !p.is_null() {
            let n = LIVE.fetch_add(l.size(), Relaxed) + l.size();
            PEAK.fetch_max(n, Relaxed);
        }
        p
    }
    unsafe fn dealloc(&self, p: *mut u8, l: Layout) {
        LIVE.fetch_sub(l.size(), Relaxed);
        System.dealloc(p, l)
    }
}
#[global_allocator]
static A: Counting = Counting;

/// header (x1 = y1 = 0, x2, y2), `records` RLE records "01 00 <count = 65535> 'A' 07", 4096 byte font, 48 byte palette
fn idf(x2: u16, y2: u16, records: usize) -> Vec<u8> {
    let mut s = b"\x041.4".to_vec();
    s.extend_from_slice(&0u16.to_le_bytes());
    s.extend_from_slice(&0u16.to_le_bytes());
    s.extend_from_slice(&x2.to_le_bytes());
    s.extend_from_slice(&y2.to_le_bytes());
    for _ in 0..records {
        s.extend_from_slice(&[1, 0, 0xFF, 0xFF, b'A', 7]);
    }
    s.extend_from_slice(&[0; 4096]);
    s.extend_from_slice(&[0; 48]);
    s
}

fn load(x2: u16, y2: u16, records: usize) -> (usize, i32, usize) {
    let bytes = idf(x2, y2, records);
    let base = LIVE.load(Relaxed);
    PEAK.store(base, Relaxed);
    let t = Instant::now();
    let buf = Buffer::from_bytes(Path::new("a.idf"), false, &bytes).unwrap();
    let peak = PEAK.load(Relaxed).saturating_sub(base);
    println!(
        "{} byte .idf declaring {}x{} with {} RLE records: {} lines, peak allocation {} MB, {:?}",
        bytes.len(),
        x2 + 1,
        y2 + 1,
        records,
        buf.get_line_count(),
        peak >> 20,
        t.elapsed()
    );
    (peak, buf.get_line_count(), bytes.len())
}

#[test]
fn idf_runs_are_clipped_to_the_declared_image() {
    // the header declares columns 0..=79 and rows 0..=0
    let (peak, lines, len) = load(79, 0, 50);
    // (the writer of this format refuses more than 200 lines, 200 is used as a generous bound here)
    assert!(
        lines <= 200,
        "a {} byte .idf file that declares one row of 80 columns was expanded to {} lines ({} MB): the declared bottom row is skipped and 16 bit run lengths are not clipped",
        len,
        lines,
        peak >> 20
    );
}

#[test]
fn idf_one_column_wide() {
    // declared 1x1: every 6 byte record becomes 65,535 lines
    let (peak, lines, len) = load(0, 0, 5);
    assert!(
        lines <= 200,
        "a {} byte .idf file that declares a 1x1 image was expanded to {} lines ({} MB)",
        len,
        lines,
        peak >> 20
    );
}
