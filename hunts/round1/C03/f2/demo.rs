// C03 / f2: a macro expansion is limited to 65,536 *characters*, not to the work these characters do.
// A hex macro definition with a repeat group builds a 32,767 byte macro out of 30 input bytes; filled with
// `CSI 7920 b` (REP, clamped to one screen = 132 x 60 cells) one invocation prints 32 million characters.
use icy_engine::{Buffer, BufferParser, Caret, TextPane};
use std::alloc::{GlobalAlloc, Layout, System};
use std::sync::atomic::{AtomicUsize, Ordering::Relaxed};
use std::time::Instant;

struct Counting;
static LIVE: AtomicUsize = AtomicUsize::new(0);
static PEAK: AtomicUsize = AtomicUsize::new(0);
unsafe impl GlobalAlloc for Counting {
    unsafe fn alloc(&self, l: Layout) -> *mut u8 {
        let p = System.alloc(l);
        if !p.is_null() {
            let n = LIVE.fetch_add(l.size(), Relaxed) + l.size();
            PEAK.fetch_max(n, Relaxed);
        }
        p
    }
    unsafe fn dealloc(&self, p: *mut u8, l: Layout) {
        LIVE.fetch_sub(l.size(), Relaxed);
        System.dealloc(p, l)
    }
}
#[global_allocator]
static A: Counting = Counting;

#[test]
fn a_49_byte_input_does_not_allocate_gigabytes() {
    let input = concat!(
        "\x1b[8;60;132t",                        // resize the terminal to 132 x 60 (the largest size the engine accepts)
        "\x1bP1;0;1!z!9999;1B5B3739323062;\x1b\\", // DECDMAC, hex: macro 1 = 9999 x "ESC[7920b", cut at 32,767 bytes
        "X",                                      // the character REP repeats
        "\x1b[1*z"                                // DECINVM: invoke macro 1
    );
    assert_eq!(input.len(), 49);

    let mut buf = Buffer::create((80, 25));
    buf.is_terminal_buffer = true;
    let mut caret = Caret::default();
    let mut parser = icy_engine::ansi::Parser::default();

    let base = LIVE.load(Relaxed);
    PEAK.store(base, Relaxed);
    let t = Instant::now();
    for ch in input.chars() {
        let _ = parser.print_char(&mut buf, 0, &mut caret, ch);
    }
    let elapsed = t.elapsed();
    let peak = PEAK.load(Relaxed).saturating_sub(base);
    println!(
        "{} byte input: {:?}, buffer has {} lines of {} columns, peak allocation {} MB",
        input.len(),
        elapsed,
        buf.get_line_count(),
        buf.terminal_state.get_width(),
        peak >> 20
    );
    assert!(
        peak < (1 << 30),
        "a {} byte input (macro definition + one invocation) allocated {} MB and took {:?}; the buffer grew to {} lines",
        input.len(),
        peak >> 20,
        elapsed,
        buf.get_line_count()
    );
}
