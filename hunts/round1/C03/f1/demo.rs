// C03 / f1: the Avatar repeat command (^Y <char> <count>) takes its count from the code point of the third
// character. In a UTF-8 file (or through BufferParser::print_char, which takes a `char`) that is up to 0x10FFFF,
// so a 9 byte file prints 1,114,111 characters.
use icy_engine::{Buffer, BufferParser, Caret, TextPane};
use std::alloc::{GlobalAlloc, Layout, System};
use std::path::Path;
use std::sync::atomic::{AtomicUsize, Ordering::Relaxed};
use std::time::Instant;

struct Counting;
static LIVE: AtomicUsize = AtomicUsize::new(0);
static PEAK: AtomicUsize = AtomicUsize::new(0);
unsafe impl GlobalAlloc for Counting {
    unsafe fn alloc(&self, l: Layout) -> *mut u8 {
        let p = System.alloc(l);
        if !p.is_null() {
            let n = LIVE.fetch_add(l.size(), Relaxed) + l.size();
            PEAK.fetch_max(n, Relaxed);
        }
        p
    }
    unsafe fn dealloc(&self, p: *mut u8, l: Layout) {
        LIVE.fetch_sub(l.size(), Relaxed);
        System.dealloc(p, l)
    }
}
#[global_allocator]
static A: Counting = Counting;

fn avt_file(repeated: u8, count: char) -> Vec<u8> {
    // UTF-8 BOM, ^Y, the character to repeat, the repeat count
    let mut bytes = vec![0xEF, 0xBB, 0xBF, 0x19, repeated];
    bytes.extend_from_slice(count.to_string().as_bytes());
    bytes
}

/// 9 byte .avt file, loaded through the normal file API.
#[test]
fn avatar_repeat_in_a_9_byte_file_is_bounded() {
    let bytes = avt_file(b'X', '\u{10FFFF}');
    assert_eq!(bytes.len(), 9);
    let base = LIVE.load(Relaxed);
    PEAK.store(base, Relaxed);
    let t = Instant::now();
    let buf = Buffer::from_bytes(Path::new("a.avt"), false, &bytes).unwrap();
    let peak = PEAK.load(Relaxed).saturating_sub(base);
    println!(
        "9 byte file: {:?}, {} lines of {} columns, peak allocation {} MB",
        t.elapsed(),
        buf.get_line_count(),
        buf.get_width(),
        peak >> 20
    );
    // an Avatar repeat count is one byte: at most 255 characters = 4 lines of 80 columns
    assert!(
        buf.get_line_count() <= 4,
        "a 9 byte Avatar file (^Y X U+10FFFF) produced {} lines: the repeat count was taken from the code point (1,114,111), not from a byte (<= 255)",
        buf.get_line_count()
    );
    assert!(peak < (4 << 20), "a 9 byte Avatar file allocated {} MB", peak >> 20);
}

/// The same with a line feed as the repeated character: every repetition allocates a whole line
/// (U+20000 = 131,072 repetitions are used here to keep the demo small, U+10FFFF needs 2.7 GB).
#[test]
fn avatar_repeat_of_line_feeds_is_bounded() {
    let bytes = avt_file(b'\n', '\u{20000}');
    let base = LIVE.load(Relaxed);
    PEAK.store(base, Relaxed);
    let _buf = Buffer::from_bytes(Path::new("a.avt"), false, &bytes).unwrap();
    let peak = PEAK.load(Relaxed).saturating_sub(base);
    println!("9 byte file (^Y LF U+20000): peak allocation {} MB", peak >> 20);
    assert!(peak < (4 << 20), "a 9 byte Avatar file (^Y LF U+20000) allocated {} MB", peak >> 20);
}

/// Three characters through the terminal API.
#[test]
fn avatar_repeat_through_print_char_is_bounded() {
    let mut buf = Buffer::create((80, 25));
    buf.is_terminal_buffer = true;
    let mut caret = Caret::default();
    let mut parser = icy_engine::avatar::Parser::default();
    for ch in ['\x19', 'X', '\u{10FFFF}'] {
        let _ = parser.print_char(&mut buf, 0, &mut caret, ch);
    }
    assert!(
        buf.get_line_count() <= 25 + 4,
        "3 characters (^Y X U+10FFFF) grew the terminal buffer to {} lines",
        buf.get_line_count()
    );
}
