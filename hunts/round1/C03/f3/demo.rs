// C03 / f3: the height declared in the SAUCE record of an ANSI file becomes the *screen* height of the loader
// (Buffer::set_sauce clamps the width to 1000 but not the height), so every "clamped to one screen" bound in the
// ANSI parser is a bound of 65,535 lines: an 8 byte ANSI file + SAUCE allocates 2 GB.
use icy_engine::{Buffer, TextPane};
use std::alloc::{GlobalAlloc, Layout, System};
use std::path::Path;
use std::sync::atomic::{AtomicUsize, Ordering::Relaxed};
use std::time::Instant;

struct Counting;
static LIVE: AtomicUsize = AtomicUsize::new(0);
static PEAK: AtomicUsize = AtomicUsize::new(0);
unsafe impl GlobalAlloc for Counting {
    unsafe fn alloc(&self, l: Layout) -> *mut u8 {
        let p = System.alloc(l);
        if !p.is_null() {
            let n = LIVE.fetch_add(l.size(), Relaxed) + l.size();
            PEAK.fetch_max(n, Relaxed);
        }
        p
    }
    unsafe fn dealloc(&self, p: *mut u8, l: Layout) {
        LIVE.fetch_sub(l.size(), Relaxed);
        System.dealloc(p, l)
    }
}
#[global_allocator]
static A: Counting = Counting;

/// EOF marker + 128 byte SAUCE record: DataType 1 (Character), FileType 1 (ANSi), TInfo1 = width, TInfo2 = height
fn sauce(width: u16, height: u16) -> Vec<u8> {
    let mut s = vec![0x1A];
    s.extend_from_slice(b"SAUCE00");
    s.extend_from_slice(&[b' '; 35 + 20 + 20]); // title, author, group
    s.extend_from_slice(b"20240101");
    s.extend_from_slice(&[0; 4]); // file size
    s.push(1);
    s.push(1);
    s.extend_from_slice(&width.to_le_bytes());
    s.extend_from_slice(&height.to_le_bytes());
    s.extend_from_slice(&[0; 4]); // TInfo3, TInfo4
    s.push(0); // comments
    s.push(0); // flags
    s.extend_from_slice(&[0; 22]); // TInfoS
    assert_eq!(s.len(), 129);
    s
}

/// loads payload + SAUCE as an .ans file, returns (peak allocation, time, line count)
fn load(payload: &[u8], width: u16, height: u16) -> (usize, std::time::Duration, i32) {
    let mut bytes = payload.to_vec();
    bytes.extend(sauce(width, height));
    let base = LIVE.load(Relaxed);
    PEAK.store(base, Relaxed);
    let t = Instant::now();
    let buf = Buffer::from_bytes(Path::new("a.ans"), false, &bytes).unwrap();
    let res = (PEAK.load(Relaxed).saturating_sub(base), t.elapsed(), buf.get_line_count());
    println!(
        "{:?} + SAUCE {}x{} ({} bytes): peak allocation {} MB, {:?}, {} lines",
        String::from_utf8_lossy(payload),
        width,
        height,
        bytes.len(),
        res.0 >> 20,
        res.1,
        res.2
    );
    res
}

#[test]
fn insert_line_cost_does_not_depend_on_the_declared_height() {
    let (small, _, _) = load(b"\x1b[99999L", 80, 25);
    assert!(small < (1 << 20));
    let (peak, time, _) = load(b"\x1b[99999L", 1000, 65535);
    assert!(
        peak < (16 << 20),
        "a 137 byte ANSI file (ESC[99999L + SAUCE declaring 1000x65535) allocated {} MB in {:?}; with a SAUCE record declaring 80x25 the same file needs {} KB",
        peak >> 20,
        time,
        small >> 10
    );
}

#[test]
fn repeat_cost_does_not_depend_on_the_declared_height() {
    let (small, _, _) = load(b"X\x1b[9999999b", 80, 25);
    assert!(small < (1 << 20));
    let (peak, time, lines) = load(b"X\x1b[9999999b", 80, 65535);
    assert!(
        peak < (16 << 20),
        "a 140 byte ANSI file (X ESC[9999999b + SAUCE declaring 80x65535) printed {} lines, allocated {} MB and took {:?}",
        lines,
        peak >> 20,
        time
    );
}
