use icy_engine::{AttributedChar, Buffer, Color, SaveOptions, TextAttribute, TextPane};
use std::path::PathBuf;

fn displayed_fg(buf: &Buffer, x: i32, y: i32) -> (u8, u8, u8) {
    let ch = buf.get_char((x, y));
    let mut fg = ch.attribute.get_foreground();
    if ch.attribute.is_bold() && fg < 8 {
        fg += 8;
    }
    buf.palette.get_rgb(fg)
}

/// Palette entry 1 holds the DOS colour red (170,0,0) instead of blue (a palette in ANSI
/// colour order has it there).  'A' is written in that red, 'B' in the untouched entry 9,
/// light blue (85,85,255).
#[test]
fn bright_colour_after_a_dark_colour_from_a_reordered_palette() {
    let mut buf = Buffer::new((80, 1));
    buf.palette.set_color(1, Color::new(0xAA, 0x00, 0x00));
    buf.layers[0].set_char((0, 0), AttributedChar::new('A', TextAttribute::new(1, 0)));
    buf.layers[0].set_char((1, 0), AttributedChar::new('B', TextAttribute::new(9, 0)));

    let mut opt = SaveOptions::new();
    opt.lossles_output = true;
    let bytes = buf.to_bytes("ans", &opt).unwrap();
    println!("file: {:?}", String::from_utf8_lossy(&bytes));
    let loaded = Buffer::from_bytes(&PathBuf::from("test.ans"), true, &bytes).unwrap();

    for x in 0..2 {
        assert_eq!(buf.get_char((x, 0)).ch, loaded.get_char((x, 0)).ch);
        assert_eq!(
            displayed_fg(&buf, x, 0),
            displayed_fg(&loaded, x, 0),
            "cell ({x},0) '{}': displayed foreground of the saved buffer vs. the parsed file",
            buf.get_char((x, 0)).ch
        );
    }
}
