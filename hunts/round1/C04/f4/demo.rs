use icy_engine::{AttributedChar, Buffer, IceMode, SaveOptions, TextAttribute, TextPane};
use std::path::PathBuf;

fn displayed_bg(buf: &Buffer, x: i32, y: i32) -> (u8, u8, u8) {
    buf.palette.get_rgb(buf.get_char((x, y)).attribute.get_background())
}

/// Ice colour mode, one cell 'A' on the dark blue background 1 whose attribute also carries the
/// blink flag (e.g. a picture that was drawn in blink mode and then switched to ice colours).
#[test]
fn ice_mode_cell_with_blink_flag_keeps_its_dark_background() {
    let mut buf = Buffer::new((80, 1));
    buf.ice_mode = IceMode::Ice;
    let mut attr = TextAttribute::new(7, 1);
    attr.set_is_blinking(true);
    buf.layers[0].set_char((0, 0), AttributedChar::new('A', attr));

    let mut opt = SaveOptions::new();
    opt.lossles_output = true;
    let bytes = buf.to_bytes("ans", &opt).unwrap();
    println!("file: {:?}", String::from_utf8_lossy(&bytes));
    let loaded = Buffer::from_bytes(&PathBuf::from("test.ans"), true, &bytes).unwrap();
    println!("saved  cell: {:?}", buf.get_char((0, 0)));
    println!("loaded cell: {:?}", loaded.get_char((0, 0)));

    assert_eq!(
        displayed_bg(&buf, 0, 0),
        displayed_bg(&loaded, 0, 0),
        "cell (0,0): displayed background of the saved ice-mode buffer vs. the parsed file"
    );
}
