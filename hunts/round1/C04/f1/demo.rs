use icy_engine::{AttributedChar, Buffer, SaveOptions, TextAttribute, TextPane};
use std::path::PathBuf;

/// The first three cells of the picture hold the CP437 characters 0xEF 0xBB 0xBF in the
/// default colour.  Nothing but plain ASCII follows.
#[test]
fn picture_starting_with_cp437_ef_bb_bf_roundtrips() {
    let mut buf = Buffer::new((80, 1));
    let text: Vec<char> = vec!['\u{EF}', '\u{BB}', '\u{BF}', 'H', 'i'];
    for (x, ch) in text.iter().enumerate() {
        buf.layers[0].set_char((x as i32, 0), AttributedChar::new(*ch, TextAttribute::default()));
    }

    let mut opt = SaveOptions::new();
    opt.lossles_output = true;
    assert!(!opt.modern_terminal_output);
    let bytes = buf.to_bytes("ans", &opt).unwrap();
    println!("file bytes: {bytes:02X?}");

    let loaded = Buffer::from_bytes(&PathBuf::from("test.ans"), true, &bytes).unwrap();
    println!("loaded buffer type: {:?}", loaded.buffer_type);
    for (x, ch) in text.iter().enumerate() {
        let got = loaded.get_char((x as i32, 0)).ch;
        assert_eq!(
            *ch, got,
            "cell ({x},0): saved CP437 char 0x{:02X}, the written file parsed back to U+{:04X} (buffer type {:?})",
            *ch as u32, got as u32, loaded.buffer_type
        );
    }
}
