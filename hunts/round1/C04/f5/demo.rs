use icy_engine::{AttributedChar, Buffer, SaveOptions, TextAttribute, TextPane};
use std::path::PathBuf;

/// An 80x2 picture in the default colour that shows the text "SAUCE00" in row 0 and a date
/// in row 1 (e.g. a picture explaining the SAUCE record).  It is saved WITHOUT a SAUCE record.
#[test]
fn picture_whose_text_looks_like_a_sauce_record_roundtrips() {
    let mut buf = Buffer::new((80, 2));
    let attr = TextAttribute::default();
    for y in 0..2 {
        for x in 0..80 {
            buf.layers[0].set_char((x, y), AttributedChar::new(' ', attr));
        }
    }
    let put = |buf: &mut Buffer, x: i32, y: i32, s: &str| {
        for (i, ch) in s.chars().enumerate() {
            buf.layers[0].set_char((x + i as i32, y), AttributedChar::new(ch, attr));
        }
    };
    put(&mut buf, 0, 0, "The record starts with:");
    put(&mut buf, 32, 0, "SAUCE00");
    put(&mut buf, 34, 1, "20240101");
    // CP437 character 0 (a blank glyph) - one cell
    buf.layers[0].set_char((56, 1), AttributedChar::new('\0', attr));

    let mut opt = SaveOptions::new();
    opt.lossles_output = true;
    opt.compress = false;
    opt.save_sauce = false;
    let bytes = buf.to_bytes("ans", &opt).unwrap();
    assert_eq!(bytes.len(), 160, "one byte per cell, nothing else");
    let loaded = Buffer::from_bytes(&PathBuf::from("test.ans"), true, &bytes).unwrap();
    println!("loaded buffer:\n{loaded}");

    for y in 0..2 {
        for x in 0..80 {
            let a = buf.get_char((x, y)).ch;
            let b = loaded.get_char((x, y)).ch;
            let blank = |c: char| c == ' ' || c == '\0';
            assert!(
                a == b || blank(a) && blank(b),
                "cell ({x},{y}): saved {a:?}, the written file parsed back to {b:?} (the loader took the last 129 bytes of the picture for a SAUCE record, has_sauce = {})",
                loaded.has_sauce()
            );
        }
    }
}
