use icy_engine::{AttributedChar, Buffer, IceMode, SaveOptions, TextAttribute, TextPane};
use std::path::PathBuf;

/// Row 0 is "A" followed by 79 blinking blanks on black, row 1 is "B".
#[test]
fn blinking_blanks_at_the_end_of_a_row_keep_their_blink_state() {
    let mut buf = Buffer::new((80, 2));
    buf.ice_mode = IceMode::Blink;
    let plain = TextAttribute::new(7, 0);
    let mut blink = TextAttribute::new(7, 0);
    blink.set_is_blinking(true);
    for y in 0..2 {
        for x in 0..80 {
            buf.layers[0].set_char((x, y), AttributedChar::new(' ', plain));
        }
    }
    buf.layers[0].set_char((0, 0), AttributedChar::new('A', blink));
    for x in 1..80 {
        buf.layers[0].set_char((x, 0), AttributedChar::new(' ', blink));
    }
    buf.layers[0].set_char((0, 1), AttributedChar::new('B', plain));

    let mut opt = SaveOptions::new(); // compress = true, preserve_line_length = false
    opt.lossles_output = true;
    let bytes = buf.to_bytes("ans", &opt).unwrap();
    println!("file: {:?}", String::from_utf8_lossy(&bytes));
    let loaded = Buffer::from_bytes(&PathBuf::from("test.ans"), true, &bytes).unwrap();

    for y in 0..2 {
        for x in 0..80 {
            assert_eq!(
                buf.get_char((x, y)).attribute.is_blinking(),
                loaded.get_char((x, y)).attribute.is_blinking(),
                "cell ({x},{y}): blink state of the saved buffer vs. the parsed file"
            );
        }
    }
}
