use icy_engine::{AttributedChar, Buffer, Color, SaveOptions, TextAttribute, TextPane};
use std::path::PathBuf;

fn displayed_bg(buf: &Buffer, x: i32, y: i32) -> (u8, u8, u8) {
    buf.palette.get_rgb(buf.get_char((x, y)).attribute.get_background())
}

/// Palette entry 0 of the buffer is not black (here: DOS blue).  Every cell is a blank on
/// background 0, i.e. the whole row is displayed blue.
#[test]
fn background_palette_entry_0_that_is_not_black_roundtrips() {
    let mut buf = Buffer::new((80, 2));
    buf.palette.set_color(0, Color::new(0x00, 0x00, 0xAA));
    for y in 0..2 {
        for x in 0..80 {
            buf.layers[0].set_char((x, y), AttributedChar::new(' ', TextAttribute::new(7, 0)));
        }
    }
    buf.layers[0].set_char((0, 0), AttributedChar::new('A', TextAttribute::new(7, 0)));
    buf.layers[0].set_char((0, 1), AttributedChar::new('B', TextAttribute::new(7, 0)));

    let mut opt = SaveOptions::new(); // compress = true, preserve_line_length = false
    opt.lossles_output = true;
    let bytes = buf.to_bytes("ans", &opt).unwrap();
    println!("file: {:?}", String::from_utf8_lossy(&bytes));
    let loaded = Buffer::from_bytes(&PathBuf::from("test.ans"), true, &bytes).unwrap();

    for y in 0..2 {
        for x in 0..80 {
            assert_eq!(
                displayed_bg(&buf, x, y),
                displayed_bg(&loaded, x, y),
                "cell ({x},{y}): displayed background of the saved buffer vs. the parsed file"
            );
        }
    }
}

/// Same, with a custom RGB colour in entry 0 and the blanks in the middle of a row
/// (cursor-forward compression).
#[test]
fn custom_rgb_in_palette_entry_0_survives_cursor_forward() {
    let mut buf = Buffer::new((80, 1));
    buf.palette.set_color(0, Color::new(10, 20, 30));
    for x in 0..80 {
        buf.layers[0].set_char((x, 0), AttributedChar::new(' ', TextAttribute::new(7, 0)));
    }
    buf.layers[0].set_char((0, 0), AttributedChar::new('A', TextAttribute::new(7, 0)));
    buf.layers[0].set_char((79, 0), AttributedChar::new('B', TextAttribute::new(7, 0)));

    let mut opt = SaveOptions::new();
    opt.lossles_output = true;
    let bytes = buf.to_bytes("ans", &opt).unwrap();
    println!("file: {:?}", String::from_utf8_lossy(&bytes));
    let loaded = Buffer::from_bytes(&PathBuf::from("test.ans"), true, &bytes).unwrap();
    for x in 0..80 {
        assert_eq!(
            displayed_bg(&buf, x, 0),
            displayed_bg(&loaded, x, 0),
            "cell ({x},0): displayed background of the saved buffer vs. the parsed file"
        );
    }
}
