// C17 / finding 3: the ADF and IDF writers validate the dimensions of the font in slot 0
// (Buffer::get_font_dimensions) but embed the font of the first USED font page (analyze_font_usage()[0]).
// When the cells of the buffer use font page 1, the check looks at the wrong font: an 8x8 font is written into the
// fixed 4096 byte font area of the file without any error, and the reader gets a font with other dimensions and
// other glyphs.
use icy_engine::{AttributedChar, BitFont, Buffer, IceMode, OutputFormat, SaveOptions, TextAttribute, FORMATS};
use std::path::Path;

fn format(ext: &str) -> &'static Box<dyn OutputFormat> {
    FORMATS.iter().find(|f| f.get_file_extension() == ext).unwrap()
}

fn buffer_using_font_page_1(font: &BitFont) -> Buffer {
    let mut buf = Buffer::new((80, 25));
    buf.ice_mode = IceMode::Ice;
    // slot 0 keeps the stock 8x16 font, slot 1 gets the font under test and every cell uses it
    buf.set_font(1, font.clone());
    let mut attr = TextAttribute::default();
    attr.set_font_page(1);
    for y in 0..25 {
        for x in 0..80 {
            buf.layers[0].set_char((x, y), AttributedChar::new('A', attr));
        }
    }
    buf
}

fn check(ext: &str) {
    let font = BitFont::from_ansi_font_page(32).unwrap(); // built-in "Commodore 64 (UPPER)", 8x8
    assert_eq!((font.size.width, font.size.height), (8, 8));
    let buf = buffer_using_font_page_1(&font);

    let mut opt = SaveOptions::default();
    opt.compress = false;
    let bytes = match format(ext).to_bytes(&buf, &opt) {
        // refusing a font the format can't hold is fine
        Err(_) => return,
        Ok(bytes) => bytes,
    };
    // the writer accepted the font: it has to come back unchanged
    let loaded = format(ext)
        .load_buffer(Path::new(&format!("test.{ext}")), &bytes, None)
        .unwrap_or_else(|err| panic!("{ext}: the writer accepted the 8x8 font without error, but the file it wrote can't be loaded: {err}"));
    let back = loaded.get_font(0).expect("font 0");
    assert_eq!(
        back.size, font.size,
        "{ext}: the writer accepted the 8x8 font of the used font page 1 without error, the reader got other dimensions"
    );
    assert_eq!(back.glyphs, font.glyphs, "{ext}: glyphs changed");
}

#[test]
fn adf_embeds_the_font_it_validated() {
    check("adf");
}

#[test]
fn idf_embeds_the_font_it_validated() {
    check("idf");
}
