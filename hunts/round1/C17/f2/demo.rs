// C17 / finding 2: the XBin writer decides whether to embed the font with BitFont::is_default(), which only
// compares the font NAME with "Codepage 437 English".  A font that carries that name but has other glyphs (the
// default font after one glyph was edited in place, or any font that the XBin/ADF/IDF loader named via
// guess_font_name() because its CRC matches) is silently left out of the file and the reader falls back to the
// stock CP437 font.
use icy_engine::{BitFont, Buffer, IceMode, OutputFormat, SaveOptions, FORMATS};
use std::path::Path;

fn xbin() -> &'static Box<dyn OutputFormat> {
    FORMATS.iter().find(|f| f.get_file_extension() == "xb").unwrap()
}

fn save_and_load(buf: &Buffer) -> Buffer {
    let mut opt = SaveOptions::default();
    opt.compress = false;
    let bytes = xbin().to_bytes(buf, &opt).expect("XBin save");
    xbin().load_buffer(Path::new("test.xb"), &bytes, None).expect("XBin load")
}

#[test]
fn edited_default_font_survives_xbin() {
    // the stock font with one row of the glyph 'A' inverted - what a font editor does when it edits a glyph in place
    let mut font = BitFont::default();
    font.get_glyph_mut('A').unwrap().data[0] ^= 0xFF;
    let expected = font.get_glyph('A').unwrap().clone();

    let mut buf = Buffer::new((80, 25));
    buf.ice_mode = IceMode::Blink;
    buf.set_font(0, font.clone());

    let loaded = save_and_load(&buf);
    let back = loaded.get_font(0).expect("font 0");
    assert_eq!(back.size, font.size, "dimensions changed");
    assert_eq!(
        back.get_glyph('A').unwrap(),
        &expected,
        "glyph 'A' of the font embedded in the XBin file was not written: the reader got the stock CP437 glyph"
    );
}

#[test]
fn second_generation_of_an_8x17_font_survives_xbin() {
    // An 8x17 font (legal in XBin) whose raw glyph data is 256 zero bytes followed by the 4096 bytes of the stock
    // 8x16 font.  BitFont::calculate_checksum() starts the CRC at 0, so leading zero bytes do not count and this font
    // has the same checksum as the stock font: the XBin loader names it "Codepage 437 English" (guess_font_name),
    // and the next save drops it.
    let stock = BitFont::default().convert_to_u8_data();
    let mut data = vec![0u8; 256];
    data.extend(&stock);
    assert_eq!(data.len(), 256 * 17);
    let font = BitFont::create_8("my 8x17 font", 8, 17, &data);

    let mut buf = Buffer::new((80, 25));
    buf.ice_mode = IceMode::Blink;
    buf.set_font(0, font.clone());

    let gen1 = save_and_load(&buf);
    let back1 = gen1.get_font(0).unwrap();
    assert_eq!(back1.size, font.size, "first generation: dimensions changed");
    assert_eq!(back1.glyphs, font.glyphs, "first generation: glyphs changed");

    let gen2 = save_and_load(&gen1);
    let back2 = gen2.get_font(0).unwrap();
    assert_eq!(
        back2.size, font.size,
        "second generation (load, save, load): the 8x17 font named {:?} by the loader was not embedded again",
        back1.name
    );
    assert_eq!(back2.glyphs, font.glyphs, "second generation: glyphs changed");
}
