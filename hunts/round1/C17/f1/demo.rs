// C17 / finding 1: raw 8-bit glyph data (and therefore the DCS "CTerm:Font" sequence, which carries exactly that
// data) is read back with BitFont::from_bytes, which sniffs for the PSF1 / PSF2 magic numbers first.  A font whose
// glyph 0 happens to start with the bytes 0x36 0x04 (PSF1 magic) is silently decoded as a PSF1 file: the first four
// glyph bytes are eaten as a header and byte 3 becomes the glyph height.
use icy_engine::{ansi, BitFont, Buffer, BufferParser, Caret};

fn font_with_psf1_magic_in_glyph_0() -> BitFont {
    // 8x16, 256 glyphs.  Glyph 0 = rows 0x36, 0x04, 0x00, 0x00, ... (two short strokes) - everything else empty
    // except one more row so that the font is not trivially blank.
    let mut data = vec![0u8; 256 * 16];
    data[0] = 0x36; // ..##.##.
    data[1] = 0x04; // .....#..
    data[16 * 65 + 7] = 0x7E; // a stroke in 'A'
    BitFont::create_8("custom", 8, 16, &data)
}

fn assert_same(what: &str, expected: &BitFont, actual: &BitFont) {
    assert_eq!(expected.size, actual.size, "{what}: dimensions changed");
    assert_eq!(expected.length, actual.length, "{what}: declared glyph count changed");
    assert_eq!(
        expected.glyphs.len(),
        actual.glyphs.len(),
        "{what}: number of glyphs changed (size read back: {:?})",
        actual.size
    );
    for ch in 0..256u32 {
        let ch = char::from_u32(ch).unwrap();
        assert_eq!(expected.get_glyph(ch), actual.get_glyph(ch), "{what}: glyph {} differs", ch as u32);
    }
}

#[test]
fn raw_glyph_data_starting_with_psf1_magic_round_trips() {
    let font = font_with_psf1_magic_in_glyph_0();
    let raw = font.convert_to_u8_data();
    assert_eq!(raw.len(), 256 * 16);
    let back = BitFont::from_bytes("read back", &raw).expect("4096 bytes of raw 8x16 glyph data must load");
    assert_same("raw 8 bit glyph data", &font, &back);
}

#[test]
fn dcs_font_sequence_starting_with_psf1_magic_round_trips() {
    let font = font_with_psf1_magic_in_glyph_0();
    let sequence = font.encode_as_ansi(7);

    let mut buf = Buffer::new((80, 25));
    let mut caret = Caret::default();
    let mut parser = ansi::Parser::default();
    for ch in sequence.chars() {
        parser.print_char(&mut buf, 0, &mut caret, ch).expect("the engine's own DCS font sequence must parse");
    }
    let back = buf.get_font(7).expect("DCS CTerm:Font:7 must fill font slot 7");
    assert_same("DCS CTerm:Font sequence", &font, back);
}

#[test]
fn raw_glyph_data_starting_with_psf2_magic_round_trips() {
    // same root cause, other magic: 0x72 0xB5 0x4A 0x86 in the first four rows of glyph 0 -> the loader insists on
    // a PSF2 header and rejects the data
    let mut data = vec![0u8; 256 * 16];
    data[0..4].copy_from_slice(&[0x72, 0xB5, 0x4A, 0x86]);
    let font = BitFont::create_8("custom", 8, 16, &data);
    let back = BitFont::from_bytes("read back", &font.convert_to_u8_data());
    assert!(back.is_ok(), "raw 8x16 glyph data rejected: {}", back.err().unwrap());
    assert_same("raw 8 bit glyph data", &font, &back.unwrap());
}
