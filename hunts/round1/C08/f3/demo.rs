// C08 / f3: undo of resize_buffer / crop overwrites the buffer size stored in the SAUCE record
use icy_engine::editor::{EditState, UndoState};
use icy_engine::{Buffer, Rectangle, SauceData, SauceString, Size, TextPane};

fn sauce_size(state: &EditState) -> Size {
    state.get_buffer().get_sauce().as_ref().expect("document has SAUCE data").buffer_size
}

fn document() -> EditState {
    // a 80x25 document whose SAUCE record gives no size (0 x 0) - what a loaded file with an empty
    // TInfo has, and what `update_sauce_data(Some(SauceData::default()))` creates
    let mut buf = Buffer::new((80, 25));
    let mut sauce = SauceData::default();
    sauce.title = SauceString::from("title");
    sauce.buffer_size = Size::new(0, 0);
    buf.set_sauce(Some(sauce), false);
    EditState::from_buffer(buf)
}

#[test]
fn undo_of_resize_buffer_restores_the_sauce_record() {
    let mut state = document();
    let before = sauce_size(&state);
    state.resize_buffer(false, (40, 10)).expect("resize_buffer reports success");
    assert_eq!(Size::new(40, 10), sauce_size(&state), "the edit writes the new size into the SAUCE record");
    state.undo().expect("undo reports success");
    assert_eq!(Size::new(80, 25), state.get_buffer().get_size());
    assert_eq!(
        before,
        sauce_size(&state),
        "undo of resize_buffer did not restore the SAUCE data: buffer_size was {before} before the edit"
    );
}

#[test]
fn undo_of_crop_restores_the_sauce_record() {
    let mut state = document();
    let before = sauce_size(&state);
    state.crop_rect(Rectangle::from(1, 1, 10, 5)).expect("crop_rect reports success");
    state.undo().expect("undo reports success");
    assert_eq!(
        before,
        sauce_size(&state),
        "undo of crop did not restore the SAUCE data: buffer_size was {before} before the edit"
    );
}

#[test]
fn only_editing_operations() {
    // the same with a history that only consists of editing operations
    let mut state = EditState::from_buffer(Buffer::new((80, 25)));
    let mut sauce = SauceData::default();
    sauce.title = SauceString::from("title");
    sauce.buffer_size = Size::new(132, 50);
    state.update_sauce_data(Some(sauce)).expect("update_sauce_data reports success");
    let after_step_1 = sauce_size(&state);
    state.resize_buffer(false, (40, 10)).expect("resize_buffer reports success");
    state.undo().expect("undo reports success");
    assert_eq!(
        after_step_1,
        sauce_size(&state),
        "undoing step 2 (resize_buffer) did not lead back to the state after step 1 (update_sauce_data)"
    );
}
