// C08 / f2: undo of change_font_slot(from, to) loses the font that was in slot `to`
use icy_engine::editor::{EditState, UndoState};
use icy_engine::{BitFont, Buffer, FontMode};

fn fonts(state: &EditState) -> Vec<(usize, String)> {
    let mut v: Vec<(usize, String)> = state.get_buffer().font_iter().map(|(k, f)| (*k, f.name.clone())).collect();
    v.sort();
    v
}

#[test]
fn undo_of_change_font_slot_restores_the_font_table() {
    let mut buf = Buffer::new((4, 2));
    buf.font_mode = FontMode::Unlimited;
    buf.set_font(1, BitFont::from_ansi_font_page(1).unwrap());
    buf.set_font(2, BitFont::from_ansi_font_page(2).unwrap());
    let mut state = EditState::from_buffer(buf);

    let before = fonts(&state);
    assert_eq!(before.len(), 3);

    state.change_font_slot(2, 1).expect("change_font_slot reports success");
    let after = fonts(&state);
    assert_eq!(after.len(), 2, "font 2 moved into slot 1");

    state.undo().expect("undo reports success");
    let undone = fonts(&state);
    assert_eq!(
        before, undone,
        "undo of change_font_slot(2, 1) did not restore the font table (the font that was in slot 1 is lost)"
    );
}
