// C08 / f5 (low severity, literal reading of the last clause): editing operations that report success
// without recording anything keep the redo history alive after an undo
use icy_engine::editor::{EditState, UndoState};
use icy_engine::{AttributedChar, Buffer, Rectangle, TextAttribute};

fn state_after_one_undo() -> EditState {
    let mut state = EditState::from_buffer(Buffer::new((4, 3)));
    state.add_new_layer(0).unwrap();
    state.set_current_layer(0);
    state.set_selection(Rectangle::from(0, 0, 2, 2)).unwrap();
    state.set_char((1, 1), AttributedChar::new('a', TextAttribute::default())).unwrap();
    state.undo().unwrap();
    assert!(state.can_redo(), "one step can be redone");
    state
}

#[test]
fn lower_layer_of_the_bottom_layer_discards_the_redo_history() {
    let mut state = state_after_one_undo();
    state.lower_layer(0).expect("lower_layer(0) reports success");
    assert!(!state.can_redo(), "lower_layer(0) reported success after an undo but the redo history is still there");
}

#[test]
fn other_successful_edits_discard_the_redo_history() {
    let mut kept = Vec::new();

    let mut state = state_after_one_undo();
    state.set_selection(Rectangle::from(0, 0, 2, 2)).expect("set_selection (same selection) reports success");
    if state.can_redo() {
        kept.push("set_selection(the selection that is already set)");
    }

    let mut state = state_after_one_undo();
    state.anchor_layer().expect("anchor_layer reports success");
    if state.can_redo() {
        kept.push("anchor_layer (current layer is no paste layer)");
    }

    let mut state = state_after_one_undo();
    state.paste_clipboard_data(&[1, 2, 3]).expect("paste_clipboard_data reports success");
    if state.can_redo() {
        kept.push("paste_clipboard_data(no clipboard layer) - it also drops the selection without an undo record");
    }

    let mut state = state_after_one_undo();
    state.add_selection_to_mask().unwrap();
    state.undo().unwrap(); // undo add_selection_to_mask, the selection itself is still set
    state.undo().unwrap(); // undo set_selection: nothing is selected any more
    assert!(state.can_redo());
    state.crop().expect("crop reports success");
    if state.can_redo() {
        kept.push("crop (nothing selected)");
    }
    state.erase_selection().expect("erase_selection reports success");
    if state.can_redo() {
        kept.push("erase_selection (nothing selected)");
    }

    assert!(kept.is_empty(), "edits that reported success after an undo and kept the redo history: {kept:#?}");
}
