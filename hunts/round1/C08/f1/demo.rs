// C08 / f1: undo of set_char on an alpha-locked layer does not bring a cell back that the edit made invisible
use icy_engine::editor::{EditState, UndoState};
use icy_engine::{AttributedChar, Buffer, TextAttribute, TextPane};

#[test]
fn undo_of_set_char_on_alpha_locked_layer_restores_the_cell() {
    let mut buf = Buffer::new((4, 2));
    let a = AttributedChar::new('a', TextAttribute::default());
    buf.layers[0].set_char((1, 0), a);
    buf.layers[0].properties.has_alpha_channel = true;
    buf.layers[0].properties.is_alpha_channel_locked = true;

    let mut state = EditState::from_buffer(buf);
    let before = state.get_buffer().layers[0].get_char((1, 0));
    assert!(before.is_visible() && before.ch == 'a');

    // the edit reports success and really changes the cell
    state.set_char((1, 0), AttributedChar::invisible()).expect("set_char reports success");
    let after = state.get_buffer().layers[0].get_char((1, 0));
    assert!(!after.is_visible(), "the edit made the cell invisible");

    state.undo().expect("undo reports success");
    let undone = state.get_buffer().layers[0].get_char((1, 0));
    assert!(
        undone.is_visible() && undone.ch == 'a',
        "undo of set_char did not restore cell (1,0) of the alpha locked layer: before the edit {before:?}, after undo {undone:?}"
    );
}
