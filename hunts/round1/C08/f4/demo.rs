// C08 / f4: undo of delete_column panics (index out of bounds) when the rows of the layer are stored
// differently than at the time of the last redo
use std::panic::{catch_unwind, AssertUnwindSafe};

use icy_engine::editor::{EditState, UndoState};
use icy_engine::{AttributedChar, Buffer, IceMode, TextAttribute, TextPane};

fn cells(state: &EditState) -> Vec<String> {
    let layer = &state.get_buffer().layers[0];
    let mut rows = Vec::new();
    for y in 0..layer.get_height() {
        let mut row = String::new();
        for x in 0..layer.get_width() {
            let ch = layer.get_char((x, y));
            row.push(if ch.is_visible() { ch.ch } else { '.' });
        }
        rows.push(row);
    }
    rows
}

#[test]
fn undo_of_delete_column_after_undo_redo_round_trip() {
    // a fresh 4x3 document with one layer, some text in it
    let mut buf = Buffer::new((4, 3));
    for (i, c) in "abcdefghijkl".chars().enumerate() {
        buf.layers[0].set_char((i as i32 % 4, i as i32 / 4), AttributedChar::new(c, TextAttribute::default()));
    }
    let mut state = EditState::from_buffer(buf);
    let s0 = cells(&state);

    // the history: four editing operations, each reports success
    state.clear_layer(0).expect("clear_layer");
    let s1 = cells(&state);
    state.justify_left().expect("justify_left");
    let s2 = cells(&state);
    state.get_caret_mut().set_position((0, 0).into());
    state.delete_column().expect("delete_column");
    let s3 = cells(&state);
    state.set_ice_mode(IceMode::Ice).expect("set_ice_mode");
    let s4 = cells(&state);
    assert_eq!(4, state.undo_stack_len());

    // undo three steps, redo them again: all states are reached as expected
    state.undo().expect("undo set_ice_mode");
    assert_eq!(s3, cells(&state));
    state.undo().expect("undo delete_column");
    assert_eq!(s2, cells(&state));
    state.undo().expect("undo justify_left");
    assert_eq!(s1, cells(&state));
    state.redo().expect("redo justify_left");
    assert_eq!(s2, cells(&state));
    state.redo().expect("redo delete_column");
    assert_eq!(s3, cells(&state));
    state.redo().expect("redo set_ice_mode");
    assert_eq!(s4, cells(&state));

    // ... and undo two steps again
    state.undo().expect("undo set_ice_mode (2nd time)");
    assert_eq!(s3, cells(&state));
    let res = catch_unwind(AssertUnwindSafe(|| state.undo()));
    assert!(
        matches!(res, Ok(Ok(()))),
        "the second undo of delete_column (after undo x3, redo x3, undo) failed or panicked: {:?}",
        res.map(|r| r.map_err(|e| e.to_string())).map_err(|p| p
            .downcast_ref::<String>()
            .cloned()
            .or_else(|| p.downcast_ref::<&str>().map(|s| (*s).to_string()))
            .unwrap_or_default())
    );
    assert_eq!(s2, cells(&state));
    state.undo().expect("undo justify_left");
    state.undo().expect("undo clear_layer");
    assert_eq!(s0, cells(&state));
}
