// random exploration harness
use std::collections::BTreeMap;
use std::panic::{catch_unwind, AssertUnwindSafe};

use icy_engine::editor::{EditState, UndoState};
use icy_engine::*;

struct Rng(u64);
impl Rng {
    fn next(&mut self) -> u64 {
        self.0 ^= self.0 << 13;
        self.0 ^= self.0 >> 7;
        self.0 ^= self.0 << 17;
        self.0
    }
    fn below(&mut self, n: u64) -> u64 {
        (self.next() >> 11) % n
    }
    fn range(&mut self, lo: i32, hi: i32) -> i32 {
        lo + self.below((hi - lo + 1) as u64) as i32
    }
    fn chance(&mut self, pct: u64) -> bool {
        self.below(100) < pct
    }
}

type Cell = (char, u32, u32, u16, usize);

#[derive(Clone, PartialEq, Debug)]
struct LayerSnap {
    size: (i32, i32),
    offset: (i32, i32),
    props: Properties,
    role: Role,
    cells: Vec<Cell>,
}

#[derive(Clone, PartialEq, Debug)]
struct Snap {
    size: (i32, i32),
    ice: IceMode,
    pal_mode: PaletteMode,
    font_mode: FontMode,
    palette: Vec<(u8, u8, u8)>,
    fonts: BTreeMap<usize, (String, u32)>,
    sauce: Option<(String, (i32, i32), bool, Option<String>)>,
    layers: Vec<LayerSnap>,
}

fn cell(ch: AttributedChar) -> Cell {
    if !ch.is_visible() {
        return (ch.ch, ch.attribute.get_foreground(), ch.attribute.get_background(), ch.attribute.attr, 0);
    }
    (ch.ch, ch.attribute.get_foreground(), ch.attribute.get_background(), ch.attribute.attr, ch.get_font_page())
}

fn snap(st: &EditState) -> Snap {
    let b = st.get_buffer();
    let mut layers = Vec::new();
    for l in &b.layers {
        let mut cells = Vec::new();
        for y in 0..l.get_height() {
            for x in 0..l.get_width() {
                cells.push(cell(l.get_char((x, y))));
            }
        }
        layers.push(LayerSnap {
            size: (l.get_width(), l.get_height()),
            offset: (l.get_offset().x, l.get_offset().y),
            props: l.properties.clone(),
            role: l.role,
            cells,
        });
    }
    let mut fonts = BTreeMap::new();
    for (k, f) in b.font_iter() {
        fonts.insert(*k, (f.name.clone(), f.checksum));
    }
    let mut palette = Vec::new();
    for i in 0..b.palette.len() {
        palette.push(b.palette.get_rgb(i as u32));
    }
    Snap {
        size: (b.get_width(), b.get_height()),
        ice: b.ice_mode,
        pal_mode: b.palette_mode,
        font_mode: b.font_mode,
        palette,
        fonts,
        sauce: b.get_sauce().as_ref().map(|s| {
            (
                format!("{}|{}|{}", s.title, s.author, s.group),
                (0, 0),
                s.use_ice,
                s.font_opt.clone(),
            )
        }),
        layers,
    }
}

fn diff(a: &Snap, b: &Snap) -> String {
    let mut s = String::new();
    if a.size != b.size {
        s += &format!("size {:?} vs {:?}; ", a.size, b.size);
    }
    if a.ice != b.ice {
        s += "ice; ";
    }
    if a.pal_mode != b.pal_mode {
        s += "pal_mode; ";
    }
    if a.palette != b.palette {
        s += "palette; ";
    }
    if a.fonts != b.fonts {
        s += &format!("fonts {:?} vs {:?}; ", a.fonts.keys().collect::<Vec<_>>(), b.fonts.keys().collect::<Vec<_>>());
    }
    if a.sauce != b.sauce {
        s += &format!("sauce {:?} vs {:?}; ", a.sauce, b.sauce);
    }
    if a.layers.len() != b.layers.len() {
        s += &format!("layer count {} vs {}; ", a.layers.len(), b.layers.len());
    } else {
        for (i, (x, y)) in a.layers.iter().zip(b.layers.iter()).enumerate() {
            if x.size != y.size {
                s += &format!("layer {i} size {:?} vs {:?}; ", x.size, y.size);
            }
            if x.offset != y.offset {
                s += &format!("layer {i} offset {:?} vs {:?}; ", x.offset, y.offset);
            }
            if x.props != y.props {
                s += &format!("layer {i} props; ");
            }
            if x.role != y.role {
                s += &format!("layer {i} role; ");
            }
            if x.size == y.size && x.cells != y.cells {
                for (k, (c, d)) in x.cells.iter().zip(y.cells.iter()).enumerate() {
                    if c != d {
                        s += &format!("layer {i} cell {} ({},{}) {:?} vs {:?}; ", k, k as i32 % x.size.0.max(1), k as i32 / x.size.0.max(1), c, d);
                        break;
                    }
                }
            }
        }
    }
    s
}

fn rnd_char(r: &mut Rng) -> AttributedChar {
    match r.below(8) {
        0 => AttributedChar::invisible(),
        1 => AttributedChar::new(' ', TextAttribute::new(7, 0)),
        2 => AttributedChar::new('/', TextAttribute::new(r.below(16) as u32, r.below(16) as u32)),
        3 => AttributedChar::new(220 as char, TextAttribute::new(r.below(16) as u32, r.below(16) as u32)),
        4 => {
            let mut a = TextAttribute::new(r.below(8) as u32, r.below(8) as u32);
            a.set_is_blinking(true);
            AttributedChar::new('b', a)
        }
        5 => {
            let mut c = AttributedChar::new('f', TextAttribute::new(r.below(16) as u32, r.below(16) as u32));
            c.set_font_page(r.below(3) as usize);
            c
        }
        _ => AttributedChar::new((b'a' + r.below(26) as u8) as char, TextAttribute::new(r.below(16) as u32, r.below(16) as u32)),
    }
}

fn make_doc(r: &mut Rng, cfg: &Cfg) -> EditState {
    let w = r.range(3, 8);
    let h = r.range(3, 6);
    let mut buf = Buffer::new((w, h));
    if cfg.extreme {
        buf.ice_mode = [IceMode::Unlimited, IceMode::Blink, IceMode::Ice][r.below(3) as usize];
        buf.palette_mode = [PaletteMode::RGB, PaletteMode::Fixed16, PaletteMode::Free8, PaletteMode::Free16][r.below(4) as usize];
        if r.chance(30) {
            for i in 0..20u8 {
                buf.palette.insert_color(Color::new(i, 100, 200 - i));
            }
        }
    }
    if cfg.fonts {
        buf.font_mode = if cfg.extreme { [FontMode::Unlimited, FontMode::Sauce, FontMode::Single, FontMode::FixedSize][r.below(4) as usize] } else { FontMode::Unlimited };
        if r.chance(50) {
            buf.set_font(1, BitFont::from_ansi_font_page(1).unwrap());
        }
        if r.chance(30) {
            buf.set_font(2, BitFont::from_ansi_font_page(2).unwrap());
        }
    }
    if cfg.sauce && r.chance(50) {
        let mut s = SauceData::default();
        s.title = SauceString::from("t");
        s.buffer_size = Size::new(r.range(0, 9), r.range(0, 9));
        buf.set_sauce(Some(s), false);
    }
    let n = if cfg.extreme && r.chance(10) { 0 } else { r.range(1, 3) };
    buf.layers.clear();
    for i in 0..n {
        let (lw, lh) = if i == 0 && r.chance(60) { (w, h) } else { (r.range(1, 8), r.range(1, 6)) };
        let mut l = Layer::new(format!("L{i}"), (lw, lh));
        if r.chance(50) {
            l.set_offset((r.range(-2, 3), r.range(-2, 3)));
        }
        for y in 0..lh {
            for x in 0..lw {
                if r.chance(60) {
                    l.set_char((x, y), rnd_char(r));
                }
            }
        }
        if cfg.hidden && r.chance(40) {
            l.set_size((r.range(0, lw), r.range(0, lh)));
        }
        if cfg.roles && i > 0 && r.chance(40) {
            l.role = [Role::PastePreview, Role::PasteImage, Role::Image][r.below(3) as usize];
        }
        if cfg.preview && r.chance(30) {
            l.set_preview_offset(Some(Position::new(r.range(-2, 3), r.range(-2, 3))));
        }
        if cfg.lazy && r.chance(20) {
            l.lines.truncate(r.range(0, lh) as usize);
        }
        l.properties.has_alpha_channel = r.chance(50);
        if cfg.alpha_lock {
            l.properties.is_alpha_channel_locked = r.chance(30);
        }
        if cfg.locks {
            l.properties.is_locked = r.chance(15);
            l.properties.is_position_locked = r.chance(15);
            l.properties.is_visible = !r.chance(20);
        }
        buf.layers.push(l);
    }
    let mut st = EditState::from_buffer(buf);
    st.set_current_layer(r.below(n.max(1) as u64) as usize);
    st
}

#[derive(Clone, Copy)]
struct Cfg {
    fonts: bool,
    sauce: bool,
    alpha_lock: bool,
    locks: bool,
    lazy: bool,
    modes: bool,
    hidden: bool,
    roles: bool,
    preview: bool,
    props: bool,
    extreme: bool,
}

fn rnd_rect(r: &mut Rng, st: &EditState) -> Rectangle {
    let w = st.get_buffer().get_width();
    let h = st.get_buffer().get_height();
    let x1 = r.range(-1, w);
    let y1 = r.range(-1, h);
    let x2 = r.range(x1, w + 1);
    let y2 = r.range(y1, h + 1);
    Rectangle::from_coords(x1, y1, x2, y2)
}

fn apply(r: &mut Rng, st: &mut EditState, cfg: &Cfg) -> (String, EngineResult<()>) {
    let nl = st.get_buffer().layers.len().max(1) as u64;
    let bw = st.get_buffer().get_width();
    let bh = st.get_buffer().get_height();
    // harness-level moves (not edits)
    if r.chance(30) {
        st.set_current_layer(r.below(nl) as usize);
    }
    if r.chance(40) {
        let lo = if cfg.extreme { -1 } else { 0 };
        let p = Position::new(r.range(lo, bw.max(1) + 2), r.range(lo, bh.max(1) + 2));
        st.get_caret_mut().set_position(p);
    }
    let cur = st.get_current_layer().unwrap_or(0);
    let caret = st.get_caret().get_position();
    let pre = format!("[cur={cur} caret=({},{})] ", caret.x, caret.y);
    let k = r.below(if cfg.modes { 44 } else { 40 });
    let (d, res): (String, EngineResult<()>) = match k {
        0 | 1 => {
            let p = Position::new(r.range(-1, 8), r.range(-1, 6));
            let c = rnd_char(r);
            let alpha_locked = st.get_cur_layer().map_or(false, |l| l.properties.has_alpha_channel && l.properties.is_alpha_channel_locked);
            if alpha_locked {
                // known finding f1
                ("lower_layer(0)".into(), st.lower_layer(0))
            } else {
                if cfg.props {
                    st.set_mirror_mode(r.chance(30));
                }
                (format!("set_char({p:?},{:?}) mirror={}", cell(c), st.get_mirror_mode()), st.set_char(p, c))
            }
        }
        2 => {
            let p = Position::new(r.range(-1, 8), r.range(-1, 6));
            let q = Position::new(r.range(-1, 8), r.range(-1, 6));
            (format!("swap_char({p:?},{q:?})"), st.swap_char(p, q))
        }
        3 => {
            let i = r.below(nl) as usize;
            (format!("add_new_layer({i})"), st.add_new_layer(i))
        }
        4 => {
            let i = r.below(nl) as usize;
            (format!("remove_layer({i})"), st.remove_layer(i))
        }
        5 => {
            let i = r.below(nl) as usize;
            (format!("raise_layer({i})"), st.raise_layer(i))
        }
        6 => {
            let i = r.below(nl) as usize;
            (format!("lower_layer({i})"), st.lower_layer(i))
        }
        7 => {
            let i = r.below(nl) as usize;
            (format!("duplicate_layer({i})"), st.duplicate_layer(i))
        }
        8 => {
            let i = r.below(nl) as usize;
            (format!("clear_layer({i})"), st.clear_layer(i))
        }
        9 => {
            let i = r.below(nl) as usize;
            (format!("merge_layer_down({i})"), st.merge_layer_down(i))
        }
        10 => {
            let i = r.below(nl) as usize;
            (format!("toggle_layer_visibility({i})"), st.toggle_layer_visibility(i))
        }
        11 => {
            let p = if cfg.extreme && r.chance(30) { Position::new(r.range(-40, 40), r.range(-40, 40)) } else { Position::new(r.range(-3, 5), r.range(-3, 5)) };
            (format!("move_layer({p:?})"), st.move_layer(p))
        }
        12 => {
            let i = r.below(nl) as usize;
            let s = if cfg.extreme { (r.range(-1, 9), r.range(-1, 7)) } else { (r.range(0, 9), r.range(0, 7)) };
            (format!("set_layer_size({i},{s:?})"), st.set_layer_size(i, s))
        }
        13 => {
            let s = if cfg.extreme { (r.range(-1, 10), r.range(-1, 8)) } else { (r.range(1, 10), r.range(1, 8)) };
            (format!("resize_buffer(false,{s:?})"), st.resize_buffer(false, s))
        }
        14 => {
            let s = if cfg.extreme { (r.range(0, 10), r.range(0, 8)) } else { (r.range(1, 10), r.range(1, 8)) };
            (format!("resize_buffer(true,{s:?})"), st.resize_buffer(true, s))
        }
        15 => ("crop".into(), st.crop()),
        16 | 17 => {
            let rect = rnd_rect(r, st);
            let mut sel: Selection = rect.into();
            match r.below(4) {
                0 => sel.add_type = AddType::Add,
                1 => sel.add_type = AddType::Subtract,
                _ => {}
            }
            if r.chance(20) {
                sel.shape = Shape::Lines;
            }
            (format!("set_selection({rect} {:?} {:?})", sel.add_type, sel.shape), st.set_selection(sel))
        }
        18 => ("clear_selection".into(), st.clear_selection()),
        19 => ("add_selection_to_mask".into(), st.add_selection_to_mask()),
        20 => ("inverse_selection".into(), st.inverse_selection()),
        21 => ("deselect".into(), st.deselect()),
        22 => ("erase_selection".into(), st.erase_selection()),
        23 => ("flip_x".into(), st.flip_x()),
        24 => ("flip_y".into(), st.flip_y()),
        25 => ("justify_left".into(), st.justify_left()),
        26 => ("justify_right".into(), st.justify_right()),
        27 => ("center".into(), st.center()),
        28 => ("insert_row".into(), st.insert_row()),
        29 => ("delete_row".into(), st.delete_row()),
        30 => ("insert_column".into(), st.insert_column()),
        31 => ("delete_column".into(), st.delete_column()),
        32 => match r.below(4) {
            0 => ("scroll_area_up".into(), st.scroll_area_up()),
            1 => ("scroll_area_down".into(), st.scroll_area_down()),
            2 => ("scroll_area_left".into(), st.scroll_area_left()),
            _ => ("scroll_area_right".into(), st.scroll_area_right()),
        },
        33 => ("rotate_layer".into(), st.rotate_layer()),
        34 => ("make_layer_transparent".into(), st.make_layer_transparent()),
        35 => ("stamp_layer_down".into(), st.stamp_layer_down()),
        36 => {
            // paste: build clipboard data by hand
            let w = r.range(1, 4);
            let h = r.range(1, 3);
            let mut data = vec![0u8];
            data.extend(i32::to_le_bytes(r.range(-1, 4)));
            data.extend(i32::to_le_bytes(r.range(-1, 4)));
            data.extend(u32::to_le_bytes(w as u32));
            data.extend(u32::to_le_bytes(h as u32));
            for _ in 0..w * h {
                let c = rnd_char(r);
                data.extend(u16::to_le_bytes(c.ch as u16));
                data.extend(u16::to_le_bytes(c.attribute.attr));
                data.extend(u16::to_le_bytes(c.get_font_page() as u16));
                data.extend(u32::to_le_bytes(c.attribute.get_background()));
                data.extend(u32::to_le_bytes(c.attribute.get_foreground()));
            }
            let res = st.paste_clipboard_data(&data);
            if res.is_ok() {
                st.set_current_layer(cur + 1);
            }
            (format!("paste({w}x{h})"), res)
        }
        37 => ("anchor_layer".into(), st.anchor_layer()),
        38 if cfg.props && r.chance(50) => match r.below(4) {
            0 => {
                let i = r.below(nl) as usize;
                if i < st.get_buffer().layers.len() {
                    let mut p = st.get_buffer().layers[i].properties.clone();
                    match r.below(7) {
                        0 => p.is_locked = !p.is_locked,
                        1 => p.is_visible = !p.is_visible,
                        2 => p.is_position_locked = !p.is_position_locked,
                        3 => p.has_alpha_channel = !p.has_alpha_channel,
                        4 => p.is_alpha_channel_locked = !p.is_alpha_channel_locked,
                        5 => p.offset = Position::new(r.range(-2, 3), r.range(-2, 3)),
                        _ => p.title = "renamed".into(),
                    }
                    (format!("update_layer_properties({i},{p:?})"), st.update_layer_properties(i, p))
                } else {
                    ("lower_layer(0)".into(), st.lower_layer(0))
                }
            }
            1 => {
                let rect = rnd_rect(r, st);
                (format!("crop_rect({rect})"), st.crop_rect(rect))
            }
            2 => ("erase_row_to_end".into(), st.erase_row_to_end()),
            _ => ("erase_column_to_start".into(), st.erase_column_to_start()),
        },
        38 => match r.below(7) {
            0 => ("center_line".into(), st.center_line()),
            1 => ("justify_line_left".into(), st.justify_line_left()),
            2 => ("justify_line_right".into(), st.justify_line_right()),
            3 => ("erase_row".into(), st.erase_row()),
            4 => ("erase_row_to_start".into(), st.erase_row_to_start()),
            5 => ("erase_column".into(), st.erase_column()),
            _ => ("erase_column_to_end".into(), st.erase_column_to_end()),
        },
        39 => ("add_floating_layer".into(), st.add_floating_layer()),
        40 => {
            let m = [IceMode::Unlimited, IceMode::Blink, IceMode::Ice][r.below(3) as usize];
            (format!("set_ice_mode({m:?})"), st.set_ice_mode(m))
        }
        41 => {
            let m = [PaletteMode::RGB, PaletteMode::Fixed16, PaletteMode::Free8, PaletteMode::Free16][r.below(4) as usize];
            (format!("set_palette_mode({m:?})"), st.set_palette_mode(m))
        }
        42 => match r.below(9) {
            0 => {
                let p = r.below(4) as usize;
                (format!("add_ansi_font({p})"), st.add_ansi_font(p))
            }
            1 => {
                let p = r.below(4) as usize;
                (format!("set_ansi_font({p})"), st.set_ansi_font(p))
            }
            2 => {
                let p = r.below(4) as usize;
                (format!("switch_to_font_page({p})"), st.switch_to_font_page(p))
            }
            3 => {
                let p = r.below(4) as usize;
                (format!("remove_font({p})"), st.remove_font(p))
            }
            4 => {
                let p = r.below(4) as usize;
                let q = r.below(4) as usize;
                if p != q && st.get_buffer().has_font(q) {
                    // known finding f2
                    ("lower_layer(0)".into(), st.lower_layer(0))
                } else {
                    (format!("change_font_slot({p},{q})"), st.change_font_slot(p, q))
                }
            }
            5 => {
                let p = r.below(4) as usize;
                let q = r.below(4) as usize;
                (format!("replace_font_usage({p},{q})"), st.replace_font_usage(p, q))
            }
            6 => ("add_font".into(), st.add_font(BitFont::from_ansi_font_page(3).unwrap())),
            7 => ("set_font".into(), st.set_font(BitFont::from_ansi_font_page(4).unwrap())),
            _ => ("set_sauce_font".into(), st.set_sauce_font("IBM VGA50")),
        },
        _ => match r.below(2) {
            0 => {
                let mut s = SauceData::default();
                s.title = SauceString::from("x");
                s.buffer_size = Size::new(r.range(0, 9), r.range(0, 9));
                ("update_sauce_data".into(), st.update_sauce_data(if r.chance(70) { Some(s) } else { None }))
            }
            _ => {
                let mut p = Palette::dos_default();
                p.set_color(1, Color::new(1, 2, 3));
                ("switch_to_palette".into(), st.switch_to_palette(p))
            }
        },
    };
    (pre + &d, res)
}

fn run_trial(seed: u64, cfg: &Cfg, max_len: usize) -> Option<String> {
    let mut r = Rng(seed.wrapping_mul(0x9E3779B97F4A7C15) | 1);
    let mut st = make_doc(&mut r, cfg);
    let mut snaps = vec![snap(&st)];
    let mut lens = vec![st.undo_stack_len()];
    let mut descs: Vec<String> = Vec::new();
    let n = r.range(1, max_len as i32) as usize;
    for _ in 0..n {
        let before_len = st.undo_stack_len();
        let res = catch_unwind(AssertUnwindSafe(|| apply(&mut r, &mut st, cfg)));
        match res {
            Err(_) => return None, // op panicked: outside the statement
            Ok((d, Err(_))) => {
                // failed op: must not have had an effect, otherwise drop the trial
                if st.undo_stack_len() != before_len || snap(&st) != *snaps.last().unwrap() {
                    return None;
                }
                let _ = d;
            }
            Ok((d, Ok(()))) => {
                if st.undo_stack_len() < before_len {
                    return Some(format!("seed {seed}: undo stack shrank at {d}"));
                }
                descs.push(d);
                snaps.push(snap(&st));
                lens.push(st.undo_stack_len());
            }
        }
    }
    let hist = |upto: usize| descs[..upto].join("\n   ");
    // full undo
    for i in (1..snaps.len()).rev() {
        while st.undo_stack_len() > lens[i - 1] {
            let res = catch_unwind(AssertUnwindSafe(|| st.undo()));
            match res {
                Err(_) => return Some(format!("seed {seed}: undo of step {i} PANICKED\n   {}", hist(i))),
                Ok(Err(e)) => return Some(format!("seed {seed}: undo of step {i} failed: {e}\n   {}", hist(i))),
                Ok(Ok(())) => {}
            }
        }
        let now = snap(&st);
        if now != snaps[i - 1] {
            return Some(format!("seed {seed}: after undo of step {i}: {}\n   {}", diff(&snaps[i - 1], &now), hist(i)));
        }
    }
    // full redo
    for i in 1..snaps.len() {
        while st.undo_stack_len() < lens[i] {
            if !st.can_redo() {
                return Some(format!("seed {seed}: cannot redo step {i}\n   {}", hist(i)));
            }
            let res = catch_unwind(AssertUnwindSafe(|| st.redo()));
            match res {
                Err(_) => return Some(format!("seed {seed}: redo of step {i} PANICKED\n   {}", hist(i))),
                Ok(Err(e)) => return Some(format!("seed {seed}: redo of step {i} failed: {e}\n   {}", hist(i))),
                Ok(Ok(())) => {}
            }
        }
        let now = snap(&st);
        if now != snaps[i] {
            return Some(format!("seed {seed}: after redo of step {i}: {}\n   {}", diff(&snaps[i], &now), hist(i)));
        }
    }
    // random walk
    let mut pos = snaps.len() - 1;
    let dbg = std::env::var("DBG").is_ok();
    if dbg {
        println!("lens {:?}", lens);
        for (i, d) in descs.iter().enumerate() { println!("step {} {}", i + 1, d); }
        println!("initial {:#?}", snaps[0]);
    }
    for _ in 0..20 {
        if dbg {
            println!("walk pos {pos} stack {} layers {:?}", st.undo_stack_len(), st.get_buffer().layers.iter().map(|l| (l.get_size(), l.lines.len(), l.lines.iter().map(|x| x.chars.len()).collect::<Vec<_>>())).collect::<Vec<_>>());
        }
        if r.chance(50) && pos > 0 {
            while st.undo_stack_len() > lens[pos - 1] {
                if catch_unwind(AssertUnwindSafe(|| st.undo())).map_or(true, |x| x.is_err()) {
                    return Some(format!("seed {seed}: walk undo failed at {pos}\n   {}", hist(pos)));
                }
            }
            pos -= 1;
        } else if pos + 1 < snaps.len() {
            while st.undo_stack_len() < lens[pos + 1] {
                if catch_unwind(AssertUnwindSafe(|| st.redo())).map_or(true, |x| x.is_err()) {
                    return Some(format!("seed {seed}: walk redo failed at {pos}\n   {}", hist(pos + 1)));
                }
            }
            pos += 1;
        }
        let now = snap(&st);
        if now != snaps[pos] {
            return Some(format!("seed {seed}: walk at {pos}: {}\n   {}", diff(&snaps[pos], &now), hist(snaps.len() - 1)));
        }
    }
    // a new edit after an undo discards the redo history
    if st.can_redo() {
        for _ in 0..3 {
            let before_len = st.undo_stack_len();
            let before = snap(&st);
            let res = catch_unwind(AssertUnwindSafe(|| apply(&mut r, &mut st, cfg)));
            match res {
                Err(_) => return None,
                Ok((_, Err(_))) => return None,
                Ok((d, Ok(()))) => {
                    if st.undo_stack_len() > before_len {
                        if st.can_redo() {
                            return Some(format!("seed {seed}: redo history survives new edit\n   {d}"));
                        }
                        break;
                    } else if snap(&st) != before {
                        return Some(format!("seed {seed}: edit without undo record changed the document: {}\n   {d}", diff(&before, &snap(&st))));
                    } else if !st.can_redo() {
                        break;
                    }
                }
            }
        }
    }
    None
}

fn campaign(name: &str, cfg: Cfg, trials: u64, max_len: usize) {
    std::panic::set_hook(Box::new(|_| {}));
    let mut found = 0;
    let mut seen = std::collections::HashSet::new();
    for seed in 1..=trials {
        if let Some(msg) = run_trial(seed, &cfg, max_len) {
            // key by last op + kind of diff
            let last = msg.lines().last().unwrap_or("").to_string();
            let key: String = last.split(']').nth(1).unwrap_or("").split('(').next().unwrap_or("").trim().to_string();
            let key2: String = msg.lines().next().unwrap_or("").split(':').nth(1).unwrap_or("").chars().filter(|c| !c.is_ascii_digit()).take(30).collect();
            if seen.insert((key.clone(), key2)) {
                println!("=== {name} === {msg}\n");
                found += 1;
            }
            if found > 25 {
                break;
            }
        }
    }
    println!("{name}: {found} distinct failures");
}


fn all(trials: u64, max_len: usize, name: &str) {
    campaign(
        name,
        Cfg { fonts: true, sauce: true, alpha_lock: true, locks: true, lazy: true, modes: true, hidden: true, roles: true, preview: false, props: true, extreme: false },
        trials,
        max_len,
    );
}

#[test]
fn all_short() {
    all(60000, 4, "all-short");
}

#[test]
fn all_long() {
    all(40000, 15, "all-long");
}

#[test]
fn all_long2() {
    all(15000, 40, "all-long2");
}

#[test]
fn preview() {
    campaign(
        "preview",
        Cfg { fonts: false, sauce: false, alpha_lock: false, locks: false, lazy: false, modes: false, hidden: false, roles: true, preview: true, props: false, extreme: false },
        8000,
        3,
    );
}

#[test]
fn one_seed() {
    let seed: u64 = std::env::var("SEED").ok().and_then(|s| s.parse().ok()).unwrap_or(1909);
    let len: usize = std::env::var("LEN").ok().and_then(|s| s.parse().ok()).unwrap_or(15);
    let cfg = Cfg { fonts: true, sauce: true, alpha_lock: true, locks: true, lazy: true, modes: true, hidden: true, roles: true, preview: false, props: true, extreme: false };
    println!("{:?}", run_trial(seed, &cfg, len));
}

#[test]
fn extreme() {
    campaign(
        "extreme",
        Cfg { fonts: true, sauce: true, alpha_lock: true, locks: true, lazy: false, modes: true, hidden: true, roles: true, preview: false, props: true, extreme: true },
        40000,
        6,
    );
}
