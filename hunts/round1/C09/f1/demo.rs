use icy_engine::{ansi, Buffer, BufferParser, CallbackAction, Caret, TextPane};

/// `CSI 8;1;1 N` is a complete control sequence (final byte `N`, ECMA-48 EF - erase in field; the engine
/// only gives it a meaning when ANSI music is enabled, which it is not here). The `t` that follows it is
/// ordinary text. The stream contains no text-area resize request (`CSI 8;h;w t`).
#[test]
fn text_after_csi_n_resizes_the_terminal_and_strands_the_cursor() {
    let (w, h) = (80, 25);
    let mut buf = Buffer::new((w, h));
    buf.is_terminal_buffer = true;
    let mut caret = Caret::default();
    let mut parser = ansi::Parser::default(); // ansi_music == MusicOption::Off

    let stream = b"abc\x1b[8;1;1Nt";
    for (i, b) in stream.iter().enumerate() {
        let res = parser.print_char(&mut buf, 0, &mut caret, *b as char);
        if let Ok(CallbackAction::ResizeTerminal(nw, nh)) = res {
            println!("byte {i} ({:?}) made the engine resize the text area to {nw}x{nh}", *b as char);
        }
        let tw = buf.terminal_state.get_width();
        let th = buf.terminal_state.get_height();
        let first = (buf.get_height() - th).max(0);
        let p = caret.get_position();
        assert!(
            tw == w && th == h,
            "after byte {i} of {:?} the text area is {tw}x{th} instead of {w}x{h} although the stream holds no resize request (CSI 8;1;1N is complete, 't' is text); cursor {p:?}, visible rows {first}..{}",
            String::from_utf8_lossy(stream),
            first + th
        );
        assert!(
            (0..tw).contains(&p.x) && (first..first + th).contains(&p.y),
            "after byte {i} the cursor {p:?} is outside the {tw}x{th} screen (rows {first}..{})",
            first + th
        );
    }
}
