use icy_engine::{ansi, Buffer, BufferParser, CallbackAction, Caret, TextPane};

/// `CSI 8;1;1 ! t` carries the intermediate byte `!` (0x21): control functions are identified by their
/// intermediate AND final bytes, so this is not the window manipulation `CSI 8;h;w t` (no terminal knows a
/// `CSI ... ! t` function, it has to be ignored as a whole). The engine itself answers the `!` with
/// `Err(UnsupportedEscapeSequence)` - and then goes on with the sequence it has just rejected.
#[test]
fn rejected_control_sequence_still_resizes_the_terminal() {
    for stream in [&b"abc\x1b[8;1;1!t"[..], &b"abc\x1b[8;1;1<t"[..], &b"abc\x1b[8;1;1=t"[..], &b"abc\x1b[8;1;1?t"[..]] {
        let (w, h) = (80, 25);
        let mut buf = Buffer::new((w, h));
        buf.is_terminal_buffer = true;
        let mut caret = Caret::default();
        let mut parser = ansi::Parser::default();

        let mut rejected_at = None;
        for (i, b) in stream.iter().enumerate() {
            let res = parser.print_char(&mut buf, 0, &mut caret, *b as char);
            match &res {
                Err(e) => {
                    println!("byte {i} ({:?}): the engine rejects the sequence: {e}", *b as char);
                    rejected_at = Some(i);
                }
                Ok(CallbackAction::ResizeTerminal(nw, nh)) => println!("byte {i} ({:?}) made the engine resize the text area to {nw}x{nh}", *b as char),
                _ => {}
            }
            let tw = buf.terminal_state.get_width();
            let th = buf.terminal_state.get_height();
            let first = (buf.get_height() - th).max(0);
            let p = caret.get_position();
            assert!(
                tw == w && th == h,
                "after byte {i} of {:?} the text area is {tw}x{th} instead of {w}x{h}: the control sequence was rejected at byte {rejected_at:?} and executed as a resize nevertheless; cursor {p:?}, visible rows {first}..{}",
                String::from_utf8_lossy(stream),
                first + th
            );
            assert!(
                (0..tw).contains(&p.x) && (first..first + th).contains(&p.y),
                "after byte {i} the cursor {p:?} is outside the {tw}x{th} screen (rows {first}..{})",
                first + th
            );
        }
    }
}
