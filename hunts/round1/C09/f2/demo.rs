use icy_engine::{ansi, Buffer, BufferParser, CallbackAction, Caret, TextPane};

/// `CSI ; 8 ; 1 ; 1 t` has FOUR parameters (the first one is empty = default 0). With four parameters
/// `CSI Ps;Pn1;Pn2;Pn3 t` is the CTerm "select a 24-bit colour" function (Ps=0: background := rgb(8,1,1)),
/// which the engine implements in `select_24bit_color`. It is not the three parameter window manipulation
/// `CSI 8;h;w t`, so the stream holds no text-area resize request.
#[test]
fn four_parameter_colour_select_with_empty_first_parameter_resizes_the_terminal() {
    let (w, h) = (80, 25);
    let mut buf = Buffer::new((w, h));
    buf.is_terminal_buffer = true;
    let mut caret = Caret::default();
    let mut parser = ansi::Parser::default();

    let stream = b"abc\x1b[;8;1;1t";
    for (i, b) in stream.iter().enumerate() {
        let res = parser.print_char(&mut buf, 0, &mut caret, *b as char);
        if let Ok(CallbackAction::ResizeTerminal(nw, nh)) = res {
            println!("byte {i} ({:?}) made the engine resize the text area to {nw}x{nh}", *b as char);
        }
        let tw = buf.terminal_state.get_width();
        let th = buf.terminal_state.get_height();
        let first = (buf.get_height() - th).max(0);
        let p = caret.get_position();
        assert!(
            tw == w && th == h,
            "after byte {i} of {:?} the text area is {tw}x{th} instead of {w}x{h}: the four parameter colour select CSI ;8;1;1 t was executed as the resize CSI 8;1;1 t (the empty first parameter was dropped); cursor {p:?}, visible rows {first}..{}",
            String::from_utf8_lossy(stream),
            first + th
        );
        assert!(
            (0..tw).contains(&p.x) && (first..first + th).contains(&p.y),
            "after byte {i} the cursor {p:?} is outside the {tw}x{th} screen (rows {first}..{})",
            first + th
        );
    }
}
