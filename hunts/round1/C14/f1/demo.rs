//! C14: a poll that delivers a finished image reports "nothing updated" when a later decode is still running.
use std::time::{Duration, Instant};

use icy_engine::{ansi, Buffer, BufferParser, Caret};

fn feed(buf: &mut Buffer, caret: &mut Caret, parser: &mut ansi::Parser, s: &str) {
    for ch in s.chars() {
        parser.print_char(buf, 0, caret, ch).unwrap();
    }
}

/// A short sequence whose decode is slow: every band is painted 40 times over its full width.
fn slow_image() -> String {
    let mut s = String::from("\x1BPq");
    for _ in 0..300 {
        for c in 0..40 {
            s.push_str(&format!("#{}!2048~$", c % 16));
        }
        s.push('-');
    }
    s.push_str("\x1B\\");
    s
}

#[test]
fn poll_reports_the_image_it_delivered() {
    let mut buf = Buffer::new((80, 25));
    buf.is_terminal_buffer = true;
    let mut caret = Caret::default();
    let mut parser = ansi::Parser::default();

    // image A: tiny, decodes at once.  image B: arrives later, decodes for a long time.
    feed(&mut buf, &mut caret, &mut parser, "\x1B[1;1H\x1BPq#1~~~~\x1B\\");
    feed(&mut buf, &mut caret, &mut parser, "\x1B[10;40H");
    feed(&mut buf, &mut caret, &mut parser, &slow_image());
    assert_eq!(buf.sixel_threads.len(), 2);

    let start = Instant::now();
    while !buf.sixel_threads[0].is_finished() {
        assert!(start.elapsed() < Duration::from_secs(30), "decode of the tiny image did not finish");
        std::thread::yield_now();
    }
    // schedule under test: A finished, B still decoding, one poll in between
    let b_running_before = !buf.sixel_threads[1].is_finished();
    let before = buf.layers[0].sixels.len();
    let updated = buf.update_sixel_threads().unwrap();
    let after = buf.layers[0].sixels.len();
    let b_running_after = buf.sixel_threads.len() == 1 && !buf.sixel_threads[0].is_finished();
    assert!(
        b_running_before && b_running_after,
        "precondition of the schedule not met (image B finished too early), rerun"
    );

    assert_eq!((before, after), (0, 1), "the poll must deliver image A");
    assert!(
        updated,
        "update_sixel_threads() put image A on the screen ({before} -> {after} sixels) but returned Ok(false) = 'nothing changed', \
         because image B was still decoding: the delivery of A is lost to the caller"
    );
}
