//! C14: loading a file with two overlapping sixel images stacks them in REVERSE arrival order.
use std::path::Path;

use icy_engine::{Buffer, Rectangle, TextPane};

#[test]
fn loaded_images_are_stacked_in_arrival_order() {
    // image A (red, 24x6 px) arrives first at column 0; image B (green, 24x6 px) arrives second at column 1.
    // B starts 8 px right of A, so neither covers the other completely: pixels 8..24 are shared.
    let file = "\x1B[1;1H\x1BPq#1;2;100;0;0#1!24~\x1B\\\x1B[1;2H\x1BPq#2;2;0;100;0#2!24~\x1B\\";
    let buf = Buffer::from_bytes(Path::new("two_sixels.ans"), false, file.as_bytes()).unwrap();

    // the loader turns every image into a layer of its own; collect (layer index, x offset, colour of the first pixel)
    let mut images = Vec::new();
    for (i, layer) in buf.layers.iter().enumerate() {
        for sixel in &layer.sixels {
            assert_eq!(sixel.picture_data.len() as i32, sixel.get_width() * sixel.get_height() * 4);
            images.push((i, layer.get_offset().x + sixel.position.x, sixel.picture_data[0..3].to_vec()));
        }
    }
    println!("image layers (index, column, rgb): {images:?}");
    assert_eq!(images.len(), 2, "both images must survive the load");

    // what is on the screen in the shared area? the image that arrived later (B, green) must be on top.
    let (size, pixels) = buf.render_to_rgba(Rectangle::from(0, 0, buf.get_width(), buf.get_height()));
    let px = |x: usize, y: usize| {
        let o = (y * size.width as usize + x) * 4;
        pixels[o..o + 3].to_vec()
    };
    assert_eq!(px(2, 0), vec![255, 0, 0], "left part shows only image A");
    assert_eq!(px(28, 0), vec![0, 255, 0], "right part shows only image B");

    let a = images.iter().find(|i| i.1 == 0).unwrap();
    let b = images.iter().find(|i| i.1 == 1).unwrap();
    assert!(
        a.0 < b.0 && px(12, 0) == vec![0, 255, 0],
        "images are stacked in reverse arrival order: image A (arrived 1st) is layer {}, image B (arrived 2nd) is layer {}; \
         the shared pixel (12,0) shows {:?} (the OLDER red image) instead of the newer green image [0, 255, 0]",
        a.0,
        b.0,
        px(12, 0)
    );
}
