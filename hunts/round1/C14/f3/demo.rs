//! C14: a raster attribute with three parameters ("Pan;Pad;Ph) declares a WIDTH, the decoder takes it as a height
//! and cuts the picture down to that many pixel rows.
use icy_engine::{Position, Sixel};

fn decode(payload: &str) -> Sixel {
    Sixel::parse_from(Position::default(), 1, 1, [0, 0, 0, 0], payload).unwrap()
}

#[test]
fn three_parameter_raster_attribute_declares_the_width() {
    // reference: the same data without raster attributes is 5 px wide and one band (6 px) high
    let plain = decode("#1~~~~~");
    assert_eq!((plain.get_width(), plain.get_height()), (5, 6));

    // DECGRA is  " Pan ; Pad ; Ph ; Pv  - Ph is the horizontal extent.  Here: aspect 1:1, Ph = 3, Pv omitted.
    // The declared width (3) is smaller than the data (5 columns); no height is declared at all.
    let img = decode("\"1;1;3#1~~~~~");
    assert_eq!(img.picture_data.len() as i32, img.get_width() * img.get_height() * 4);
    assert_eq!(
        (img.get_width(), img.get_height()),
        (5, 6),
        "'\"1;1;3' declares Ph (width) = 3 and no height, the data are 5 columns x 6 rows; \
         the decoder used the width as a height and dropped the lower pixel rows of the band"
    );
}

#[test]
fn three_parameter_raster_attribute_larger_than_the_data() {
    // Ph = 10 declared, one column of data: the picture must be at least 10 wide and exactly one band high
    let img = decode("\"1;1;10#1~");
    assert_eq!(
        (img.get_width(), img.get_height()),
        (10, 6),
        "'\"1;1;10' declares a width of 10 px; the decoder produced a picture 10 px HIGH and 1 px wide"
    );
}
