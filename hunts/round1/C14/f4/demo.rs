//! C14: a raster attribute that declares a size SMALLER than the data is honoured on one axis only:
//! rows below the declared height are cut off, columns right of the declared width are kept.
use icy_engine::{Position, Sixel};

fn decode(payload: &str) -> Sixel {
    Sixel::parse_from(Position::default(), 1, 1, [0, 0, 0, 0], payload).unwrap()
}

#[test]
fn declared_size_smaller_than_the_data_is_applied_to_both_axes_or_to_none() {
    // data: 4 columns x 1 band = 4 x 6 pixels, all set.  declared raster size: 2 x 2.
    let img = decode("\"1;1;2;2#1~~~~");
    let (w, h) = (img.get_width(), img.get_height());
    assert_eq!(img.picture_data.len() as i32, w * h * 4);
    let declared = (2, 2); // the raster attribute clips the picture
    let data = (4, 6); // the raster attribute is only a hint, the data extend the picture (DEC / xterm behaviour)
    assert!(
        (w, h) == declared || (w, h) == data,
        "declared 2x2, data 4x6: the decoded picture is {w}x{h} - wider than declared AND lower than the data; \
         the declared height cut off 4 pixel rows that were sent, the declared width was ignored"
    );
}

#[test]
fn a_zero_raster_size_does_not_swallow_the_picture() {
    // '"1;1;0;0' (or '"1;1;;'): no usable size declared.  3 columns x 6 rows of pixels follow.
    let img = decode("\"1;1;0;0#1~~~");
    assert_eq!(
        (img.get_width(), img.get_height()),
        (3, 6),
        "a raster attribute with Pv = 0 makes the decoder drop every pixel of the picture"
    );
}
