// C16 - CSI Ps;R;G;B t (CTerm 24 bit colour): a component > 255 is silently wrapped (as u8),
// a colour the sequence never named is added to the palette and used for the text.
// CSI 38;2;R;G;B m rejects the same values.
use icy_engine::{ansi, Buffer, BufferParser, Caret, TextPane};

fn feed(buf: &mut Buffer, s: &str) -> usize {
    let mut parser = ansi::Parser::default();
    let mut caret = Caret::default();
    let mut errors = 0;
    for ch in s.chars() {
        if parser.print_char(buf, 0, &mut caret, ch).is_err() {
            errors += 1;
        }
    }
    errors
}

#[test]
fn ct24bc_does_not_invent_colours() {
    // in range: the index resolves to exactly the requested colour
    let mut buf = Buffer::new((80, 25));
    feed(&mut buf, "\x1b[1;200;100;50tX");
    let fg = buf.get_char((0, 0)).attribute.get_foreground();
    assert_eq!(buf.palette.get_rgb(fg), (200, 100, 50));

    // SGR 38;2 with an out of range component: rejected, palette unchanged
    let mut buf = Buffer::new((80, 25));
    let errors = feed(&mut buf, "\x1b[38;2;300;256;511mX");
    assert_eq!((errors, buf.palette.len()), (1, 16), "SGR 38;2 rejects out of range components");

    // CT24BC with the same components
    let mut buf = Buffer::new((80, 25));
    let errors = feed(&mut buf, "\x1b[1;300;256;511tX");
    let fg = buf.get_char((0, 0)).attribute.get_foreground();
    assert!(
        errors == 1 && buf.palette.len() == 16,
        "CSI 1;300;256;511 t was accepted ({errors} errors): the palette grew to {} entries, the new index {fg} resolves to {:?} \
         - a colour that is not the requested one (300,256,511 is not a colour) and was never asked for",
        buf.palette.len(),
        buf.palette.get_rgb(fg)
    );
}
