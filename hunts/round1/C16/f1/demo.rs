// C16 - palette files round-trip: a line break in title / author / description / colour name
// is written verbatim by export_palette and read back as extra colour lines by load_palette.
use icy_engine::{Color, Palette, PaletteFormat};

fn rgbs(p: &Palette) -> Vec<(u8, u8, u8)> {
    p.color_iter().map(|c| c.get_rgb()).collect()
}

fn check(what: &str, fmt: PaletteFormat, p: &Palette, failures: &mut Vec<String>) {
    let bytes = p.export_palette(&fmt);
    match Palette::load_palette(&fmt, &bytes) {
        Ok(q) => {
            if rgbs(p) != rgbs(&q) {
                failures.push(format!("{what}: exported {:?}, imported {:?}", rgbs(p), rgbs(&q)));
            }
        }
        Err(e) => failures.push(format!("{what}: the exported file cannot be imported at all: {e}")),
    }
}

#[test]
fn text_palette_formats_round_trip_with_multi_line_metadata() {
    let mut failures = Vec::new();
    let colors = [Color::new(1, 2, 3), Color::new(4, 5, 6)];

    // a two line title ("Sunset" / "20 30 40 is the key colour")
    let mut p = Palette::from_slice(&colors);
    p.title = "Sunset\n20 30 40 is the key colour".to_string();
    check("GPL, two line title", PaletteFormat::Gpl, &p, &mut failures);

    // a two line description; GPL repeats the description on every colour line
    let mut p = Palette::from_slice(&colors);
    p.description = "made 2024\n10 11 12".to_string();
    check("GPL, two line description", PaletteFormat::Gpl, &p, &mut failures);

    // the injected line can also make the whole file unreadable
    let mut p = Palette::from_slice(&colors);
    p.description = "x\n99999999999 0 0".to_string();
    check("GPL, two line description with a long number", PaletteFormat::Gpl, &p, &mut failures);

    let mut p = Palette::from_slice(&colors);
    p.author = "me\ncafe01 is my favourite".to_string();
    check("ICE, two line author", PaletteFormat::Ice, &p, &mut failures);

    let mut named = Color::new(1, 2, 3);
    named.name = Some("first\nabcdef".to_string());
    let p = Palette::from_slice(&[named, Color::new(4, 5, 6)]);
    check("ICE, two line colour name", PaletteFormat::Ice, &p, &mut failures);

    let mut p = Palette::from_slice(&colors);
    p.title = "t\nFF0a0b0c".to_string();
    check("TXT, two line title", PaletteFormat::Txt, &p, &mut failures);

    // even an empty palette comes back non-empty
    let mut p = Palette::from_slice(&[]);
    p.description = "a\ndeadbeef".to_string();
    check("TXT, empty palette with a two line description", PaletteFormat::Txt, &p, &mut failures);

    assert!(
        failures.is_empty(),
        "export_palette + load_palette did not reproduce the RGB sequence:\n  {}",
        failures.join("\n  ")
    );
}
