// C16 - an OSC 4 palette sequence WITHOUT a colour index must not change any palette entry.
// The regex in osc.rs takes the OSC command number "4" itself as the colour index.
use icy_engine::{ansi, Buffer, BufferParser, Caret, Palette};

fn rgbs(p: &Palette) -> Vec<(u8, u8, u8)> {
    p.color_iter().map(|c| c.get_rgb()).collect()
}

fn feed(buf: &mut Buffer, s: &str) {
    let mut parser = ansi::Parser::default();
    let mut caret = Caret::default();
    for ch in s.chars() {
        let _ = parser.print_char(buf, 0, &mut caret, ch);
    }
}

#[test]
fn osc4_without_index_leaves_the_palette_alone() {
    // reference: a well formed sequence changes exactly the named index
    let mut buf = Buffer::new((80, 25));
    feed(&mut buf, "\x1b]4;1;rgb:12/34/56\x1b\\");
    assert_eq!(buf.palette.get_rgb(1), (0x12, 0x34, 0x56));

    // the index is missing: "OSC 4 ; rgb:12/34/56 ST".  osc.rs has a branch for that
    // ("Missing color index in OSC palette sequence"), it is supposed to be skipped.
    let mut buf = Buffer::new((80, 25));
    let before = rgbs(&buf.palette);
    feed(&mut buf, "\x1b]4;rgb:12/34/56\x1b\\");
    let after = rgbs(&buf.palette);
    let changed: Vec<String> = (0..before.len().max(after.len()))
        .filter(|i| before.get(*i) != after.get(*i))
        .map(|i| format!("index {i}: {:?} -> {:?}", before.get(i), after.get(i)))
        .collect();
    assert!(
        changed.is_empty(),
        "OSC 4 without a colour index changed previously valid palette entries: {}",
        changed.join(", ")
    );
}
