// C16 - the index the ANSI parser gets back from Palette::insert_color_rgb must keep resolving to that RGB.
// The Tundra writer resolves the foreground as palette[fg + 8] for EVERY bold cell, also when fg >= 8
// (render_to_rgba only does that for fg < 8), so bold true colour / bold high intensity text is saved as black.
use icy_engine::{ansi, Buffer, BufferParser, Caret, Rectangle, SaveOptions, TextPane};

fn feed(buf: &mut Buffer, s: &str) {
    let mut parser = ansi::Parser::default();
    let mut caret = Caret::default();
    for ch in s.chars() {
        parser.print_char(buf, 0, &mut caret, ch).unwrap();
    }
}

/// the colour of the first set pixel of the glyph at (x, 0), as the engine itself renders it
fn rendered_fg(buf: &Buffer, x: i32) -> (u8, u8, u8) {
    let (size, px) = buf.render_to_rgba(Rectangle::from(x, 0, 1, 1));
    let bg = (px[0], px[1], px[2]);
    for i in 0..(size.width * size.height) as usize {
        let p = (px[i * 4], px[i * 4 + 1], px[i * 4 + 2]);
        if p != bg {
            return p;
        }
    }
    bg
}

#[test]
fn tundra_keeps_the_colour_of_bold_text() {
    let mut buf = Buffer::new((80, 25));
    // bold + 24 bit foreground, then bold + high intensity red
    feed(&mut buf, "\x1b[1;38;2;10;20;30mX\x1b[0;1;91mY");

    let x = buf.get_char((0, 0)).attribute;
    let y = buf.get_char((1, 0)).attribute;
    assert_eq!(buf.palette.get_rgb(x.get_foreground()), (10, 20, 30), "index returned by insert_color_rgb");
    assert_eq!(buf.palette.get_rgb(y.get_foreground()), (255, 85, 85));
    assert_eq!(rendered_fg(&buf, 0), (10, 20, 30), "render_to_rgba agrees");
    assert_eq!(rendered_fg(&buf, 1), (255, 85, 85), "render_to_rgba agrees");

    let bytes = buf.to_bytes("tnd", &SaveOptions::default()).unwrap();
    let loaded = Buffer::from_bytes(std::path::Path::new("a.tnd"), true, &bytes).unwrap();
    let lx = loaded.palette.get_rgb(loaded.get_char((0, 0)).attribute.get_foreground());
    let ly = loaded.palette.get_rgb(loaded.get_char((1, 0)).attribute.get_foreground());
    assert_eq!(
        (lx, ly),
        ((10, 20, 30), (255, 85, 85)),
        "the 24 bit colours stored in the .tnd file are not the colours of the cells \
         (the writer looked up palette[fg + 8], which is out of range and reads as black)"
    );
}
