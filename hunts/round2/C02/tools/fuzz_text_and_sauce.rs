use icy_engine::*;
use std::panic::{catch_unwind, AssertUnwindSafe};
use std::path::PathBuf;

struct Rng(u64);
impl Rng {
    fn next(&mut self) -> u64 { self.0 ^= self.0 << 13; self.0 ^= self.0 >> 7; self.0 ^= self.0 << 17; self.0 }
    fn below(&mut self, n: usize) -> usize { (self.next() % n as u64) as usize }
    fn byte(&mut self) -> u8 { (self.next() >> 24) as u8 }
}

const EXTS: &[&str] = &["ans","ice","diz","icy","idf","bin","xb","tnd","pcb","avt","asc","adf","msg","an1","seq","ata","foo",""];

fn sauce(rng: &mut Rng, ncomments: u8, ok_comments: bool) -> Vec<u8> {
    let mut v = Vec::new();
    v.push(0x1A);
    if ncomments > 0 && ok_comments {
        v.extend(b"COMNT");
        for _ in 0..ncomments as usize * 64 { v.push(rng.byte()); }
    }
    v.extend(b"SAUCE00");
    for _ in 0..75 { v.push(if rng.below(3)==0 {rng.byte()} else {b' '}); }
    let dates: [&[u8];4] = [b"20200101", b"19991231", b"00000000", b"99999999"];
    if rng.below(4) == 0 { for _ in 0..8 { v.push(rng.byte()); } } else { v.extend(dates[rng.below(2)]); }
    for _ in 0..4 { v.push(rng.byte()); }
    let dt = [0u8,1,1,1,5,6,2,9][rng.below(8)];
    v.push(dt);
    v.push(if rng.below(2)==0 { rng.below(10) as u8 } else { rng.byte() });
    let extremes = [0u16,1,2,3,80,81,160,255,256,1000,1001,1,2,0,1,3];
    for _ in 0..2 { let x = if rng.below(4)==0 { (rng.next() as u16) % 300 } else { extremes[rng.below(extremes.len())] }; v.extend(x.to_le_bytes()); }
    for _ in 0..4 { v.push(rng.byte()); }
    v.push(ncomments);
    v.push(rng.byte());
    let fonts: [&[u8];8] = [b"IBM VGA", b"IBM VGA50", b"IBM EGA43", b"Amiga Topaz 1", b"C64 PETSCII unshifted", b"Atari ATASCII", b"IBM VGA25G", b"IBM VGA 437"];
    let mut f = if rng.below(3)==0 { (0..22).map(|_| rng.byte()).collect::<Vec<u8>>() } else { fonts[rng.below(fonts.len())].to_vec() };
    f.resize(22, 0);
    v.extend(f);
    v
}

fn text_body(rng: &mut Rng, n: usize) -> Vec<u8> {
    let mut v = Vec::new();
    let finals = b"ABCDEFGHJKLMPSTXZ@`abcdefghlmnpqrstu|~ ";
    while v.len() < n {
        match rng.below(12) {
            0 => { v.extend(b"\x1b["); 
                   if rng.below(5)==0 { v.push(b"?=!<>"[rng.below(5)]); }
                   let np = rng.below(5);
                   for i in 0..np { if i>0 {v.push(b';');} let x = [0usize,1,2,25,80,255,256,9999,65535,2147483647,4294967295][rng.below(11)]; v.extend(x.to_string().bytes()); }
                   if rng.below(6)==0 { v.push(b" $*'"[rng.below(4)]); }
                   v.push(finals[rng.below(finals.len())]); }
            1 => { v.push(rng.byte()); }
            2 => { v.push(b"\r\n\t\x08\x0c\x07\x1b\x19\x16\x01@|^"[rng.below(13)]); }
            3 => { v.extend(b"\x1bP"); for _ in 0..rng.below(20) { v.push(b"0123456789;q#!-$?~@ABz\"|pm"[rng.below(26)]); } if rng.below(3)>0 { v.extend(b"\x1b\\"); } }
            4 => { v.push(0x16); v.push(rng.below(30) as u8); for _ in 0..rng.below(4) { v.push(rng.byte()); } }
            5 => { v.push(0x19); v.push(rng.byte()); v.push(rng.byte()); }
            6 => { v.extend(b"@X"); v.push(b"0123456789ABCDEFGz"[rng.below(18)]); v.push(b"0123456789ABCDEFGz"[rng.below(18)]); }
            7 => { v.push(1); v.push(rng.byte()); }
            8 => { v.push(b'|'); v.push(b"0123456789"[rng.below(10)]); v.push(b"0123456789"[rng.below(10)]); }
            9 => { v.extend(b"\x1b]"); for _ in 0..rng.below(12) { v.push(b"0123456789;#rgb:/af?"[rng.below(20)]); } v.extend(if rng.below(2)==0 { &b"\x07"[..] } else { &b"\x1b\\"[..] }); }
            10 => { v.push(0x1b); v.push(rng.byte()); }
            _ => { for _ in 0..rng.below(100) { v.push(b'a' + rng.below(26) as u8); } }
        }
    }
    v
}

fn try_load(ext: &str, data: &[u8], fails: &mut Vec<String>, tag: &str) {
    let name = if ext.is_empty() { PathBuf::from("test") } else { PathBuf::from(format!("test.{ext}")) };
    let t = std::time::Instant::now();
    let r = catch_unwind(AssertUnwindSafe(|| { let _ = Buffer::from_bytes(&name, true, data); }));
    let el = t.elapsed();
    if r.is_err() || el.as_secs_f32() > 3.0 {
        let hex: String = data.iter().take(400).map(|b| format!("{b:02x}")).collect();
        fails.push(format!("{tag} ext={ext} panic={} t={:?} len={} data={hex}", r.is_err(), el, data.len()));
    }
}

#[test]
fn fuzz_text() {
    let mut fails = Vec::new();
    let seed: u64 = std::env::var("SEED").ok().and_then(|s| s.parse().ok()).unwrap_or(1);
    let iters: usize = std::env::var("ITERS").ok().and_then(|s| s.parse().ok()).unwrap_or(3000);
    let mut rng = Rng(0x9E3779B97F4A7C15 ^ seed.wrapping_mul(0x1234567));
    for i in 0..iters {
        let n = rng.below(300);
        let mut d = if rng.below(3)==0 { (0..n).map(|_| rng.byte()).collect() } else { text_body(&mut rng, n) };
        if rng.below(3) > 0 { let nc = if rng.below(2)==0 {0} else {rng.below(4) as u8}; let okc = rng.below(5)>0; d.extend(sauce(&mut rng, nc, okc)); }
        let ext = EXTS[rng.below(EXTS.len())];
        if ext == "icy" { continue; }
        try_load(ext, &d, &mut fails, &format!("i={i}"));
        if fails.len() > 15 { break; }
    }
    for f in &fails { println!("{f}"); }
    assert!(fails.is_empty(), "{} failures", fails.len());
}
