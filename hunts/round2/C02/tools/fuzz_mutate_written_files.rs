use icy_engine::*;
use base64::{engine::general_purpose, Engine};
use std::panic::{catch_unwind, AssertUnwindSafe};
use std::path::PathBuf;

struct Rng(u64);
impl Rng {
    fn next(&mut self) -> u64 { self.0 ^= self.0 << 13; self.0 ^= self.0 >> 7; self.0 ^= self.0 << 17; self.0 }
    fn below(&mut self, n: usize) -> usize { (self.next() % n.max(1) as u64) as usize }
    fn byte(&mut self) -> u8 { (self.next() >> 24) as u8 }
}

fn try_load(ext: &str, data: &[u8], fails: &mut Vec<String>, tag: &str) {
    let name = PathBuf::from(format!("test.{ext}"));
    let t = std::time::Instant::now();
    let r = catch_unwind(AssertUnwindSafe(|| { let _ = Buffer::from_bytes(&name, true, data); }));
    let el = t.elapsed();
    if r.is_err() || el.as_secs_f32() > 3.0 {
        let hex: String = data.iter().take(300).map(|b| format!("{b:02x}")).collect();
        fails.push(format!("{tag} ext={ext} panic={} t={:?} len={} data={hex}", r.is_err(), el, data.len()));
    }
}

fn sample_buffers() -> Vec<Buffer> {
    let mut v = Vec::new();
    let mut b = Buffer::new((80, 25));
    for y in 0..5 { for x in 0..80 { b.layers[0].set_char((x, y), AttributedChar::new((b'A' + ((x + y) % 26) as u8) as char, TextAttribute::from_u8(((x * 3 + y) % 256) as u8, IceMode::Blink))); } }
    v.push(b.flat_clone(true));
    // runs
    let mut b2 = Buffer::new((80, 25));
    for y in 0..25 { for x in 0..80 { b2.layers[0].set_char((x, y), AttributedChar::new(if x < 40 { 'X' } else { (b'0' + (x % 10) as u8) as char }, TextAttribute::from_u8(if y % 2 == 0 { 0x1f } else { (x % 256) as u8 }, IceMode::Blink))); } }
    b2.ice_mode = IceMode::Ice;
    b2.palette.set_color(3, Color::new(1, 2, 3));
    b2.set_font(0, BitFont::from_ansi_font_page(5).unwrap());
    v.push(b2.flat_clone(true));
    // two fonts + layers
    let mut b3 = b.flat_clone(true);
    b3.set_font(1, BitFont::from_ansi_font_page(7).unwrap());
    let mut ch = AttributedChar::new('Z', TextAttribute::default()); ch.set_font_page(1);
    b3.layers[0].set_char((3, 3), ch);
    let mut l = Layer::new("two", (10, 4));
    l.set_offset((2, 2));
    l.properties.has_alpha_channel = true;
    l.set_char((1, 1), AttributedChar::new('\u{2588}', TextAttribute::default()));
    b3.layers.push(l);
    let mut il = Layer::new("img", (2, 1));
    il.role = Role::Image;
    il.sixels.push(Sixel::from_data((4, 4), 1, 1, vec![0x7f; 64]));
    b3.layers.push(il);
    v.push(b3);
    v
}

fn write_all(bufs: &[Buffer]) -> Vec<(String, Vec<u8>)> {
    let mut out = Vec::new();
    for (bi, b) in bufs.iter().enumerate() {
        for ext in ["ans","icy","idf","bin","xb","tnd","pcb","avt","asc","adf","msg","an1","seq","ata"] {
            for compress in [false, true] { for sauce in [false, true] {
                let mut o = SaveOptions::new(); o.compress = compress; o.save_sauce = sauce;
                let mut bb = b.flat_clone(true);
                if sauce { let mut s = SauceData::default(); s.title = SauceString::from("t"); s.comments.push(SauceString::from("c1")); s.comments.push(SauceString::from("c2")); bb.set_sauce(Some(s), false); }
                let r = catch_unwind(AssertUnwindSafe(|| bb.to_bytes(ext, &o)));
                if let Ok(Ok(bytes)) = r { out.push((format!("{ext}#{bi}c{compress}s{sauce}"), bytes)); }
            }}
        }
    }
    out
}

#[test]
fn mutate_written_files() {
    let seed: u64 = std::env::var("SEED").ok().and_then(|s| s.parse().ok()).unwrap_or(1);
    let mut rng = Rng(0x9E3779B97F4A7C15 ^ seed.wrapping_mul(0x1234567));
    let mut fails = Vec::new();
    let files = write_all(&sample_buffers());
    println!("{} files", files.len());
    for (tag, bytes) in &files {
        let ext = tag.split('#').next().unwrap();
        try_load(ext, bytes, &mut fails, &format!("{tag} orig"));
        // truncations
        let n = bytes.len();
        let step = (n / 400).max(1);
        let mut i = 0; while i < n { try_load(ext, &bytes[..i], &mut fails, &format!("{tag} trunc{i}")); i += if i < 300 || i + 300 > n { 1 } else { step }; }
        // truncation but keep tail 129/ comments
        if tag.ends_with("strue") { for cut in [1usize, 2, 5, 64, 128, 129, 130, 134, 200, 262] { if n > cut + 129 { let mut d = bytes[..n - 129 - cut.min(n-129)].to_vec(); d.extend(&bytes[n-129..]); try_load(ext, &d, &mut fails, &format!("{tag} midcut{cut}")); } } }
        // single byte corruption
        let limit = if ext == "icy" { 0 } else { n.min(400) };
        for p in 0..limit { for v in [0u8, 1, 2, 0x7f, 0x80, 0xfe, 0xff] { let mut d = bytes.clone(); d[p] = v; try_load(ext, &d, &mut fails, &format!("{tag} set{p}={v}")); } }
        // tail corruption (sauce)
        if ext != "icy" { for p in n.saturating_sub(140)..n { for v in [0u8, 1, 5, 6, 0xff] { let mut d = bytes.clone(); d[p] = v; try_load(ext, &d, &mut fails, &format!("{tag} tset{p}={v}")); } } }
        // random multi
        for k in 0..300 { let mut d = bytes.clone(); for _ in 0..1 + rng.below(6) { let p = rng.below(n); d[p] = if rng.below(2) == 0 { rng.byte() } else { [0u8, 0xff, 0x80, 1][rng.below(4)] }; } if rng.below(4) == 0 { let c = rng.below(n); d.truncate(c); } try_load(ext, &d, &mut fails, &format!("{tag} rnd{k}")); }
        if fails.len() > 20 { break; }
    }
    for f in &fails { println!("{f}"); }
    assert!(fails.is_empty(), "{} failures", fails.len());
}

fn icy_chunks(bytes: &[u8]) -> Vec<(String, Vec<u8>)> {
    let mut decoder = png::StreamingDecoder::new();
    let mut len = 0;
    while len < bytes.len() { match decoder.update(&bytes[len..], &mut Vec::new()) { Ok((b, _)) => len += b, Err(_) => break } }
    let mut out = Vec::new();
    if let Some(info) = decoder.info() { for c in &info.compressed_latin1_text { if let Ok(t) = c.get_text() { if let Ok(d) = general_purpose::STANDARD.decode(t) { out.push((c.keyword.clone(), d)); } } } }
    out
}

fn build_icy(chunks: &[(String, Vec<u8>)]) -> Vec<u8> {
    let mut result = Vec::new();
    {
        let mut enc = png::Encoder::new(&mut result, 1, 1);
        enc.set_color(png::ColorType::Rgba); enc.set_depth(png::BitDepth::Eight);
        for (k, d) in chunks { enc.add_ztxt_chunk(k.clone(), general_purpose::STANDARD.encode(d)).unwrap(); }
        let mut w = enc.write_header().unwrap();
        w.write_image_data(&[0, 0, 0, 0]).unwrap();
        w.finish().unwrap();
    }
    result
}

#[test]
fn mutate_icy_chunks() {
    let seed: u64 = std::env::var("SEED").ok().and_then(|s| s.parse().ok()).unwrap_or(1);
    let iters: usize = std::env::var("ITERS").ok().and_then(|s| s.parse().ok()).unwrap_or(3000);
    let mut rng = Rng(0x9E3779B97F4A7C15 ^ seed.wrapping_mul(0x7654321));
    let mut fails = Vec::new();
    let bufs = sample_buffers();
    let mut sets = Vec::new();
    for b in &bufs { let bytes = b.to_bytes("icy", &SaveOptions::new()).unwrap(); let c = icy_chunks(&bytes); println!("chunks: {:?}", c.iter().map(|(k, d)| (k.clone(), d.len())).collect::<Vec<_>>()); sets.push(c); }
    for it in 0..iters {
        let mut chunks = sets[rng.below(sets.len())].clone();
        chunks.retain(|(k, _)| !k.starts_with("FONT_") || false);
        let nm = 1 + rng.below(4);
        for _ in 0..nm {
            let ci = rng.below(chunks.len());
            match rng.below(10) {
                0 => { let c = chunks[ci].clone(); chunks.push(c); }
                1 => { chunks.remove(ci); if chunks.is_empty() { chunks.push(("ICED".into(), vec![0; 21])); } }
                2 => { let l = chunks[ci].1.len(); let c = rng.below(l + 1); chunks[ci].1.truncate(c); }
                3 => { let names = ["LAYER_0~1", "LAYER_1~1", "LAYER_2~1", "LAYER_0", "LAYER_99~0", "FONT_0", "FONT_x", "SAUCE", "PALETTE", "ICED", "END", "LAYER_", "LAYER_18446744073709551616~1"]; chunks[ci].0 = names[rng.below(names.len())].to_string(); }
                4 => { let j = rng.below(chunks.len()); chunks.swap(ci, j); }
                _ => { let l = chunks[ci].1.len(); if l > 0 { for _ in 0..1 + rng.below(4) { let p = if rng.below(2) == 0 { rng.below(l.min(60)) } else { rng.below(l) }; chunks[ci].1[p] = if rng.below(2) == 0 { rng.byte() } else { [0u8, 0xff, 0x80, 1, 0x7f][rng.below(5)] }; } } }
            }
        }
        let file = build_icy(&chunks);
        try_load("icy", &file, &mut fails, &format!("icy it={it} chunks={:?}", chunks.iter().map(|(k, d)| format!("{k}:{}", d.iter().take(80).map(|b| format!("{b:02x}")).collect::<String>())).collect::<Vec<_>>()));
        if fails.len() > 8 { break; }
    }
    for f in &fails { println!("{f}"); }
    assert!(fails.is_empty(), "{} failures", fails.len());
}
