//! C02 / f1: a 136 byte .ans file (ED "erase below" + SAUCE record that declares 1000 x 65535)
//! makes the loader allocate ~2 GiB: the SAUCE height decides how many rows `CSI J` fills.
use icy_engine::{Buffer, TextPane};
use std::alloc::{GlobalAlloc, Layout, System};
use std::path::PathBuf;
use std::sync::atomic::{AtomicUsize, Ordering::SeqCst};

struct Counting;
static CUR: AtomicUsize = AtomicUsize::new(0);
static PEAK: AtomicUsize = AtomicUsize::new(0);
/// what a loader may reasonably take for a file of ~130 bytes; a host (container, 32 bit target) that does not have
/// the 2 GiB the loader asks for aborts the process (Rust aborts on allocation failure, that is no `Err`)
const BUDGET: usize = 512 * 1024 * 1024;

unsafe impl GlobalAlloc for Counting {
    unsafe fn alloc(&self, l: Layout) -> *mut u8 {
        let p = System.alloc(l);
        if !p.is_null() {
            let c = CUR.fetch_add(l.size(), SeqCst) + l.size();
            PEAK.fetch_max(c, SeqCst);
        }
        p
    }
    unsafe fn dealloc(&self, p: *mut u8, l: Layout) {
        CUR.fetch_sub(l.size(), SeqCst);
        System.dealloc(p, l);
    }
}
#[global_allocator]
static A: Counting = Counting;

fn sauce(width: u16, height: u16) -> Vec<u8> {
    let mut v = vec![0x1A];
    v.extend(b"SAUCE00");
    v.extend([b' '; 75]); // title, author, group
    v.extend(b"20200101");
    v.extend(3u32.to_le_bytes()); // file size
    v.push(1); // Character
    v.push(1); // ANSi
    v.extend(width.to_le_bytes());
    v.extend(height.to_le_bytes());
    v.extend([0u8; 4]);
    v.push(0); // comments
    v.push(0); // flags
    v.extend([0u8; 22]);
    assert_eq!(v.len(), 129);
    v
}

#[test]
fn erase_below_with_sauce_height() {
    // baseline: the content alone
    let before = PEAK.load(SeqCst);
    let plain = Buffer::from_bytes(&PathBuf::from("a.ans"), true, b"\x1b[J").unwrap();
    let plain_peak = PEAK.load(SeqCst) - before.min(PEAK.load(SeqCst));
    println!("without SAUCE: {} lines, peak {} bytes", plain.get_line_count(), plain_peak);

    let mut file = b"\x1b[J".to_vec();
    file.extend(sauce(1000, 65535));
    println!("file length: {} bytes", file.len());
    let t = std::time::Instant::now();
    let res = Buffer::from_bytes(&PathBuf::from("a.ans"), true, &file);
    let peak = PEAK.load(SeqCst);
    let lines = res.as_ref().map(|b| b.get_line_count()).unwrap_or(-1);
    drop(res);
    println!("with SAUCE 1000x65535: {} lines, peak {} MiB, {:?}", lines, peak / (1024 * 1024), t.elapsed());
    assert!(
        peak <= BUDGET,
        "loading a {} byte .ans file allocated {} MiB (budget {} MiB): the height declared by the SAUCE record decides how many rows CSI J fills - on a host without that memory the loader aborts",
        file.len(), peak / (1024 * 1024), BUDGET / (1024 * 1024)
    );
}

/// the same root cause through the PETSCII parser: one "switch to lower case" byte (0x8E) rewrites every cell of the
/// declared 1000 x 65535 rectangle (`petscii::Parser::update_shift_mode` loops over `buf.get_height()`)
#[test]
fn seq_shift_mode_with_sauce_height() {
    let mut file = vec![0x8Eu8];
    file.extend(sauce(1000, 65535));
    let start = CUR.load(SeqCst);
    PEAK.store(start, SeqCst);
    let t = std::time::Instant::now();
    let res = Buffer::from_bytes(&PathBuf::from("a.seq"), true, &file);
    let peak = PEAK.load(SeqCst).saturating_sub(start);
    drop(res);
    println!("seq with SAUCE 1000x65535: peak {} MiB, {:?}", peak / (1024 * 1024), t.elapsed());
    assert!(
        peak <= BUDGET,
        "loading a {} byte .seq file allocated {} MiB (budget {} MiB): one shift-mode byte rewrites the whole rectangle the SAUCE record declares",
        file.len(), peak / (1024 * 1024), BUDGET / (1024 * 1024)
    );
}
