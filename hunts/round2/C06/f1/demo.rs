//! C06: a picture whose last 64 cells spell a SAUCE record in the raw (uncompressed) image data.
//! The file is saved WITHOUT a SAUCE record. The compressed encoding loads completely, the uncompressed
//! encoding loses its last row (and more): the tail of the image data is cut off as "SAUCE" before the XBin
//! loader looks at the width and height of the header.
use icy_engine::{AttributedChar, Buffer, IceMode, SaveOptions, TextAttribute, TextPane};
use std::path::Path;

fn fake_sauce() -> Vec<u8> {
    let mut v = Vec::new();
    v.extend_from_slice(b"SAUCE00");
    v.extend(std::iter::repeat(b'x').take(35 + 20 + 20)); // title, author, group
    v.extend_from_slice(b"19990101"); // date
    v.extend_from_slice(&[b'x'; 4]); // file size
    v.push(b'x'); // data type
    v.push(b'x'); // file type
    v.extend_from_slice(&[b'x'; 8]); // tinfo 1-4
    v.push(0); // number of comments
    v.push(b'x'); // flags
    v.extend_from_slice(&[b'x'; 22]);
    assert_eq!(v.len(), 128);
    v
}

#[test]
fn image_data_that_ends_like_a_sauce_record() {
    let w = 64;
    let h = 2;
    let mut buf = Buffer::new((w, h));
    buf.ice_mode = IceMode::Ice;
    let tail = fake_sauce();
    for x in 0..w {
        buf.layers[0].set_char((x, 0), AttributedChar::new('a', TextAttribute::from_u8(0x1F, IceMode::Ice)));
        let ch = tail[2 * x as usize];
        let attr = tail[2 * x as usize + 1];
        buf.layers[0].set_char((x, 1), AttributedChar::new(ch as char, TextAttribute::from_u8(attr, IceMode::Ice)));
    }

    let mut opt = SaveOptions::default();
    opt.save_sauce = false;
    opt.lossles_output = true;
    opt.compress = false;
    let raw = buf.to_bytes("xb", &opt).unwrap();
    opt.compress = true;
    let packed = buf.to_bytes("xb", &opt).unwrap();
    // both are plain XBin files: header + image data, nothing else
    assert_eq!(raw.len(), 11 + (w * h * 2) as usize);

    let l_packed = Buffer::from_bytes(Path::new("a.xb"), false, &packed).unwrap();
    let l_raw = Buffer::from_bytes(Path::new("a.xb"), false, &raw).unwrap();
    assert!(l_packed.get_sauce().is_none());

    for y in 0..h {
        for x in 0..w {
            let o = buf.get_char((x, y));
            let p = l_packed.get_char((x, y));
            assert!(o == p, "compressed encoding: cell {x},{y} is {p:?}, expected {o:?}");
        }
    }
    for y in 0..h {
        for x in 0..w {
            let p = l_packed.get_char((x, y));
            let r = l_raw.get_char((x, y));
            assert!(
                p == r,
                "cell {x},{y}: the compressed encoding decodes to {p:?}, the uncompressed encoding of the same buffer decodes to {r:?} (loader took the last image row for a SAUCE record: {})",
                l_raw.get_sauce().is_some()
            );
        }
    }
    assert!(l_raw.get_sauce().is_none(), "the uncompressed file has no SAUCE record, but the loader found one in the image data");
}
