//! C04 - a canvas that is larger than its (only) layer: the cells outside the layer are written as blanks in whatever
//! colours the writer used last (lossless output, i.e. without the flattening copy the colour optimiser makes).
use icy_engine::{editor::EditState, AttributedChar, Buffer, SaveOptions, TextAttribute, TextPane};
use std::path::Path;

#[test]
fn cells_outside_the_layer_take_the_colours_of_the_cell_before() {
    // one row of 'A' on blue ...
    let mut buf = Buffer::new((80, 1));
    for x in 0..80 {
        buf.layers[0].set_char((x, 0), AttributedChar::new('A', TextAttribute::new(7, 1)));
    }
    // ... and the canvas is made one row higher without resizing the layer (editor: "set canvas size")
    let mut state = EditState::from_buffer(buf);
    state.resize_buffer(false, (80, 2)).unwrap();
    let buf = state.get_buffer();
    assert_eq!((80, 2), (buf.get_width(), buf.get_height()));
    assert_eq!(1, buf.layers.len());

    // the new row shows nothing: black background
    let shown = buf.get_char((0, 1));
    assert_eq!((0, 0, 0), buf.palette.get_rgb(shown.attribute.get_background()));

    let mut opt = SaveOptions::new();
    opt.lossles_output = true;
    let bytes = buf.to_bytes("ans", &opt).unwrap();
    let loaded = Buffer::from_bytes(Path::new("test.ans"), true, &bytes).unwrap();
    assert_eq!(2, loaded.get_height());

    let back = loaded.get_char((0, 1));
    assert_eq!(
        buf.palette.get_rgb(shown.attribute.get_background()),
        loaded.palette.get_rgb(back.attribute.get_background()),
        "displayed background of cell (0, 1) before and after the round trip"
    );
}
