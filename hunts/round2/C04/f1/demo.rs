//! C04 - a bottom row that the writer encodes with cursor movements only is lost, and more than a screen of
//! such rows moves everything below them up.
use icy_engine::{AttributedChar, Buffer, SaveOptions, TextAttribute, TextPane};
use std::path::Path;

fn blank_row_with_two_attributes(buf: &mut Buffer, y: i32) {
    // 80 blanks on black. The first ten carry the bold flag, the rest is plain: nothing of this can be seen,
    // but the two runs are different attributes for the writer.
    for x in 0..80 {
        let mut attr = TextAttribute::new(7, 0);
        attr.set_is_bold(x < 10);
        buf.layers[0].set_char((x, y), AttributedChar::new(' ', attr));
    }
}

fn text_row(buf: &mut Buffer, y: i32, ch: char) {
    for x in 0..80 {
        buf.layers[0].set_char((x, y), AttributedChar::new(ch, TextAttribute::new(7, 0)));
    }
}

fn show(bytes: &[u8]) -> String {
    bytes.iter().map(|&b| if b == 27 { "<ESC>".to_string() } else if b == 13 { "<CR>".to_string() } else if b == 10 { "<LF>".to_string() } else { (b as char).to_string() }).collect()
}

/// default save options, 80x2: the second (last) row is missing after the round trip
#[test]
fn bottom_row_written_as_cursor_movement_is_lost() {
    let mut buf = Buffer::new((80, 2));
    text_row(&mut buf, 0, 'A');
    blank_row_with_two_attributes(&mut buf, 1);

    let bytes = buf.to_bytes("ans", &SaveOptions::new()).unwrap();
    println!("file: {}", show(&bytes));
    let loaded = Buffer::from_bytes(Path::new("test.ans"), true, &bytes).unwrap();

    assert_eq!(
        (buf.get_width(), buf.get_height()),
        (loaded.get_width(), loaded.get_height()),
        "the picture has 2 rows, the file the engine wrote for it parses back to a picture with {} row(s)",
        loaded.get_height()
    );
}

/// longer-terminal positioning: 30 such rows between two text rows, the text row below them comes back 4 rows too high
#[test]
fn rows_below_a_screen_of_cursor_only_rows_move_up() {
    let mut buf = Buffer::new((80, 32));
    text_row(&mut buf, 0, 'A');
    for y in 1..31 {
        blank_row_with_two_attributes(&mut buf, y);
    }
    text_row(&mut buf, 31, 'B');

    let mut opt = SaveOptions::new();
    opt.longer_terminal_output = true;
    let bytes = buf.to_bytes("ans", &opt).unwrap();
    let loaded = Buffer::from_bytes(Path::new("test.ans"), true, &bytes).unwrap();

    let row_of_b = (0..loaded.get_height()).find(|y| loaded.get_char((0, *y)).ch == 'B');
    assert_eq!(Some(31), row_of_b, "the row of 'B's is row 31 of the picture (loaded height: {})", loaded.get_height());
}
