//! C04 - a picture whose last 128 characters read like a SAUCE record: the writer stores it as it is (no record of
//! its own is asked for), the loader takes the text for meta data and cuts it off the picture.
use icy_engine::{AttributedChar, Buffer, SaveOptions, TextAttribute, TextPane};
use std::path::Path;

#[test]
fn picture_text_that_reads_like_a_sauce_record() {
    // two full rows of plain text (light grey on black, nothing but printable characters and one NUL glyph)
    let mut text = String::new();
    text.push_str(&"-".repeat(32));
    text.push_str("SAUCE00"); // id + version
    text.push_str(&"t".repeat(35)); // title
    text.push_str(&"a".repeat(20)); // author
    text.push_str(&"g".repeat(20)); // group
    text.push_str("19960229"); // date
    text.push_str("size"); // file size
    text.push_str("xx"); // data type, file type
    text.push_str("11223344"); // tinfo 1-4
    text.push('\0'); // number of comments
    text.push('f'); // flags
    text.push_str(&"i".repeat(22)); // tinfo string
    assert_eq!(160, text.len());

    let mut buf = Buffer::new((80, 2));
    for (i, ch) in text.chars().enumerate() {
        buf.layers[0].set_char((i as i32 % 80, i as i32 / 80), AttributedChar::new(ch, TextAttribute::default()));
    }

    let mut opt = SaveOptions::new();
    opt.compress = false;
    opt.lossles_output = true; // keep the NUL glyph as it is
    opt.save_sauce = false;
    let bytes = buf.to_bytes("ans", &opt).unwrap();
    let loaded = Buffer::from_bytes(Path::new("test.ans"), true, &bytes).unwrap();

    assert_eq!(buf.get_height(), loaded.get_height(), "height of the picture after the round trip");
    for y in 0..buf.get_height() {
        for x in 0..buf.get_width() {
            assert_eq!(buf.get_char((x, y)).ch, loaded.get_char((x, y)).ch, "character at ({x}, {y}) after the round trip");
        }
    }
}
