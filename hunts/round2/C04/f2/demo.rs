//! C04 - a bold cell of a picture with its own palette comes back in a different colour: the writer takes the colour of
//! a bold cell from the dark palette entry, the picture shows the bright entry (index + 8).
use icy_engine::{AttributedChar, Buffer, Color, Rectangle, SaveOptions, TextAttribute, TextPane};
use std::path::Path;

fn first_fg_pixel(buf: &Buffer) -> (u8, u8, u8) {
    // render cell (0, 0) with the engine's own renderer and pick a pixel of the glyph (0xDB is a full block: all foreground)
    let (_, px) = buf.render_to_rgba(Rectangle::from_min_size((0, 0), (1, 1)));
    (px[0], px[1], px[2])
}

#[test]
fn bold_cell_with_changed_bright_palette_entry() {
    let mut buf = Buffer::new((80, 1));
    // a 16 colour palette picture: entry 9 (the bright partner of 1) is orange instead of light blue
    buf.palette.set_color(9, Color::new(255, 128, 0));
    let mut attr = TextAttribute::new(1, 0);
    attr.set_is_bold(true);
    for x in 0..80 {
        buf.layers[0].set_char((x, 0), AttributedChar::new('\u{DB}', attr));
    }
    assert_eq!((255, 128, 0), first_fg_pixel(&buf), "the picture shows the bold cell in palette entry 1 + 8");

    let mut opt = SaveOptions::new();
    opt.lossles_output = true;
    let bytes = buf.to_bytes("ans", &opt).unwrap();
    let loaded = Buffer::from_bytes(Path::new("test.ans"), true, &bytes).unwrap();

    assert_eq!(
        first_fg_pixel(&buf),
        first_fg_pixel(&loaded),
        "displayed foreground of cell (0,0) before and after the round trip (file: {:?})",
        String::from_utf8_lossy(&bytes[..12])
    );
}
