// C13 / f3: the see-through half of a half block is not filled with the colour that is shown beneath it if the cell
// beneath is bold: the bold flag, which turns colour 0..7 into 8..15 on screen, is ignored when the colour is taken over
use icy_engine::{AttributedChar, Buffer, Layer, Position, Rectangle, TextAttribute};

const FULL_BLOCK: char = 219 as char;
const HALF_BLOCK_TOP: char = 223 as char; // foreground = upper half, background = lower half
const T: u32 = TextAttribute::TRANSPARENT_COLOR;

fn pixel(buf: &Buffer, px: i32, py: i32) -> (u8, u8, u8) {
    let (size, data) = buf.render_to_rgba(Rectangle::from_min_size(Position::new(0, 0), (1, 1)));
    let o = ((py * size.width + px) * 4) as usize;
    (data[o], data[o + 1], data[o + 2])
}

#[test]
fn see_through_half_shows_the_colour_beneath() {
    let mut buf = Buffer::new((1, 1));
    buf.layers.clear();

    // bottom: an opaque layer with a bold red full block, shown in light red
    let mut attr = TextAttribute::new(4, 0);
    attr.set_is_bold(true);
    let mut bottom = Layer::new("bottom", (1, 1));
    bottom.properties.has_alpha_channel = false;
    bottom.set_char((0, 0), AttributedChar::new(FULL_BLOCK, attr));
    buf.layers.push(bottom);

    let beneath = pixel(&buf, 4, 12);
    assert_eq!(beneath, buf.palette.get_rgb(12), "control: the bold red block is shown in light red");

    // top: upper half blue, lower half see-through
    let mut top = Layer::new("top", (1, 1));
    top.properties.has_alpha_channel = true;
    top.set_char((0, 0), AttributedChar::new(HALF_BLOCK_TOP, TextAttribute::new(1, T)));
    buf.layers.push(top);

    assert_eq!(pixel(&buf, 4, 4), buf.palette.get_rgb(1), "control: upper half is the blue of the top layer");
    assert_eq!(
        pixel(&buf, 4, 12),
        beneath,
        "a pixel in the see-through lower half of the top cell changed its colour, although only the layer beneath is seen there"
    );
}
