// C13 / f1: a second cell with a transparent colour is skipped completely, its solid half is never shown
use icy_engine::{AttributedChar, Buffer, Layer, TextAttribute, TextPane};

const HALF_BLOCK_TOP: char = 223 as char; // foreground = upper half, background = lower half
const HALF_BLOCK_BOTTOM: char = 220 as char; // foreground = lower half, background = upper half
const T: u32 = TextAttribute::TRANSPARENT_COLOR;

fn alpha_layer(cell: AttributedChar) -> Layer {
    let mut l = Layer::new("l", (1, 1));
    l.properties.has_alpha_channel = true;
    l.set_char((0, 0), cell);
    l
}

fn stack(middle: AttributedChar) -> Buffer {
    let mut buf = Buffer::new((1, 1));
    buf.layers.clear();
    // bottom: an opaque layer with a solid blue cell
    let mut bottom = Layer::new("bottom", (1, 1));
    bottom.properties.has_alpha_channel = false;
    bottom.set_char((0, 0), AttributedChar::new(' ', TextAttribute::new(7, 1)));
    buf.layers.push(bottom);
    // middle: lower half green
    buf.layers.push(alpha_layer(middle));
    // top: upper half red, lower half see-through
    buf.layers.push(alpha_layer(AttributedChar::new(HALF_BLOCK_TOP, TextAttribute::new(4, T))));
    buf
}

#[test]
fn solid_half_of_a_second_transparent_cell_is_shown() {
    // control: the middle cell is "lower half green, upper half black"
    let solid = stack(AttributedChar::new(HALF_BLOCK_BOTTOM, TextAttribute::new(2, 0))).get_char((0, 0));
    assert_eq!(
        solid,
        AttributedChar::new(HALF_BLOCK_TOP, TextAttribute::new(4, 2)),
        "control: red upper half of the top layer over the green lower half of the middle layer"
    );

    // the upper half of the middle cell lies behind the red upper half of the top layer: making it see-through
    // instead of black must not change what is shown. The lower half of the middle cell is still solid green.
    let see_through = stack(AttributedChar::new(HALF_BLOCK_BOTTOM, TextAttribute::new(2, T))).get_char((0, 0));
    assert_eq!(
        see_through, solid,
        "the visible middle layer (lower half solid green) is skipped as a whole: the lower half of the shown cell is taken \
         from the blue bottom layer that the green half covers"
    );
}
