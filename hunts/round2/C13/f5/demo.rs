// C13 / f5: a hidden layer influences the picture: Buffer::render_to_rgba and Buffer::flat_clone(false) take the
// images of every layer, also of hidden ones (the characters of a hidden layer are skipped by Buffer::get_char)
use icy_engine::{AttributedChar, Buffer, Layer, Position, Rectangle, Sixel, TextAttribute};

fn buffer(with_hidden_layer: bool) -> Buffer {
    let mut buf = Buffer::new((4, 4));
    buf.layers[0].set_char((0, 0), AttributedChar::new('A', TextAttribute::new(7, 1)));
    if with_hidden_layer {
        let mut l = Layer::new("hidden", (2, 2));
        l.properties.has_alpha_channel = true;
        l.set_char((0, 0), AttributedChar::new('B', TextAttribute::new(7, 2)));
        l.sixels.push(Sixel::from_data((8, 16), 1, 1, vec![200; 8 * 16 * 4]));
        l.set_offset((1, 1));
        l.properties.is_visible = false;
        buf.layers.push(l);
    }
    buf
}

#[test]
fn hidden_layer_is_not_rendered() {
    let rect = Rectangle::from_min_size(Position::new(0, 0), (4, 4));
    let without = buffer(false).render_to_rgba(rect);
    let with = buffer(true).render_to_rgba(rect);
    let changed = without.1.iter().zip(with.1.iter()).filter(|(a, b)| a != b).count();
    assert_eq!(changed, 0, "adding a hidden layer changed {changed} bytes of the rendered picture");
}

#[test]
fn hidden_layer_is_not_part_of_the_flat_copy() {
    let flat = buffer(true).flat_clone(false);
    assert_eq!(
        flat.layers[0].sixels.len(),
        0,
        "the flattened copy of the document shows the image of the hidden layer"
    );
}
