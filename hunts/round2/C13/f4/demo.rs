// C13 / f4: moving a picture layer over the top border does not move its picture by that offset:
// Buffer::render_to_rgba skips the screen rows above the border without skipping the picture rows that belong there
use icy_engine::{Buffer, Layer, Position, Rectangle, Sixel};

/// renders a 4x4 buffer with a picture layer (8 x 32 pixel, pixel row r has the colour (r+1, r+1, r+1)) at row `off_y`
/// and gives back the red channel of the pixel column x = 8 of the rows `rect_y .. rect_y + 4`
fn render(off_y: i32, rect_y: i32) -> Vec<u8> {
    let mut buf = Buffer::new((4, 4));
    let mut l = Layer::new("img", (1, 2));
    l.properties.has_alpha_channel = true;
    let mut data = Vec::new();
    for r in 0..32u8 {
        for _ in 0..8 {
            data.extend_from_slice(&[r + 1, r + 1, r + 1, 255]);
        }
    }
    l.sixels.push(Sixel::from_data((8, 32), 1, 1, data));
    l.set_offset((1, off_y));
    buf.layers.push(l);
    let (size, px) = buf.render_to_rgba(Rectangle::from_min_size(Position::new(0, rect_y), (4, 4)));
    (0..size.height).map(|y| px[((y * size.width + 8) * 4) as usize]).collect()
}

#[test]
fn picture_layer_moved_over_the_top_border() {
    // control: the layer at row 1, the picture occupies the pixel rows 16..48
    let at_1 = render(1, 0);
    assert_eq!(at_1[16..48], (1..=32).collect::<Vec<u8>>()[..]);

    // translating the whole stack: the layer at row -1 seen through a window that starts at row -2 looks the same
    assert_eq!(render(-1, -2), at_1, "control: layer and window moved up by two rows");

    // the layer moved up by two rows, same window: every pixel row of the picture moves up by 32 pixel, the upper
    // half of the picture (pixel rows 0..16) leaves the window, the lower half (17..=32) is at the top
    let at_minus_1 = render(-1, 0);
    let mut expected = vec![0u8; 64];
    expected[..16].copy_from_slice(&at_1[32..48]);
    assert_eq!(
        at_minus_1, expected,
        "the picture of a layer that hangs over the top border is not clipped but drawn from its first pixel row: \
         the layer's contribution did not move by the offset of the layer"
    );
}
