// C13 / f2: at the bottom of a stack of alpha layers the overrides collected from Chars / Attributes layers are handled
// differently from the way every opaque layer handles them: "nothing beneath" is not shown like "a blank cell beneath"
use icy_engine::{AttributedChar, Buffer, Layer, Mode, TextAttribute, TextPane};

const FULL_BLOCK: char = 219 as char;
const HALF_BLOCK_TOP: char = 223 as char; // foreground = upper half, background = lower half
const T: u32 = TextAttribute::TRANSPARENT_COLOR;

fn layer(mode: Mode, cell: AttributedChar) -> Layer {
    let mut l = Layer::new("l", (1, 1));
    l.properties.has_alpha_channel = true;
    l.properties.mode = mode;
    l.set_char((0, 0), cell);
    l
}

fn shown(layers: Vec<Layer>, blank_background: bool) -> AttributedChar {
    let mut buf = Buffer::new((1, 1));
    buf.layers.clear();
    if blank_background {
        // an opaque layer without any cell: shows blanks
        let mut l = Layer::new("background", (1, 1));
        l.properties.has_alpha_channel = false;
        buf.layers.push(l);
    }
    buf.layers.extend(layers);
    buf.get_char((0, 0))
}

/// a Chars layer under a half block with a see-through lower half: the character is dropped
#[test]
fn chars_override_under_a_transparent_cell() {
    let stack = || {
        vec![
            layer(Mode::Chars, AttributedChar::new(FULL_BLOCK, TextAttribute::default())),
            layer(Mode::Normal, AttributedChar::new(HALF_BLOCK_TOP, TextAttribute::new(4, T))),
        ]
    };
    // the Chars layer alone shows a grey full block with and without the background
    let chars_only = || vec![layer(Mode::Chars, AttributedChar::new(FULL_BLOCK, TextAttribute::default()))];
    assert_eq!(shown(chars_only(), false), shown(chars_only(), true), "control: Chars layer alone");
    assert_eq!(shown(chars_only(), false), AttributedChar::new(FULL_BLOCK, TextAttribute::default()));

    let over_blank = shown(stack(), true);
    assert_eq!(over_blank, AttributedChar::new(HALF_BLOCK_TOP, TextAttribute::new(4, 7)), "control: red over the grey full block");
    let over_nothing = shown(stack(), false);
    assert_eq!(
        over_nothing, over_blank,
        "the full block of the visible Chars layer is seen through the lower half of the top cell if a blank background \
         lies beneath, but it is ignored if nothing lies beneath (the same Chars layer alone is shown the same in both cases)"
    );
}

/// an Attributes layer with a transparent colour and no cell beneath: the raw marker is returned as a colour
#[test]
fn attributes_override_with_transparent_colour() {
    let stack = || vec![layer(Mode::Attributes, AttributedChar::new(' ', TextAttribute::new(3, T)))];
    let over_blank = shown(stack(), true);
    assert_eq!(over_blank, AttributedChar::new(' ', TextAttribute::new(3, 0)), "control: filled from the blank background");
    let over_nothing = shown(stack(), false);
    assert!(
        over_nothing.attribute.get_background() != T,
        "the shown cell has the marker TRANSPARENT_COLOR as background colour: {over_nothing:?} (over a blank background: {over_blank:?})"
    );
}
