use icy_engine::{ansi, Buffer, BufferParser, Caret};
use std::time::Instant;

fn hex(s: &str) -> String {
    s.bytes().map(|b| format!("{b:02X}")).collect()
}

fn status(key: &str) -> usize {
    let s = std::fs::read_to_string("/proc/self/status").unwrap();
    for line in s.lines() {
        if let Some(rest) = line.strip_prefix(key) {
            return rest.trim().trim_end_matches("kB").trim().parse().unwrap();
        }
    }
    0
}

#[test]
fn form_feed_detaches_sixel_decodes() {
    let mut buf = Buffer::create((80, 25));
    buf.is_terminal_buffer = true;
    let mut caret = Caret::default();
    let mut parser = ansi::Parser::default();

    let n: usize = std::env::var("N").ok().and_then(|s| s.parse().ok()).unwrap_or(120);
    // one group: a sixel image that only declares a 9999x9999 raster, then a form feed (clear screen)
    let group = "\x1bPq\";;;9999;9999\x1b\\\x0c";
    let input = format!("\x1bP;;;1!z!{n};{}\x1b\\\x1b[0*z", hex(group));
    println!("input: {} bytes: {:?}", input.len(), input);
    assert!(input.len() < 64);

    let threads_before = status("Threads:");
    let start = Instant::now();
    // the whole expansion happens inside one print_char call: sample the number of threads from the side
    let done = std::sync::Arc::new(std::sync::atomic::AtomicBool::new(false));
    let done2 = done.clone();
    let sampler = std::thread::spawn(move || {
        let mut max_threads = 0;
        while !done2.load(std::sync::atomic::Ordering::Relaxed) {
            max_threads = max_threads.max(status("Threads:"));
            std::thread::sleep(std::time::Duration::from_micros(500));
        }
        max_threads - 1 // the sampler itself
    });
    for ch in input.chars() {
        let _ = parser.print_char(&mut buf, 0, &mut caret, ch);
    }
    let at_end = status("Threads:") - 1;
    done.store(true, std::sync::atomic::Ordering::Relaxed);
    let max_threads = sampler.join().unwrap().max(at_end);
    let elapsed = start.elapsed();
    let pending = buf.sixel_threads.len();
    // let them finish
    while status("Threads:") > threads_before {
        std::thread::sleep(std::time::Duration::from_millis(5));
    }
    let peak_rss_mib = status("VmHWM:") / 1024;
    println!("threads before {threads_before}, after input {max_threads}, queue {pending}, elapsed {elapsed:?}, peak rss {peak_rss_mib} MiB");
    assert!(
        max_threads - threads_before <= 32,
        "a {} byte input left {} sixel decode threads running at once (the parser's bound is 32, its queue holds {}), peak RSS {} MiB",
        input.len(),
        max_threads - threads_before,
        pending,
        peak_rss_mib
    );
}
