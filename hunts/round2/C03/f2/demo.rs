use icy_engine::{ansi, Buffer, BufferParser, Caret};
use std::time::Instant;

fn hex(s: &str) -> String {
    s.bytes().map(|b| format!("{b:02X}")).collect()
}

#[test]
fn insert_mode_without_wrap_grows_the_line() {
    let mut buf = Buffer::create((80, 25));
    buf.is_terminal_buffer = true;
    let mut caret = Caret::default();
    let mut parser = ansi::Parser::default();

    let invocations: usize = std::env::var("INV").ok().and_then(|s| s.parse().ok()).unwrap_or(2);
    // IRM on, autowrap off, one character to repeat, a macro of REPs, invoke it
    let mut input = format!("\x1b[4h\x1b[?7lA\x1bP;;;1!z!99;{}\x1b\\", hex("\x1b[9999b"));
    for _ in 0..invocations {
        input.push_str("\x1b[0*z");
    }
    println!("input: {} bytes: {:?}", input.len(), input);
    assert!(input.len() < 64);

    let start = Instant::now();
    for ch in input.chars() {
        let _ = parser.print_char(&mut buf, 0, &mut caret, ch);
    }
    let elapsed = start.elapsed();
    let longest = buf.layers[0].lines.iter().map(|l| l.chars.len()).max().unwrap_or(0);
    println!("longest line: {longest} cells, elapsed {elapsed:?}");
    assert!(longest <= 80, "a {} byte input made a line of the 80 column screen {} cells long and took {:?}", input.len(), longest, elapsed);
}
