use icy_engine::{ansi, Buffer, BufferParser, Caret};
use std::time::Instant;

fn hex(s: &str) -> String {
    s.bytes().map(|b| format!("{b:02X}")).collect()
}

#[test]
fn macro_repeat_group_of_raster_sixels() {
    let mut buf = Buffer::create((80, 25));
    buf.is_terminal_buffer = true;
    let mut caret = Caret::default();
    let mut parser = ansi::Parser::default();

    // one group: an empty sixel image that only declares a 9999x9999 raster, then cursor right
    let group = "\x1bPq\";;;9999;9999\x1b\\\x1b[C";
    let input = format!("\x1bP;;;1!z!80;{}\x1b\\\x1b[0*z", hex(group));
    println!("input: {} bytes: {:?}", input.len(), input);
    assert!(input.len() < 64);

    let start = Instant::now();
    for ch in input.chars() {
        let _ = parser.print_char(&mut buf, 0, &mut caret, ch);
    }
    // wait for decodes
    while !buf.sixel_threads.is_empty() {
        let _ = buf.update_sixel_threads();
        std::thread::sleep(std::time::Duration::from_millis(1));
    }
    let elapsed = start.elapsed();
    let bytes: usize = buf.layers[0].sixels.iter().map(|s| s.picture_data.len()).sum();
    println!("sixels: {}, bytes {} MiB, elapsed {:?}", buf.layers[0].sixels.len(), bytes >> 20, elapsed);
    assert!(bytes < (1 << 30), "a {} byte input left {} sixel images holding {} MiB on the screen (took {:?})", input.len(), buf.layers[0].sixels.len(), bytes >> 20, elapsed);
}
