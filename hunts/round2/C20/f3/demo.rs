//! C20 / IGS: the "&" loop does its x / +n / -n / !n arithmetic and its stepping with unchecked i32 operations.
//! The numbers of the loop are not clamped to 16 bit like the numbers of all other commands are.
use icy_engine::{igs, Buffer, BufferParser, Caret};
use std::panic::{catch_unwind, AssertUnwindSafe};
use std::sync::{Arc, Mutex};

fn feed(stream: &str) {
    let exe: Arc<Mutex<Box<dyn igs::CommandExecutor>>> = Arc::new(Mutex::new(Box::<igs::DrawExecutor>::default()));
    let mut parser = igs::Parser::new(exe);
    let mut buf = Buffer::new((80, 25));
    buf.is_terminal_buffer = true;
    let mut caret = Caret::default();
    for ch in stream.chars() {
        let _ = parser.print_char(&mut buf, 0, &mut caret, ch);
        for _ in 0..16 {
            if parser.get_next_action(&mut buf, &mut caret, 0).is_none() {
                break;
            }
        }
    }
}

#[test]
fn igs_loop_constant_plus_step_value() {
    // loop 1 -> 0, draw line, 4 parameters, first one "+2147483647" = constant + loop value
    let r = catch_unwind(AssertUnwindSafe(|| feed("G#&>1,0,1,0,L,4,+2147483647,0,0,0:\r\n")));
    assert!(r.is_ok(), "IGS loop 'G#&>1,0,1,0,L,4,+2147483647,0,0,0:' panicked (attempt to add with overflow in Loop::next_step)");
}

#[test]
fn igs_loop_step_over_the_end_of_i32() {
    // loop 0 -> 2147483599 (the parser saturates), step 2000000000: the second step overflows the loop counter
    let r = catch_unwind(AssertUnwindSafe(|| feed("G#&>0,9999999999,2000000000,0,L,4,0,0,0,0:\r\n")));
    assert!(r.is_ok(), "IGS loop 'G#&>0,9999999999,2000000000,0,L,4,0,0,0,0:' panicked (attempt to add with overflow in Loop::next_step)");
}
