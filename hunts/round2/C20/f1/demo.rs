//! C20 / IGS: "G" (grab screen, mode 3 = piece of memory to screen) executed from a "&" loop with a
//! destination far left / above the screen walks over the whole 16 bit coordinate range (about 10^9 steps)
//! instead of the part of the piece that lies on the 320x200 canvas.
use icy_engine::{igs, Buffer, BufferParser, Caret};
use std::sync::{Arc, Mutex};
use std::time::{Duration, Instant};

/// feeds the stream, returns the longest time a single character (= a single command) took
fn feed(stream: &str) -> Duration {
    let exe: Arc<Mutex<Box<dyn igs::CommandExecutor>>> = Arc::new(Mutex::new(Box::<igs::DrawExecutor>::default()));
    let mut parser = igs::Parser::new(exe);
    let mut buf = Buffer::new((80, 25));
    buf.is_terminal_buffer = true;
    let mut caret = Caret::default();
    let mut worst = Duration::ZERO;
    for ch in stream.chars() {
        let t = Instant::now();
        let _ = parser.print_char(&mut buf, 0, &mut caret, ch);
        worst = worst.max(t.elapsed());
        // finish a running loop
        for _ in 0..16 {
            let t = Instant::now();
            if parser.get_next_action(&mut buf, &mut caret, 0).is_none() {
                break;
            }
            worst = worst.max(t.elapsed());
        }
    }
    let (size, pixels) = parser.get_picture_data().expect("the IGS canvas");
    assert_eq!(pixels.len(), (size.width * size.height * 4) as usize, "canvas is complete");
    worst
}

#[test]
fn igs_blit_from_memory_to_a_far_negative_destination_is_bounded_by_the_canvas() {
    // grab a 10x10 piece, then one loop step that blits "a piece of memory" (0,0)-(99999,99999) to the screen.
    // Loop parameters: a constant, or "-n" = loop value (0 here) minus n.
    let on_screen = "G#G>1,3,0,0,10,10:\r\nG#&>0,1,1,0,G,8,3,3,0,0,99999,99999,0,0:\r\n";
    let far_away = "G#G>1,3,0,0,10,10:\r\nG#&>0,1,1,0,G,8,3,3,0,0,99999,99999,-99999,-99999:\r\n";

    let base = feed(on_screen);
    let far = feed(far_away);
    println!("destination 0,0: {base:?}   destination -99999,-99999: {far:?}");

    // both commands can change at most 320x200 pixels; allow a factor of 100 and 100 ms of noise
    let budget = base * 100 + Duration::from_millis(100);
    assert!(
        far <= budget,
        "IGS 'G 3,3,0,0,99999,99999,x-99999,x-99999' took {far:?} for one command (the same blit to 0,0 takes {base:?}): \
         the time is bounded by the coordinate values (32767 x 32767 steps), not by the 320x200 canvas"
    );
}
