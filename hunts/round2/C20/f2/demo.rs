//! C20 / RIP: the line thickness set by RIP_LINE_STYLE ("|=") multiplies the work and the memory of the
//! scan conversion of filled ovals / pie slices, independent of the canvas: a flat filled oval that takes
//! ~3 ms with thickness 1 takes seconds (and tens of MB) with thickness ZZ, although the thickness is not
//! even used for the fill and at most 640x350 pixels can change.
use icy_engine::{rip, Buffer, BufferParser, Caret};
use std::path::PathBuf;
use std::time::{Duration, Instant};

/// feeds the stream, returns the longest time a single character (= a single command) took
fn feed(stream: &str) -> Duration {
    let mut parser = rip::Parser::new(Box::default(), PathBuf::from("."));
    let mut buf = Buffer::new((80, 25));
    buf.is_terminal_buffer = true;
    let mut caret = Caret::default();
    let mut worst = Duration::ZERO;
    for ch in stream.chars() {
        let t = Instant::now();
        let _ = parser.print_char(&mut buf, 0, &mut caret, ch);
        worst = worst.max(t.elapsed());
    }
    let (size, pixels) = parser.get_picture_data().expect("the RIP canvas");
    assert_eq!(pixels.len(), (size.width * size.height * 4) as usize, "canvas is complete");
    worst
}

#[test]
fn rip_filled_oval_time_does_not_depend_on_the_line_thickness_left_by_an_earlier_command() {
    // RIP_OVAL_PIE_SLICE center (320,175), 0..360 degrees, x radius ZZ (1295), y radius 01
    let thin = feed("!|=00000001|i8W4V00A0ZZ01|\n");
    // the same after RIP_LINE_STYLE solid, thickness ZZ. (RIP_RESET_WINDOWS "|*" does not reset the thickness either.)
    let thick = feed("!|=000000ZZ|*|i8W4V00A0ZZ01|\n");
    println!("thickness 1: {thin:?}   thickness ZZ: {thick:?}");

    let budget = thin * 50 + Duration::from_millis(100);
    assert!(
        thick <= budget,
        "RIP '|i8W4V00A0ZZ01' took {thick:?} after '|=000000ZZ' and {thin:?} after '|=00000001': the scan conversion pushes \
         thickness x radius x 8 coordinates (more than 10^7) for a picture of 640x350 pixels"
    );
}
