// C07 - a document whose slot 0 font is wider than 8 pixels cannot be saved as .icy:
// the preview renderer shifts a u8 mask by the pixel column (128 >> cx, cx >= 8).
use icy_engine::{AttributedChar, BitFont, Buffer, SaveOptions, TextAttribute};
use std::path::Path;

#[test]
fn document_with_a_9_pixel_wide_font_round_trips() {
    let data: Vec<u8> = (0..256 * 16).map(|i| (i * 7 + 3) as u8).collect();
    // the loader accepts widths 1..=64 (BitFont::from_bytes), 9x16 is the classic VGA cell
    let font = BitFont::create_8("nine", 9, 16, &data);
    // the font itself survives its own serialisation, so it is a legal font for the format
    let again = BitFont::from_bytes("nine", &font.to_psf2_bytes().unwrap()).expect("font is readable");
    assert_eq!(again.size, font.size);

    let mut buf = Buffer::new((4, 2));
    buf.set_font(0, font.clone());
    buf.layers[0].set_char((0, 0), AttributedChar::new('A', TextAttribute::new(7, 0)));

    let mut opt = SaveOptions::new();
    opt.lossles_output = true;
    let saved = std::panic::catch_unwind(std::panic::AssertUnwindSafe(|| buf.to_bytes("icy", &opt)));
    assert!(saved.is_ok(), "saving a document with a 9x16 font in slot 0 panicked inside the .icy writer");
    let bytes = saved.unwrap().expect("save");
    let loaded = Buffer::from_bytes(Path::new("a.icy"), false, &bytes).expect("load");
    assert_eq!(loaded.get_font(0).unwrap().size, font.size);
    assert!(loaded.get_font(0).unwrap().glyphs == font.glyphs);
}
