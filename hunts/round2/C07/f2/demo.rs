// C07 - the cells of an image layer (a layer that still has its picture) are not written to the .icy file.
use icy_engine::{AttributedChar, Buffer, Layer, Role, SaveOptions, Sixel, TextAttribute, TextPane};
use std::path::Path;

#[test]
fn cells_of_an_image_layer_survive_the_round_trip() {
    let mut buf = Buffer::new((10, 5));
    let mut layer = Layer::new("picture", (4, 4));
    layer.role = Role::Image;
    // a picture of one character cell (8x16 pixels) in the upper left corner of the 4x4 layer
    layer.sixels.push(Sixel::from_data((8, 16), 1, 1, vec![0x55; 8 * 16 * 4]));
    // a visible cell somewhere else on the same layer; the picture stays
    let cell = AttributedChar::new('X', TextAttribute::new(3, 1));
    layer.set_char((2, 2), cell);
    assert_eq!(layer.sixels.len(), 1, "precondition: the layer still has its picture");
    assert_eq!(layer.get_char((2, 2)), cell, "precondition: the layer has a visible cell");
    buf.layers.push(layer);

    let mut opt = SaveOptions::new();
    opt.lossles_output = true;
    let bytes = buf.to_bytes("icy", &opt).expect("save");
    let loaded = Buffer::from_bytes(Path::new("a.icy"), false, &bytes).expect("load");

    assert_eq!(loaded.layers.len(), 2);
    assert_eq!(loaded.layers[1].role, Role::Image);
    assert_eq!(
        loaded.layers[1].get_char((2, 2)),
        cell,
        "the visible cell (2,2) of the image layer was lost by save + load"
    );
}
