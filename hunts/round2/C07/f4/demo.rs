// C07 - attribute bit 14 of a cell is taken for the file format's SHORT_DATA marker:
// a 'long' cell that has it set is read back as a 'short' record and the rest of the row is garbage.
use icy_engine::{AttributedChar, Buffer, SaveOptions, TextAttribute, TextPane};
use std::path::Path;

#[test]
fn cell_with_attribute_bit_14_round_trips() {
    let mut buf = Buffer::new((4, 1));
    let mut attr = TextAttribute::new(300, 1); // colour index >= 256: 'long' encoding
    attr.attr = 0x4000 | icy_engine::attribute::BOLD;
    let first = AttributedChar::new('X', attr);
    let second = AttributedChar::new('Y', TextAttribute::new(2, 1));
    buf.layers[0].set_char((0, 0), first);
    buf.layers[0].set_char((1, 0), second);
    assert!(first.is_visible());

    let mut opt = SaveOptions::new();
    opt.lossles_output = true;
    let bytes = buf.to_bytes("icy", &opt).expect("save");
    let loaded = Buffer::from_bytes(Path::new("a.icy"), false, &bytes).expect("load");

    assert_eq!(loaded.layers[0].get_char((1, 0)), second, "the neighbour of the cell with attribute bit 14 changed");
    assert_eq!(loaded.layers[0].get_char((0, 0)), first, "the cell with attribute bit 14 changed");
}
