// C07 - the role of a layer is only stored as "image or not": paste layers come back as normal layers.
use icy_engine::{AttributedChar, Buffer, Layer, Role, SaveOptions, TextAttribute};
use std::path::Path;

#[test]
fn role_of_a_paste_layer_round_trips() {
    let mut buf = Buffer::new((10, 5));
    let mut layer = Layer::new("pasted", (4, 4));
    layer.role = Role::PastePreview;
    layer.properties.has_alpha_channel = true;
    layer.set_char((2, 2), AttributedChar::new('X', TextAttribute::new(3, 1)));
    buf.layers.push(layer);

    let mut opt = SaveOptions::new();
    opt.lossles_output = true;
    let bytes = buf.to_bytes("icy", &opt).expect("save");
    let loaded = Buffer::from_bytes(Path::new("a.icy"), false, &bytes).expect("load");

    assert_eq!(loaded.layers.len(), 2);
    assert_eq!(loaded.layers[1].role, Role::PastePreview, "role of layer 1 after save + load");
}
