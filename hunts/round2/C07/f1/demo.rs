// C07 - a document whose font table has no font in slot 0 cannot be saved as .icy (panic),
// although every font page a cell refers to has a font.
use icy_engine::{AttributedChar, BitFont, Buffer, SaveOptions, TextAttribute, TextPane};
use std::path::Path;

fn font(name: &str) -> BitFont {
    let data: Vec<u8> = (0..256 * 16).map(|i| (i * 7 + 3) as u8).collect();
    BitFont::create_8(name, 8, 16, &data)
}

#[test]
fn document_without_font_in_slot_0_round_trips() {
    let mut buf = Buffer::new((4, 2));
    // the only font of the document lives in slot 5 and every cell (and the layer default) uses page 5
    buf.clear_font_table();
    buf.set_font(5, font("five"));
    buf.layers[0].default_font_page = 5;
    let mut attr = TextAttribute::new(7, 0);
    attr.set_font_page(5);
    buf.layers[0].set_char((0, 0), AttributedChar::new('A', attr));

    let mut opt = SaveOptions::new();
    opt.lossles_output = true;
    let saved = std::panic::catch_unwind(std::panic::AssertUnwindSafe(|| buf.to_bytes("icy", &opt)));
    assert!(
        saved.is_ok(),
        "saving a document whose font table is {{5}} (no slot 0) panicked inside the .icy writer"
    );
    let bytes = saved.unwrap().expect("save");
    let loaded = Buffer::from_bytes(Path::new("a.icy"), false, &bytes).expect("load");
    let mut slots: Vec<usize> = loaded.font_iter().map(|(k, _)| *k).collect();
    slots.sort_unstable();
    assert_eq!(slots, vec![5], "font slots after the round trip");
    assert_eq!(loaded.layers[0].get_char((0, 0)), buf.layers[0].get_char((0, 0)));
}
