// C11, second generation: the font name of the SAUCE record (TInfoS) does not survive load + save.
// The reader keeps the name in SauceData::font_opt, the writer never looks at it: it writes the name of the font object in slot 0.
// Whenever the loader does not end up with a font object of exactly that name, the next save replaces the metadata.
use icy_engine::{AttributedChar, BitFont, Buffer, IceMode, SauceData, SaveOptions, Size, TextAttribute, TextPane};
use std::path::PathBuf;

fn doc(font: BitFont) -> Buffer {
    let mut b = Buffer::new((80, 1));
    b.is_terminal_buffer = false;
    b.ice_mode = IceMode::Ice;
    b.set_font(0, font);
    for x in 0..80 {
        b.layers[0].set_char((x, 0), AttributedChar::new('A', TextAttribute::default()));
    }
    let mut s = SauceData::default();
    s.buffer_size = Size::new(80, 1);
    s.use_ice = true;
    b.set_sauce(Some(s), false);
    b
}

fn font_name_of(bytes: &[u8], ext: &str) -> (Buffer, String) {
    let b = Buffer::from_bytes(&PathBuf::from(format!("a.{ext}")), false, bytes).unwrap();
    let name = b.get_sauce().as_ref().unwrap().font_opt.clone().unwrap();
    (b, name)
}

fn two_generations(ext: &str, font: BitFont) -> (String, String) {
    let mut opt = SaveOptions::new();
    opt.save_sauce = true;
    let gen1 = doc(font).to_bytes(ext, &opt).unwrap();
    let (loaded, name1) = font_name_of(&gen1, ext);
    let gen2 = loaded.to_bytes(ext, &opt).unwrap(); // nothing was edited
    let (_, name2) = font_name_of(&gen2, ext);
    (name1, name2)
}

#[test]
fn adf_and_idf_replace_the_sauce_font_name() {
    for ext in ["adf", "idf"] {
        for name in ["IBM VGA", "Amiga MicroKnight+"] {
            let (name1, name2) = two_generations(ext, BitFont::from_sauce_name(name).unwrap());
            assert_eq!(name1, name, "{ext}: first generation");
            assert_eq!(name1, name2, ".{ext} saved with SAUCE font name {name1:?}, loaded and saved again unchanged: the record now says {name2:?}");
        }
    }
}

#[test]
fn ansi_replaces_a_font_name_the_engine_has_no_font_for() {
    // "IBM VGA 437" is one of the font names of the SAUCE specification; the engine has no font of that name
    let mut font = BitFont::default();
    font.name = "IBM VGA 437".to_string();
    let (name1, name2) = two_generations("ans", font);
    assert_eq!(name1, "IBM VGA 437", "first generation");
    assert_eq!(name1, name2, ".ans saved with SAUCE font name {name1:?}, loaded and saved again unchanged: the record now says {name2:?}");
}
