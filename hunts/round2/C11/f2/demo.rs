// C11: every writer that appends SAUCE has to produce a file whose metadata can be read back.
// Buffer::write_sauce_info unwraps the font in slot 0 for the font name (TInfoS), for every SAUCE variant -
// also for those that carry no font name at all. A document whose only font sits in another slot
// (the writers themselves accept that, see "ADF and IDF writers check the size of the font they embed, not the font in slot 0")
// saves fine without SAUCE and panics as soon as SAUCE is requested.
use icy_engine::{AttributedChar, Buffer, SaveOptions, TextAttribute, TextPane};
use std::panic::{catch_unwind, AssertUnwindSafe};
use std::path::PathBuf;

fn document() -> Buffer {
    let mut b = Buffer::new((80, 2));
    b.is_terminal_buffer = false;
    let font = b.get_font(0).unwrap().clone();
    b.clear_font_table();
    b.set_font(1, font); // the only font of the document is in slot 1
    b.layers[0].default_font_page = 1;
    let mut attr = TextAttribute::default();
    attr.set_font_page(1);
    for y in 0..2 {
        for x in 0..80 {
            b.layers[0].set_char((x, y), AttributedChar::new('A', attr));
        }
    }
    b
}

#[test]
fn saving_with_sauce_needs_a_font_in_slot_0() {
    let mut failed = Vec::new();
    for ext in ["ans", "asc", "avt", "pcb", "bin", "xb", "tnd"] {
        let b = document();
        let mut opt = SaveOptions::new();
        let plain = b.to_bytes(ext, &opt);
        assert!(plain.is_ok(), "{ext}: the document can be saved without SAUCE");
        opt.save_sauce = true;
        match catch_unwind(AssertUnwindSafe(|| b.to_bytes(ext, &opt))) {
            Ok(Ok(bytes)) => {
                let loaded = Buffer::from_bytes(&PathBuf::from(format!("a.{ext}")), false, &bytes).unwrap();
                assert!(loaded.has_sauce(), "{ext}: record is read back");
            }
            Ok(Err(err)) => failed.push(format!("{ext}: error {err}")),
            Err(_) => failed.push(format!("{ext}: PANIC")),
        }
    }
    assert!(
        failed.is_empty(),
        "the same document saves without SAUCE, but with save_sauce = true: {failed:?} (pcb, avt, xb and tnd records do not even carry a font name)"
    );
}
