// C11: the picture loaded from content+EOF+SAUCE must equal the picture loaded from the content alone
// whenever the record's width, ice-colour and font settings equal the loader's defaults.
// The height the record declares (TInfo2) is still copied into the buffer size and into the size of layer 0
// before the content is parsed, and the parser reads both back.
use icy_engine::{Buffer, SauceFileType, TextPane};
use std::path::PathBuf;

/// content + EOF + a SAUCE record (ANSi, 80 columns, no ice colours, default font) that declares `declared_height` lines
fn with_record(content: &[u8], declared_height: i32) -> Vec<u8> {
    let mut file = content.to_vec();
    Buffer::new((80, declared_height)).write_sauce_info(SauceFileType::Ansi, &mut file).unwrap();
    assert_eq!(file.len(), content.len() + 1 + 128);
    file
}

fn picture(b: &Buffer) -> Vec<String> {
    (0..b.get_height())
        .map(|y| {
            (0..b.get_width())
                .map(|x| {
                    let c = b.get_char((x, y));
                    format!("{:02x}.{}.{}{} ", c.ch as u32, c.attribute.get_foreground(), c.attribute.get_background(), if c.is_visible() { "" } else { "i" })
                })
                .collect()
        })
        .collect()
}

fn load(bytes: &[u8]) -> Buffer {
    Buffer::from_bytes(&PathBuf::from("a.ans"), false, bytes).unwrap()
}

#[test]
fn declared_height_above_the_screen_makes_erase_down_fill_more_rows() {
    // blue background, erase from the cursor to the end of the screen
    let content = b"\x1b[44m\x1b[J";
    let plain = load(content);
    let sauced = load(&with_record(content, 50));
    let s = sauced.get_sauce().as_ref().unwrap();
    assert!(s.buffer_size.width == 80 && !s.use_ice, "the record holds the loader's defaults");
    assert_eq!(
        plain.get_height(),
        sauced.get_height(),
        "ESC[44m ESC[J: the content alone gives {} blue rows, the same content followed by EOF+SAUCE (80 columns, declared height 50) gives {}",
        plain.get_height(),
        sauced.get_height()
    );
}

#[test]
fn declared_height_below_the_real_length_drops_erase_in_line() {
    // 'A', next row, blue background, erase to end of line: row 1 is a blue bar
    let content = b"A\r\n\x1b[44m\x1b[K";
    let plain = load(content);
    for declared in [0, 1] {
        let sauced = load(&with_record(content, declared));
        assert_eq!(
            picture(&plain).len(),
            picture(&sauced).len(),
            "'A' CR LF ESC[44m ESC[K: content alone has {} rows (row 1 is a blue bar), with a record that declares {declared} lines the picture has {} rows - the blue bar is gone",
            plain.get_height(),
            sauced.get_height()
        );
        let first_diff = picture(&plain).iter().zip(picture(&sauced).iter()).position(|(a, b)| a != b);
        assert!(first_diff.is_none(), "declared height {declared}: row {first_diff:?} differs");
    }
}

#[test]
fn declared_height_changes_the_scroll_region_of_scroll_up() {
    let content = b"A\r\nB\r\nC\x1b[1S";
    let plain = load(content);
    let sauced = load(&with_record(content, 3));
    assert_eq!(
        picture(&plain).len(),
        picture(&sauced).len(),
        "A/B/C then CSI 1 S (scroll up one line): the plain picture has {} rows (the scroll region is the 25 line screen), with a record declaring the true height 3 it has {} rows",
        plain.get_height(),
        sauced.get_height()
    );
}
