// C11: a comment line is a 64 byte CP437 field; what is saved has to come back.
// Title, author and group keep a NUL inside the text ("a\0b" comes back as "a\0b"),
// a comment line is cut at its first NUL (SauceString::<64, 0>::read stops at the first 0 byte,
// although append_to wrote the whole line).
use icy_engine::{AttributedChar, Buffer, SauceData, SauceString, SaveOptions, Size, TextAttribute};
use std::path::PathBuf;

#[test]
fn comment_line_is_cut_at_the_first_nul() {
    let mut b = Buffer::new((80, 1));
    b.is_terminal_buffer = false;
    b.layers[0].set_char((0, 0), AttributedChar::new('A', TextAttribute::default()));
    let mut s = SauceData::default();
    s.title = SauceString::from("a\0b");
    s.comments.push(SauceString::from("a\0b"));
    s.comments.push(SauceString::from("\0second line"));
    s.buffer_size = Size::new(80, 1);
    b.set_sauce(Some(s), false);

    let mut opt = SaveOptions::new();
    opt.save_sauce = true;
    let bytes = b.to_bytes("ans", &opt).unwrap();
    // the file holds the whole lines
    let comnt = bytes.len() - 128 - 2 * 64;
    assert_eq!(&bytes[comnt - 5..comnt + 3], b"COMNTa\0b");
    assert_eq!(&bytes[comnt + 64..comnt + 64 + 12], b"\0second line");

    let loaded = Buffer::from_bytes(&PathBuf::from("a.ans"), false, &bytes).unwrap();
    let saved = b.get_sauce().as_ref().unwrap();
    let read = loaded.get_sauce().as_ref().unwrap();
    assert_eq!(saved.title, read.title, "the title keeps its NUL");
    assert_eq!(read.title.to_string(), "a\0b");
    assert_eq!(
        saved.comments, read.comments,
        "comment lines saved as {:?} / {:?} are read back as {:?} / {:?}",
        saved.comments[0].to_string(),
        saved.comments[1].to_string(),
        read.comments[0].to_string(),
        read.comments[1].to_string()
    );
}
