// C08: undo of set_char does not restore the neighbouring cells of a lazily stored row
// (their font page changes from the layer's default font page to 0).
use icy_engine::editor::{EditState, UndoState};
use icy_engine::{AttributedChar, BitFont, Buffer, TextAttribute, TextPane};

fn font_pages(st: &EditState) -> Vec<usize> {
    let l = &st.get_buffer().layers[0];
    let mut v = Vec::new();
    for y in 0..l.get_height() {
        for x in 0..l.get_width() {
            v.push(l.get_char((x, y)).get_font_page());
        }
    }
    v
}

#[test]
fn undo_of_set_char_restores_every_cell_of_the_row() {
    // a document as the .icy loader builds it: the rows of the layer are stored on demand and the layer
    // has a default font page (the page its "empty" cells are generated with)
    let mut buffer = Buffer::new((6, 2));
    buffer.set_font(2, BitFont::from_ansi_font_page(2).unwrap());
    buffer.layers[0].lines.clear();
    buffer.layers[0].default_font_page = 2;
    let mut st = EditState::from_buffer(buffer);

    let initial = font_pages(&st);
    assert!(initial.iter().all(|p| *p == 2), "every cell of the empty layer reports the default font page");

    st.set_char((3, 0), AttributedChar::new('a', TextAttribute::default())).unwrap();
    st.undo().unwrap();

    let after_undo = font_pages(&st);
    assert_eq!(
        initial, after_undo,
        "font page of every cell (row major) after set_char((3,0)) + undo differs from the initial document: \
         the cells left of the edited one were materialised with font page 0"
    );
}
