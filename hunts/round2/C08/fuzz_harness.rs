#![allow(clippy::all)]
use std::panic::{catch_unwind, AssertUnwindSafe};

use icy_engine::editor::{EditState, UndoState};
use icy_engine::{
    AddType, AttributedChar, BitFont, Buffer, FontMode, IceMode, Layer, Palette, PaletteMode, Position, Rectangle, SauceData, Selection, Shape, Size,
    TextAttribute, TextPane,
};

static PANICS: std::sync::atomic::AtomicUsize = std::sync::atomic::AtomicUsize::new(0);
struct Rng(u64);
impl Rng {
    fn next(&mut self) -> u64 {
        let mut x = self.0;
        x ^= x << 13;
        x ^= x >> 7;
        x ^= x << 17;
        self.0 = x;
        x
    }
    fn below(&mut self, n: u64) -> u64 {
        self.next() % n
    }
    fn range(&mut self, lo: i32, hi: i32) -> i32 {
        lo + (self.below((hi - lo + 1) as u64) as i32)
    }
    fn chance(&mut self, pct: u64) -> bool {
        self.below(100) < pct
    }
}

#[derive(Clone, PartialEq, Debug)]
struct LayerSnap {
    title: String,
    props: String,
    role: String,
    size: Size,
    offset: Position,
    default_font_page: usize,
    cells: Vec<(AttributedChar, usize)>,
}

#[derive(Clone, PartialEq, Debug)]
struct Snap {
    size: Size,
    ice: String,
    pal_mode: String,
    font_mode: String,
    palette: String,
    fonts: Vec<(usize, String, u32)>,
    sauce: Option<(Size, bool, Option<String>, String)>,
    layers: Vec<LayerSnap>,
}

fn snap(st: &EditState) -> Snap {
    let b = st.get_buffer();
    let mut fonts: Vec<(usize, String, u32)> = b.font_iter().map(|(i, f)| (*i, f.name.clone(), f.checksum)).collect();
    fonts.sort();
    let mut layers = Vec::new();
    for l in &b.layers {
        let mut cells = Vec::new();
        for y in 0..l.get_height().max(0) {
            for x in 0..l.get_width().max(0) {
                let c = l.get_char((x, y)); cells.push((c, if c.is_visible() || std::env::var("STRICT").is_ok() { c.get_font_page() } else { 0 }));
            }
        }
        layers.push(LayerSnap {
            title: l.properties.title.clone(),
            props: format!("{:?}", l.properties),
            role: format!("{:?}", l.role),
            size: l.get_size(),
            offset: l.get_offset(),
            default_font_page: l.default_font_page,
            cells,
        });
    }
    Snap {
        size: b.get_size(),
        ice: format!("{:?}", b.ice_mode),
        pal_mode: format!("{:?}", b.palette_mode),
        font_mode: format!("{:?}", b.font_mode),
        palette: format!("{:?}", b.palette),
        fonts,
        sauce: b.get_sauce().as_ref().map(|s| (s.buffer_size, s.use_ice, s.font_opt.clone(), s.title.to_string())),
        layers,
    }
}

fn diff(a: &Snap, b: &Snap) -> String {
    let mut s = String::new();
    if a.size != b.size {
        s += &format!("size {:?} vs {:?}; ", a.size, b.size);
    }
    if a.ice != b.ice {
        s += &format!("ice {} vs {}; ", a.ice, b.ice);
    }
    if a.pal_mode != b.pal_mode {
        s += "palmode; ";
    }
    if a.palette != b.palette {
        s += "palette; ";
    }
    if a.fonts != b.fonts {
        s += &format!("fonts {:?} vs {:?}; ", a.fonts, b.fonts);
    }
    if a.sauce != b.sauce {
        s += &format!("sauce {:?} vs {:?}; ", a.sauce, b.sauce);
    }
    if a.layers.len() != b.layers.len() {
        s += &format!("layer count {} vs {}; ", a.layers.len(), b.layers.len());
    } else {
        for (i, (x, y)) in a.layers.iter().zip(b.layers.iter()).enumerate() {
            if x.title != y.title || x.props != y.props {
                s += &format!("layer {i} props {} vs {}; ", x.props, y.props);
            }
            if x.role != y.role {
                s += &format!("layer {i} role; ");
            }
            if x.size != y.size {
                s += &format!("layer {i} size {:?} vs {:?}; ", x.size, y.size);
            }
            if x.offset != y.offset {
                s += &format!("layer {i} offset {:?} vs {:?}; ", x.offset, y.offset);
            }
            if x.default_font_page != y.default_font_page {
                s += &format!("layer {i} dfp; ");
            }
            if x.size == y.size && x.cells != y.cells {
                let w = x.size.width.max(1) as usize;
                for (k, (c, d)) in x.cells.iter().zip(y.cells.iter()).enumerate() {
                    if c != d {
                        s += &format!("layer {i} cell ({},{}) {:?} vs {:?}; ", k % w, k / w, c, d);
                        break;
                    }
                }
            }
        }
    }
    s
}

fn rnd_char(r: &mut Rng) -> AttributedChar {
    let mut c = rnd_char0(r);
    if r.chance(30) { c.set_font_page(2); }
    c
}

fn rnd_char0(r: &mut Rng) -> AttributedChar {
    match r.below(10) {
        0 => AttributedChar::invisible(),
        1 => AttributedChar::new(' ', TextAttribute::new(7, 0)),
        2 => AttributedChar::new(219 as char, TextAttribute::new(r.below(16) as u32, r.below(16) as u32)),
        3 => AttributedChar::new('/', TextAttribute::new(r.below(16) as u32, r.below(16) as u32)),
        4 => {
            let mut a = TextAttribute::new(r.below(16) as u32, r.below(8) as u32);
            a.set_is_blinking(true);
            AttributedChar::new((176 + r.below(48) as u8) as char, a)
        }
        5 => AttributedChar::new('x', TextAttribute::new(TextAttribute::TRANSPARENT_COLOR, 3)),
        _ => AttributedChar::new((b'a' + r.below(26) as u8) as char, TextAttribute::new(r.below(16) as u32, r.below(16) as u32)),
    }
}

fn rnd_layer(r: &mut Rng, bw: i32, bh: i32, base: bool) -> Layer {
    let (w, h) = if base && r.chance(70) { (bw, bh) } else { (r.range(1, bw + 2), r.range(1, bh + 2)) };
    let mut l = Layer::new(format!("L{}", r.below(100)), (w, h));
    if r.chance(30) {
        l.lines.clear();
    }
    l.properties.has_alpha_channel = r.chance(50);
    for _ in 0..r.below((w * h) as u64 + 1) {
        let c = rnd_char(r);
        l.set_char((r.range(0, w - 1), r.range(0, h - 1)), c);
    }
    if !base || r.chance(30) {
        l.set_offset((r.range(-2, 3), r.range(-2, 3)));
    }
    if r.chance(15) {
        l.properties.is_visible = false;
    }
    if r.chance(15) {
        l.properties.is_locked = true;
    }
    if r.chance(15) {
        l.properties.is_alpha_channel_locked = true;
    }
    if r.chance(10) {
        l.properties.is_position_locked = true;
    }
    l
}

fn rnd_doc(r: &mut Rng) -> EditState {
    let bw = r.range(3, 7);
    let bh = r.range(3, 6);
    let mut b = Buffer::new((bw, bh));
    b.layers.clear();
    let n = r.range(1, 3);
    for i in 0..n {
        b.layers.push(rnd_layer(r, bw, bh, i == 0));
    }
    b.font_mode = match r.below(4) {
        0 => FontMode::Unlimited,
        1 => FontMode::Sauce,
        2 => FontMode::Single,
        _ => FontMode::FixedSize,
    };
    b.ice_mode = match r.below(3) {
        0 => IceMode::Unlimited,
        1 => IceMode::Blink,
        _ => IceMode::Ice,
    };
    if r.chance(40) {
        let mut s = SauceData::default();
        s.buffer_size = if r.chance(50) { Size::new(bw, bh) } else { Size::new(80, 25) };
        b.set_sauce(Some(s), false);
    }
    b.set_font(2, BitFont::from_ansi_font_page(2).unwrap());
    if r.chance(25) {
        let i = r.below(n as u64) as usize;
        b.layers[i].default_font_page = 2;
    }
    if r.chance(15) {
        let i = (n - 1) as usize;
        if i > 0 { b.layers[i].role = icy_engine::Role::PastePreview; }
    }
    let mut st = EditState::from_buffer(b);
    st.set_current_layer(r.below(n as u64) as usize);
    st
}

fn rnd_sel(r: &mut Rng, st: &EditState) -> Selection {
    let w = st.get_buffer().get_width();
    let h = st.get_buffer().get_height();
    let mut s = Selection::from(Rectangle::from_coords(0, 0, 1, 1));
    s.anchor = Position::new(r.range(-1, w), r.range(-1, h));
    s.lead = Position::new(r.range(-1, w + 1), r.range(-1, h + 1));
    if r.chance(20) {
        s.shape = Shape::Lines;
    }
    s.add_type = match r.below(4) {
        0 => AddType::Add,
        1 => AddType::Subtract,
        _ => AddType::Default,
    };
    s
}

fn do_op(r: &mut Rng, st: &mut EditState, log: &mut Vec<String>) -> Result<(), String> {
    let nl = st.get_buffer().layers.len();
    let w = st.get_buffer().get_width();
    let h = st.get_buffer().get_height();
    let li = if nl > 0 { r.below(nl as u64) as usize } else { 0 };
    let k = r.below(52);
    let res = match k {
        0 | 1 => {
            let p = Position::new(r.range(-1, w + 1), r.range(-1, h + 1));
            let c = rnd_char(r);
            log.push(format!("set_char({p:?},{c:?})"));
            st.set_char(p, c)
        }
        2 => {
            let p = Position::new(r.range(-1, w + 1), r.range(-1, h + 1));
            let q = Position::new(r.range(-1, w + 1), r.range(-1, h + 1));
            log.push(format!("swap_char({p:?},{q:?})"));
            st.swap_char(p, q)
        }
        3 => {
            log.push(format!("add_new_layer({li})"));
            st.add_new_layer(li)
        }
        4 => {
            log.push(format!("remove_layer({li})"));
            st.remove_layer(li)
        }
        5 => {
            log.push(format!("raise_layer({li})"));
            st.raise_layer(li)
        }
        6 => {
            log.push(format!("lower_layer({li})"));
            st.lower_layer(li)
        }
        7 => {
            log.push(format!("duplicate_layer({li})"));
            st.duplicate_layer(li)
        }
        8 => {
            log.push(format!("clear_layer({li})"));
            st.clear_layer(li)
        }
        9 => {
            log.push(format!("merge_layer_down({li})"));
            st.merge_layer_down(li)
        }
        10 => {
            log.push(format!("toggle_layer_visibility({li})"));
            st.toggle_layer_visibility(li)
        }
        11 => {
            let p = Position::new(r.range(-3, w), r.range(-3, h));
            log.push(format!("move_layer({p:?})"));
            st.move_layer(p)
        }
        12 => {
            let s = Size::new(r.range(0, w + 2), r.range(0, h + 2));
            log.push(format!("set_layer_size({li},{s:?})"));
            st.set_layer_size(li, s)
        }
        13 => {
            let s = Size::new(r.range(1, w + 2), r.range(1, h + 2));
            log.push(format!("resize_buffer(false,{s:?})"));
            st.resize_buffer(false, s)
        }
        14 => {
            let s = Size::new(r.range(1, w + 2), r.range(1, h + 2));
            log.push(format!("resize_buffer(true,{s:?})"));
            st.resize_buffer(true, s)
        }
        15 => {
            log.push("crop".into());
            st.crop()
        }
        16 | 17 => {
            let s = rnd_sel(r, st);
            log.push(format!("set_selection({s:?})"));
            st.set_selection(s)
        }
        18 => {
            log.push("clear_selection".into());
            st.clear_selection()
        }
        19 => {
            log.push("add_selection_to_mask".into());
            st.add_selection_to_mask()
        }
        20 => {
            log.push("inverse_selection".into());
            st.inverse_selection()
        }
        21 => {
            log.push("erase_selection".into());
            st.erase_selection()
        }
        22 => {
            log.push("flip_x".into());
            st.flip_x()
        }
        23 => {
            log.push("flip_y".into());
            st.flip_y()
        }
        24 => {
            log.push("justify_left".into());
            st.justify_left()
        }
        25 => {
            log.push("justify_right".into());
            st.justify_right()
        }
        26 => {
            log.push("center".into());
            st.center()
        }
        27 => {
            let p = Position::new(r.range(0, w), r.range(0, h));
            st.get_caret_mut().set_position(p);
            log.push(format!("caret {p:?}; insert_row"));
            st.insert_row()
        }
        28 => {
            let p = Position::new(r.range(0, w), r.range(0, h));
            st.get_caret_mut().set_position(p);
            log.push(format!("caret {p:?}; delete_row"));
            st.delete_row()
        }
        29 => {
            let p = Position::new(r.range(0, w), r.range(0, h));
            st.get_caret_mut().set_position(p);
            log.push(format!("caret {p:?}; insert_column"));
            st.insert_column()
        }
        30 => {
            let p = Position::new(r.range(0, w), r.range(0, h));
            st.get_caret_mut().set_position(p);
            log.push(format!("caret {p:?}; delete_column"));
            st.delete_column()
        }
        31 => {
            log.push("scroll_area_up".into());
            st.scroll_area_up()
        }
        32 => {
            log.push("scroll_area_down".into());
            st.scroll_area_down()
        }
        33 => {
            log.push("scroll_area_left".into());
            st.scroll_area_left()
        }
        34 => {
            log.push("scroll_area_right".into());
            st.scroll_area_right()
        }
        35 => {
            log.push("rotate_layer".into());
            st.rotate_layer()
        }
        36 => {
            log.push("make_layer_transparent".into());
            st.make_layer_transparent()
        }
        37 => {
            log.push("stamp_layer_down".into());
            st.stamp_layer_down()
        }
        38 => {
            // paste
            let pw = r.range(1, 3);
            let ph = r.range(1, 3);
            let mut data = vec![0u8];
            data.extend(i32::to_le_bytes(r.range(-1, w)));
            data.extend(i32::to_le_bytes(r.range(-1, h)));
            data.extend(u32::to_le_bytes(pw as u32));
            data.extend(u32::to_le_bytes(ph as u32));
            for _ in 0..pw * ph {
                let c = rnd_char(r);
                data.extend(u16::to_le_bytes(c.ch as u16));
                data.extend(u16::to_le_bytes(c.attribute.attr));
                data.extend(u16::to_le_bytes(c.get_font_page() as u16));
                data.extend(u32::to_le_bytes(c.attribute.get_background()));
                data.extend(u32::to_le_bytes(c.attribute.get_foreground()));
            }
            log.push(format!("paste {pw}x{ph} + select pasted layer"));
            let cur = st.get_current_layer().unwrap_or(0);
            let res = st.paste_clipboard_data(&data);
            st.set_current_layer(cur + 1);
            res
        }
        39 => {
            log.push("anchor_layer".into());
            st.anchor_layer()
        }
        40 => {
            log.push("add_floating_layer".into());
            st.add_floating_layer()
        }
        41 => {
            let m = match r.below(3) {
                0 => IceMode::Unlimited,
                1 => IceMode::Blink,
                _ => IceMode::Ice,
            };
            log.push(format!("set_ice_mode({m:?})"));
            st.set_ice_mode(m)
        }
        42 => {
            let m = match r.below(4) {
                0 => PaletteMode::RGB,
                1 => PaletteMode::Fixed16,
                2 => PaletteMode::Free8,
                _ => PaletteMode::Free16,
            };
            log.push(format!("set_palette_mode({m:?})"));
            st.set_palette_mode(m)
        }
        43 => {
            let which = r.below(6);
            log.push(format!("font op {which}"));
            match which {
                0 => st.add_ansi_font(r.below(5) as usize),
                1 => st.set_ansi_font(r.below(5) as usize),
                2 => st.set_sauce_font("IBM VGA50"),
                3 => st.add_font(BitFont::default()),
                4 => st.switch_to_font_page(r.below(3) as usize),
                _ => st.set_font(BitFont::from_ansi_font_page(2).unwrap()),
            }
        }
        44 => {
            let a = r.below(4) as usize;
            let b = r.below(4) as usize;
            log.push(format!("change_font_slot({a},{b})"));
            st.change_font_slot(a, b)
        }
        45 => {
            let a = r.below(4) as usize;
            log.push(format!("remove_font({a})"));
            st.remove_font(a)
        }
        48 => {
            let p = Position::new(r.range(-1, w), r.range(-1, h));
            st.get_caret_mut().set_position(p);
            let which = r.below(9);
            log.push(format!("caret {p:?}; line op {which}"));
            match which {
                0 => st.center_line(),
                1 => st.justify_line_left(),
                2 => st.justify_line_right(),
                3 => st.erase_row(),
                4 => st.erase_row_to_start(),
                5 => st.erase_row_to_end(),
                6 => st.erase_column(),
                7 => st.erase_column_to_start(),
                _ => st.erase_column_to_end(),
            }
        }
        49 => {
            if nl == 0 { return Ok(()); }
            let mut p = st.get_buffer().layers[li].properties.clone();
            match r.below(7) {
                0 => p.is_locked = !p.is_locked,
                1 => p.is_visible = !p.is_visible,
                2 => p.has_alpha_channel = !p.has_alpha_channel,
                3 => p.is_alpha_channel_locked = !p.is_alpha_channel_locked,
                4 => p.is_position_locked = !p.is_position_locked,
                5 => p.offset = Position::new(r.range(-2, 3), r.range(-2, 3)),
                _ => p.title = "renamed".into(),
            }
            log.push(format!("update_layer_properties({li},{p:?})"));
            st.update_layer_properties(li, p)
        }
        50 => {
            let m = r.chance(50);
            log.push(format!("set_mirror_mode({m})"));
            st.set_mirror_mode(m);
            Ok(())
        }
        46 => {
            let cl = r.below(nl.max(1) as u64) as usize;
            log.push(format!("set_current_layer({cl})"));
            st.set_current_layer(cl);
            Ok(())
        }
        _ => {
            let which = r.below(3);
            log.push(format!("sauce/palette op {which}"));
            match which {
                0 => st.update_sauce_data(None),
                1 => {
                    let mut s = SauceData::default();
                    s.buffer_size = Size::new(r.range(1, 90), r.range(1, 30));
                    s.use_ice = r.chance(50);
                    st.update_sauce_data(Some(s))
                }
                _ => st.switch_to_palette(Palette::from_slice(&icy_engine::EGA_PALETTE)),
            }
        }
    };
    res.map_err(|e| e.to_string())
}

fn run_case(seed: u64, maxlen: usize) -> Result<(), String> {
    let mut r = Rng(seed.wrapping_mul(0x9E3779B97F4A7C15) | 1);
    let mut st = rnd_doc(&mut r);
    let mut log: Vec<String> = Vec::new();
    // snaps[i] = (stack len, snapshot)
    let mut snaps: Vec<(usize, Snap)> = vec![(0, snap(&st))];
    let phases = 1 + r.below(3);
    for phase in 0..phases {
    let last = phase + 1 == phases;
    let n = 1 + r.below(maxlen as u64) as usize;
    for _ in 0..n {
        let before_len = st.undo_stack_len();
        let before = snap(&st);
        let raw_before = format!("{:?}", st.get_buffer().layers);
        let lenlog = log.len();
        let res = catch_unwind(AssertUnwindSafe(|| do_op(&mut r, &mut st, &mut log)));
        match res {
            Err(_) => {
                // the operation itself panicked: not what we are looking for; stop here, state may be torn
                PANICS.fetch_add(1, std::sync::atomic::Ordering::Relaxed);
                if std::env::var("SHOWPANIC").is_ok() { eprintln!("PANIC in {}", log.last().map(|s| s.chars().take(40).collect::<String>()).unwrap_or_default()); }
                let after = snap(&st);
                if after != before || st.undo_stack_len() != before_len || raw_before != format!("{:?}", st.get_buffer().layers) {
                    return Ok(());
                }
                let _ = lenlog;
                let l = if log.len() > lenlog { log.pop().unwrap() } else { String::from("?") };
                log.push(format!("{l} -> PANIC (ignored, nothing changed)"));
            }
            Ok(Err(_e)) => {
                // failed op: must not have been recorded.. if it changed things we stop (out of scope)
                let after = snap(&st);
                if after != before || st.undo_stack_len() != before_len {
                    return Ok(());
                }
                let l = log.pop().unwrap();
                log.push(format!("{l} -> Err (ignored)"));
            }
            Ok(Ok(())) => {
                let after = snap(&st);
                let len = st.undo_stack_len();
                if len == before_len {
                    if after != before {
                        return Err(format!("op reported success, changed the document, but recorded no undo step: {}\nlog: {:#?}", diff(&before, &after), log));
                    }
                } else if len == before_len + 1 {
                    if st.can_redo() {
                        return Err(format!("a new edit after an undo did not discard the redo history\nlog: {:#?}", log));
                    }
                    snaps.push((len, after));
                } else {
                    return Err(format!("stack len jumped {before_len} -> {len}\nlog: {:#?}", log));
                }
            }
        }
    }
    let total = st.undo_stack_len();
    // random walk of undo/redo, then full undo, then full redo
    let mut pos = total;
    let mut script: Vec<bool> = Vec::new(); // true = undo
    for _ in 0..(r.below(2 * total as u64 + 1)) {
        script.push(r.chance(60));
    }
    if last {
    for _ in 0..total {
        script.push(true);
    }
    for _ in 0..total {
        script.push(false);
    }
    for _ in 0..total {
        script.push(true);
    }
    }
    let mut trace = String::new();
    for u in script {
        if u {
            if pos == 0 {
                continue;
            }
            trace.push('U');
            let res = catch_unwind(AssertUnwindSafe(|| st.undo()));
            match res {
                Err(_) => return Err(format!("undo panicked at pos {pos} trace {trace}\nlog: {:#?}", log)),
                Ok(Err(e)) => return Err(format!("undo failed at pos {pos}: {e} trace {trace}\nlog: {:#?}", log)),
                Ok(Ok(())) => {}
            }
            pos -= 1;
        } else {
            if pos == total {
                continue;
            }
            trace.push('R');
            let res = catch_unwind(AssertUnwindSafe(|| st.redo()));
            match res {
                Err(_) => return Err(format!("redo panicked at pos {pos} trace {trace}\nlog: {:#?}", log)),
                Ok(Err(e)) => return Err(format!("redo failed at pos {pos}: {e} trace {trace}\nlog: {:#?}", log)),
                Ok(Ok(())) => {}
            }
            pos += 1;
        }
        if st.undo_stack_len() != pos {
            return Err(format!("stack len {} != pos {pos}", st.undo_stack_len()));
        }
        let now = snap(&st);
        let want = &snaps.iter().find(|(l, _)| *l == pos).unwrap().1;
        if &now != want {
            return Err(format!(
                "after trace {trace} (pos {pos} of {total}) the document differs from the state it had at that point: {}\nlog: {:#?}",
                diff(want, &now),
                log
            ));
        }
    }
    log.push(format!("walk {trace} -> pos {pos}"));
    snaps.retain(|(l, _)| *l <= pos);
    }
    Ok(())
}

#[test]
fn fuzz() {
    std::panic::set_hook(Box::new(|info| { if std::env::var("SHOWPANIC").is_ok() { eprintln!("PMSG {}", info.to_string().replace('\n', " ")); } }));
    let start: u64 = std::env::var("SEED0").ok().and_then(|s| s.parse().ok()).unwrap_or(1);
    let count: u64 = std::env::var("COUNT").ok().and_then(|s| s.parse().ok()).unwrap_or(20000);
    let maxlen: usize = std::env::var("MAXLEN").ok().and_then(|s| s.parse().ok()).unwrap_or(6);
    let mut fails = 0;
    let mut seen = std::collections::HashSet::new();
    for seed in start..start + count {
        if let Err(e) = run_case(seed, maxlen) {
            let key: String = e.chars().take(60).collect();
            if seen.insert(key) {
                eprintln!("=== seed {seed}: {e}");
            }
            fails += 1;
        }
    }
    let _ = std::panic::take_hook();
    eprintln!("op panics: {}", PANICS.load(std::sync::atomic::Ordering::Relaxed));
    assert_eq!(fails, 0, "{fails} failing cases");
}
