// C05 / BIN: a blink mode picture comes back in "unlimited" mode.
use icy_engine::{AttributedChar, Buffer, IceMode, SaveOptions, TextAttribute};
use std::path::PathBuf;

#[test]
fn bin_blink_mode_is_not_restored() {
    let mut buf = Buffer::new((2, 1));
    buf.ice_mode = IceMode::Blink;
    buf.layers[0].set_char((0, 0), AttributedChar::new('A', TextAttribute::from_u8(0x9E, IceMode::Blink)));
    buf.layers[0].set_char((1, 0), AttributedChar::new('B', TextAttribute::from_u8(0x1E, IceMode::Blink)));

    let mut opt = SaveOptions::default();
    opt.lossles_output = true;
    opt.save_sauce = true;
    let bytes = buf.to_bytes("bin", &opt).unwrap();
    let loaded = Buffer::from_bytes(&PathBuf::from("pic.bin"), false, &bytes).unwrap();
    assert_eq!(
        loaded.ice_mode,
        IceMode::Blink,
        "BIN saved in blink mode (SAUCE flag 'non blink' = 0) must come back in blink mode, as it does for XBin"
    );
}

#[test]
fn xbin_for_comparison() {
    let mut buf = Buffer::new((2, 1));
    buf.ice_mode = IceMode::Blink;
    buf.layers[0].set_char((0, 0), AttributedChar::new('A', TextAttribute::from_u8(0x9E, IceMode::Blink)));
    buf.layers[0].set_char((1, 0), AttributedChar::new('B', TextAttribute::from_u8(0x1E, IceMode::Blink)));
    let mut opt = SaveOptions::default();
    opt.lossles_output = true;
    let bytes = buf.to_bytes("xb", &opt).unwrap();
    let loaded = Buffer::from_bytes(&PathBuf::from("pic.xb"), false, &bytes).unwrap();
    assert_eq!(loaded.ice_mode, IceMode::Blink);
}
