// C05 / XBin, ADF, IDF with an embedded font: saving with the default options replaces empty glyphs
// by character 0x20 - although 0x20 is not an empty glyph in the font that is embedded in the file.
use icy_engine::{AttributedChar, BitFont, Buffer, IceMode, Rectangle, SaveOptions, TextAttribute, TextPane};
use std::path::PathBuf;

fn picture() -> Buffer {
    // a font whose glyph 'A' is empty and whose glyph 0x20 is a visible pattern
    let mut data = vec![0u8; 256 * 16];
    for g in 0..256usize {
        for y in 0..16 {
            data[g * 16 + y] = if g == b'A' as usize { 0 } else { (g as u8) | 0x81 };
        }
    }
    let mut buf = Buffer::new((80, 1));
    buf.ice_mode = IceMode::Ice;
    buf.set_font(0, BitFont::create_8("custom", 8, 16, &data));
    for x in 0..80 {
        let ch = if x == 0 { 'A' } else { 'B' };
        buf.layers[0].set_char((x, 0), AttributedChar::new(ch, TextAttribute::from_u8(0x1F, IceMode::Ice)));
    }
    buf
}

fn check(ext: &str) {
    let buf = picture();
    let bytes = buf.to_bytes(ext, &SaveOptions::default()).unwrap();
    let loaded = Buffer::from_bytes(&PathBuf::from(format!("pic.{ext}")), false, &bytes).unwrap();
    let rect = Rectangle::from_min_size((0, 0), (80, 1));
    assert_eq!(
        buf.get_font(0).unwrap().convert_to_u8_data(),
        loaded.get_font(0).unwrap().convert_to_u8_data(),
        "{ext}: the font is embedded"
    );
    assert!(
        buf.render_to_rgba(rect).1 == loaded.render_to_rgba(rect).1,
        "{ext}: the rendered picture changed: cell (0,0) was the empty glyph {:?}, it was saved as {:?} which is a visible glyph in the embedded font",
        buf.get_char((0, 0)).ch,
        loaded.get_char((0, 0)).ch
    );
}

#[test]
fn xbin_default_options() {
    check("xb");
}

#[test]
fn adf_default_options() {
    check("adf");
}

#[test]
fn idf_default_options() {
    check("idf");
}
