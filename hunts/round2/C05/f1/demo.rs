// C05 / XBin: a picture whose last 64 cells happen to spell a SAUCE record is cut off on load.
use icy_engine::{AttributedChar, Buffer, IceMode, SaveOptions, TextAttribute, TextPane};
use std::path::PathBuf;

#[test]
fn xbin_cells_that_look_like_a_sauce_record_are_lost() {
    // 128 bytes = 64 (char, attribute) cells; legal content of an ice colour XBin
    let mut tail = vec![b' '; 128];
    tail[0..7].copy_from_slice(b"SAUCE00");
    tail[82..90].copy_from_slice(b"20200101"); // the "date" of the record
    tail[90..128].fill(0); // file size, types, no comments, no flags, no font name

    let (w, h) = (64, 3);
    let mut buf = Buffer::new((w, h));
    buf.ice_mode = IceMode::Ice;
    for y in 0..h {
        for x in 0..w {
            let (ch, attr) = if y == h - 1 {
                (tail[x as usize * 2], tail[x as usize * 2 + 1])
            } else {
                (b'#', 0x1E)
            };
            buf.layers[0].set_char((x, y), AttributedChar::new(ch as char, TextAttribute::from_u8(attr, IceMode::Ice)));
        }
    }

    let mut opt = SaveOptions::default();
    opt.compress = false;
    opt.save_sauce = false;
    opt.lossles_output = true;
    let bytes = buf.to_bytes("xb", &opt).unwrap();
    assert_eq!(bytes.len(), 11 + (w * h * 2) as usize, "header + cells, nothing else was written");

    let loaded = Buffer::from_bytes(&PathBuf::from("pic.xb"), false, &bytes).expect("a file the writer produced must load");
    assert!(!loaded.has_sauce(), "the file has no SAUCE record, but the loader found one in the picture data");
    for y in 0..h {
        for x in 0..w {
            let a = buf.get_char((x, y));
            let b = loaded.get_char((x, y));
            assert_eq!(a.ch, b.ch, "character at ({x},{y}) differs after save + load");
            assert_eq!(
                a.attribute.as_u8(IceMode::Ice),
                b.attribute.as_u8(IceMode::Ice),
                "colours at ({x},{y}) differ after save + load"
            );
        }
    }
}
