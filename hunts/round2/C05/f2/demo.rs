// C05 / iCE Draw: a picture of odd width can't be saved together with its SAUCE record.
use icy_engine::{AttributedChar, Buffer, IceMode, SaveOptions, TextAttribute, TextPane};
use std::path::PathBuf;

#[test]
fn idf_odd_width_with_sauce() {
    let (w, h) = (79, 2); // IDF widths 1..=80 are part of the format (x1/x2 in the header)
    let mut buf = Buffer::new((w, h));
    buf.ice_mode = IceMode::Ice;
    for y in 0..h {
        for x in 0..w {
            buf.layers[0].set_char((x, y), AttributedChar::new('A', TextAttribute::from_u8(0x1E, IceMode::Ice)));
        }
    }
    // the default the engine proposes for this buffer is "save with SAUCE" (width != 80)
    assert!(icy_engine::get_save_sauce_default_idf(&buf).0);

    let mut opt = SaveOptions::default();
    opt.lossles_output = true;
    opt.save_sauce = true;
    let bytes = match buf.to_bytes("idf", &opt) {
        Ok(b) => b,
        Err(e) => panic!("a {w} column iCE Draw picture can't be saved with SAUCE: {e}"),
    };
    let loaded = Buffer::from_bytes(&PathBuf::from("pic.idf"), false, &bytes).unwrap();
    assert_eq!((loaded.get_width(), loaded.get_height()), (w, h));
}

#[test]
fn idf_odd_width_file_with_sauce_can_not_be_saved_again() {
    // generation 1 without SAUCE works, a SAUCE record of any kind appended to it is accepted by the loader
    let (w, h) = (79, 2);
    let mut buf = Buffer::new((w, h));
    buf.ice_mode = IceMode::Ice;
    for y in 0..h {
        for x in 0..w {
            buf.layers[0].set_char((x, y), AttributedChar::new('A', TextAttribute::from_u8(0x1E, IceMode::Ice)));
        }
    }
    let mut opt = SaveOptions::default();
    opt.lossles_output = true;
    opt.save_sauce = false;
    let mut bytes = buf.to_bytes("idf", &opt).unwrap();
    // an ANSI type SAUCE record, as the ADF writer of this crate writes it
    let mut tmp = Vec::new();
    let mut src = Buffer::new((80, 2));
    src.ice_mode = IceMode::Ice;
    src.write_sauce_info(icy_engine::SauceFileType::Ansi, &mut tmp).unwrap();
    bytes.extend(tmp);

    let first = Buffer::from_bytes(&PathBuf::from("pic.idf"), false, &bytes).unwrap();
    assert_eq!(first.get_width(), 79);
    assert!(first.has_sauce());
    opt.save_sauce = true; // keep the record the file came with
    if let Err(e) = first.to_bytes("idf", &opt) {
        panic!("a file the IDF loader accepted can't be saved again in the same format: {e}");
    }
}
