// C05 / iCE Draw: the loader accepts pictures with more than 200 rows, the writer refuses them:
// such a file can't be saved again in its own format.
use icy_engine::{Buffer, SaveOptions, TextPane};
use std::path::PathBuf;

#[test]
fn idf_with_201_rows_loads_but_can_not_be_saved_again() {
    let rows: u16 = 201;
    let mut data = b"\x041.4".to_vec();
    data.extend(0u16.to_le_bytes()); // x1
    data.extend(0u16.to_le_bytes()); // y1
    data.extend(79u16.to_le_bytes()); // x2
    data.extend((rows - 1).to_le_bytes()); // y2
    for _ in 0..rows {
        // one run per row: 80 x 'A' yellow on blue
        data.extend([1, 0, 80, 0, b'A', 0x1E]);
    }
    data.extend(vec![0x55u8; 4096]); // font
    data.extend(vec![0x2Au8; 48]); // palette

    let first = Buffer::from_bytes(&PathBuf::from("pic.idf"), false, &data).expect("the loader accepts the file");
    assert_eq!((first.get_width(), first.get_height()), (80, rows as i32));
    assert_eq!(first.get_char((79, 200)).ch, 'A');

    let mut opt = SaveOptions::default();
    opt.lossles_output = true;
    let bytes = match first.to_bytes("idf", &opt) {
        Ok(b) => b,
        Err(e) => panic!("a file the IDF loader accepted can't be saved again as IDF: {e}"),
    };
    let second = Buffer::from_bytes(&PathBuf::from("pic.idf"), false, &bytes).unwrap();
    assert_eq!((second.get_width(), second.get_height()), (80, rows as i32));
}
