//! Panic capture and stable call-site signatures.
//!
//! signature = `panic:<file under src/>::<enclosing fn>:<class>`; the enclosing fn is found by
//! scanning the *current* source upward from the reported line, so line shifts do not change it.

use std::cell::RefCell;
use std::collections::HashMap;
use std::panic::{catch_unwind, AssertUnwindSafe};
use std::sync::Mutex;

#[derive(Clone, Debug)]
pub struct PanicRec {
    pub file: String,
    pub line: u32,
    pub msg: String,
    /// innermost frame under /repo/src when `file` is not (dependency / std panics)
    pub repo_frame: Option<(String, u32)>,
}

thread_local! {
    static LAST: RefCell<Option<PanicRec>> = const { RefCell::new(None) };
}

/// panics that happened on threads other than the one inside `catch` (sixel decoders)
static FOREIGN: Mutex<Vec<PanicRec>> = Mutex::new(Vec::new());
static MAIN_THREAD: Mutex<Option<std::thread::ThreadId>> = Mutex::new(None);

thread_local! {
    static CATCH_DEPTH: std::cell::Cell<u32> = const { std::cell::Cell::new(0) };
}

pub fn install_hook() {
    *MAIN_THREAD.lock().unwrap() = Some(std::thread::current().id());
    std::panic::set_hook(Box::new(|info| {
        let (file, line) = info.location().map(|l| (l.file().to_string(), l.line())).unwrap_or_default();
        let msg = if let Some(s) = info.payload().downcast_ref::<&str>() {
            (*s).to_string()
        } else if let Some(s) = info.payload().downcast_ref::<String>() {
            s.clone()
        } else {
            "<non-string payload>".to_string()
        };
        let mut repo_frame = None;
        if !file.contains("/repo/src/") && !file.starts_with("src/") {
            let bt = std::backtrace::Backtrace::force_capture().to_string();
            for l in bt.lines() {
                let l = l.trim();
                if let Some(rest) = l.strip_prefix("at ") {
                    if let Some(p) = rest.find("/repo/src/") {
                        let loc = &rest[p..];
                        let mut it = loc.split(':');
                        let f = it.next().unwrap_or("").to_string();
                        let ln = it.next().and_then(|x| x.parse().ok()).unwrap_or(0);
                        repo_frame = Some((f, ln));
                        break;
                    }
                }
            }
        }
        if CATCH_DEPTH.with(|d| d.get()) == 0 {
            eprintln!("uncaught panic (machinery): {file}:{line}: {msg}");
        }
        let rec = PanicRec { file, line, msg, repo_frame };
        let is_main = *MAIN_THREAD.lock().unwrap() == Some(std::thread::current().id());
        if is_main {
            LAST.with(|l| *l.borrow_mut() = Some(rec));
        } else if let Ok(mut f) = FOREIGN.lock() {
            if f.len() < 64 {
                f.push(rec);
            }
        }
    }));
}

/// Run `f`, converting a panic into a record.
pub fn catch<T>(f: impl FnOnce() -> T) -> Result<T, PanicRec> {
    CATCH_DEPTH.with(|d| d.set(d.get() + 1));
    let r = catch_unwind(AssertUnwindSafe(f));
    CATCH_DEPTH.with(|d| d.set(d.get() - 1));
    match r {
        Ok(v) => Ok(v),
        Err(_) => Err(LAST.with(|l| l.borrow_mut().take()).unwrap_or(PanicRec {
            file: "?".into(),
            line: 0,
            msg: "panic without hook record".into(),
            repo_frame: None,
        })),
    }
}

pub fn drain_foreign() -> Vec<PanicRec> {
    std::mem::take(&mut *FOREIGN.lock().unwrap())
}

pub fn class_of(msg: &str) -> &'static str {
    let m = msg;
    if m.contains("index out of bounds") || m.contains("removal index") || m.contains("insertion index") || m.contains("swap_remove index") {
        "index"
    } else if m.contains("range end index")
        || m.contains("range start index")
        || m.contains("slice index starts")
        || m.contains("out of range for slice")
        || m.contains("mid > len")
        || m.contains("source slice length")
        || m.contains("copy_from_slice")
    {
        "slice"
    } else if m.contains("byte index") || m.contains("char boundary") {
        "str-slice"
    } else if m.contains("`Option::unwrap()` on a `None`") {
        "unwrap-none"
    } else if m.contains("`Result::unwrap()` on an `Err`") {
        "unwrap-err"
    } else if m.contains("attempt to add with overflow") {
        "overflow-add"
    } else if m.contains("attempt to subtract with overflow") {
        "overflow-sub"
    } else if m.contains("attempt to multiply with overflow") {
        "overflow-mul"
    } else if m.contains("attempt to negate with overflow") {
        "overflow-neg"
    } else if m.contains("attempt to shift") {
        "overflow-shift"
    } else if m.contains("divide by zero") || m.contains("divisor of zero") {
        "div-zero"
    } else if m.contains("attempt to divide with overflow") || m.contains("remainder with overflow") {
        "overflow-div"
    } else if m.contains("assertion") || m.contains("line out of range") {
        "assert"
    } else if m.contains("not yet implemented") || m.contains("not implemented") {
        "todo"
    } else if m.contains("capacity overflow") {
        "capacity"
    } else if m.contains("unreachable") {
        "unreachable"
    } else if m.contains("already borrowed") || m.contains("already mutably borrowed") {
        "borrow"
    } else {
        "other"
    }
}

static FN_CACHE: Mutex<Option<HashMap<(String, u32), String>>> = Mutex::new(None);

fn enclosing_fn(file: &str, line: u32) -> String {
    let mut g = FN_CACHE.lock().unwrap();
    let cache = g.get_or_insert_with(HashMap::new);
    if let Some(s) = cache.get(&(file.to_string(), line)) {
        return s.clone();
    }
    let mut name = "?".to_string();
    if let Ok(src) = std::fs::read_to_string(file) {
        let lines: Vec<&str> = src.lines().collect();
        let mut i = (line as usize).min(lines.len());
        while i > 0 {
            i -= 1;
            let l = lines[i];
            if let Some(p) = find_fn(l) {
                name = p;
                break;
            }
        }
    }
    cache.insert((file.to_string(), line), name.clone());
    name
}

fn find_fn(l: &str) -> Option<String> {
    let t = l.trim_start();
    if t.starts_with("//") {
        return None;
    }
    let mut rest = t;
    loop {
        let p = rest.find("fn ")?;
        let before_ok = p == 0 || !rest.as_bytes()[p - 1].is_ascii_alphanumeric() && rest.as_bytes()[p - 1] != b'_';
        let after = &rest[p + 3..];
        let ident: String = after.chars().take_while(|c| c.is_alphanumeric() || *c == '_').collect();
        if before_ok && !ident.is_empty() {
            let tail = after[ident.len()..].trim_start();
            if tail.starts_with('(') || tail.starts_with('<') {
                return Some(ident);
            }
        }
        rest = &rest[p + 3..];
    }
}

impl PanicRec {
    /// (file relative to /repo/src or dependency name, line)
    pub fn site(&self) -> (String, u32) {
        if self.file.contains("/repo/src/") || self.file.starts_with("src/") {
            (self.file.clone(), self.line)
        } else if let Some((f, l)) = &self.repo_frame {
            (f.clone(), *l)
        } else {
            (self.file.clone(), self.line)
        }
    }

    pub fn signature(&self) -> String {
        let (file, line) = self.site();
        let class = class_of(&self.msg);
        if let Some(p) = file.find("/repo/src/") {
            let rel = &file[p + "/repo/src/".len()..];
            let f = enclosing_fn(&file, line);
            let via = if self.repo_frame.is_some() && !self.file.contains("/repo/src/") { "(via dep)" } else { "" };
            format!("panic:{rel}::{f}:{class}{via}")
        } else {
            // no repo frame at all: name the dependency file
            let short = file.rsplit("/registry/src/").next().unwrap_or(&file);
            let short = short.split_once('/').map(|x| x.1).unwrap_or(short);
            format!("panic:<dep>{short}:{class}")
        }
    }

    pub fn to_json(&self) -> serde_json::Value {
        let (f, l) = self.site();
        serde_json::json!({"kind":"panic","at": format!("{f}:{l}"), "raw_at": format!("{}:{}", self.file, self.line), "msg": self.msg.chars().take(300).collect::<String>()})
    }
}
