//! Worker side of the supervisor protocol (see /verif/check for the other side).
//!
//! px_<engine> <prop> <tier> --shard i --of n --out <file> [--start k] [--skip a,b] [--budget-ms m]
//!                           [--wall-cap-s s] [--mem-cap-mb m]
//! px_<engine> <prop> <tier> --replay <case.json>
//!
//! Exit codes: 0 finished (violations, if any, are in the out file), 3 per-case CPU budget exceeded,
//! 4 per-case wall budget exceeded (sleep / blocked), 5 live-memory cap exceeded, anything else
//! (signals) is an abort of the case whose index is in the progress cell.

use serde_json::{json, Value};
use std::collections::{BTreeMap, HashSet};
use std::io::Write;
use std::sync::atomic::{AtomicU64, Ordering::SeqCst};
use std::time::Instant;

pub const EXIT_CPU: i32 = 3;
pub const EXIT_STALL: i32 = 4;

pub trait Engine {
    /// number of cases of this (property, tier); cases are 0..total
    fn total(&self) -> u64;
    /// run case `idx` on the real code and judge it
    fn run(&mut self, idx: u64, ctx: &mut Ctx);
    /// self-contained description of case `idx` (used for replays and evidence samples)
    fn describe(&self, idx: u64) -> Value;
    /// run a described case
    fn replay(&mut self, case: &Value, ctx: &mut Ctx);
    /// bounds / strata of the enumeration, copied into the evidence
    fn meta(&self) -> Value {
        json!({})
    }
}

pub struct Ctx {
    pub counters: BTreeMap<String, u64>,
    pub fps: HashSet<u64>,
    pub outcomes: HashSet<u64>,
    pub fp_cap: usize,
    pub fp_overflow: bool,
    pending: Vec<(String, Value)>,
    pub tier: String,
    pub prop: String,
    pub replaying: bool,
}

impl Ctx {
    fn new(prop: &str, tier: &str) -> Self {
        Ctx {
            counters: BTreeMap::new(),
            fps: HashSet::new(),
            outcomes: HashSet::new(),
            fp_cap: 4_000_000,
            fp_overflow: false,
            pending: vec![],
            tier: tier.into(),
            prop: prop.into(),
            replaying: false,
        }
    }
    #[inline]
    pub fn count(&mut self, name: &str, n: u64) {
        if let Some(c) = self.counters.get_mut(name) {
            *c += n;
        } else {
            self.counters.insert(name.to_string(), n);
        }
    }
    /// distinct observable state reached
    #[inline]
    pub fn state(&mut self, fp: u64) {
        if self.fps.len() < self.fp_cap {
            self.fps.insert(fp);
        } else {
            self.fp_overflow = true;
        }
    }
    /// distinct outcome of a whole case (vacuity indicator)
    #[inline]
    pub fn outcome(&mut self, fp: u64) {
        if self.outcomes.len() < self.fp_cap {
            self.outcomes.insert(fp);
        }
    }
    pub fn violation(&mut self, sig: impl Into<String>, observed: Value) {
        self.pending.push((sig.into(), observed));
    }
    pub fn panic(&mut self, p: &crate::PanicRec, extra: Value) {
        let mut o = p.to_json();
        o["where"] = extra;
        self.violation(p.signature(), o);
    }
}

static CELL: AtomicU64 = AtomicU64::new(0); // address of the mmap cell (0 = none)
static CASE_CPU_START_NS: AtomicU64 = AtomicU64::new(0);
static CASE_WALL_START_MS: AtomicU64 = AtomicU64::new(0);
static RUNNING: AtomicU64 = AtomicU64::new(0);

fn cell_write(slot: usize, v: u64) {
    let a = CELL.load(SeqCst);
    if a != 0 {
        unsafe { std::ptr::write_volatile((a as *mut u64).add(slot), v) }
    }
}

pub fn die(code: i32) -> ! {
    cell_write(2, code as u64);
    unsafe { libc::_exit(code) }
}

pub fn process_cpu_ns() -> u64 {
    let mut ts = libc::timespec { tv_sec: 0, tv_nsec: 0 };
    unsafe { libc::clock_gettime(libc::CLOCK_PROCESS_CPUTIME_ID, &mut ts) };
    ts.tv_sec as u64 * 1_000_000_000 + ts.tv_nsec as u64
}

pub fn thread_cpu_ns() -> u64 {
    let mut ts = libc::timespec { tv_sec: 0, tv_nsec: 0 };
    unsafe { libc::clock_gettime(libc::CLOCK_THREAD_CPUTIME_ID, &mut ts) };
    ts.tv_sec as u64 * 1_000_000_000 + ts.tv_nsec as u64
}

fn map_cell(path: &str) {
    use std::os::unix::io::AsRawFd;
    let f = std::fs::OpenOptions::new().read(true).write(true).create(true).truncate(true).open(path).expect("cell file");
    f.set_len(64).unwrap();
    let p = unsafe { libc::mmap(std::ptr::null_mut(), 64, libc::PROT_READ | libc::PROT_WRITE, libc::MAP_SHARED, f.as_raw_fd(), 0) };
    assert!(p != libc::MAP_FAILED, "mmap");
    CELL.store(p as u64, SeqCst);
    std::mem::forget(f);
}

fn arg<'a>(args: &'a [String], name: &str) -> Option<&'a str> {
    args.iter().position(|a| a == name).and_then(|i| args.get(i + 1)).map(|s| s.as_str())
}

pub fn tier_from_args() -> (String, String) {
    let a: Vec<String> = std::env::args().collect();
    (a.get(1).cloned().unwrap_or_default(), a.get(2).cloned().unwrap_or_else(|| "quick".into()))
}

/// Entry point of every engine binary. `make` builds the engine for (prop, tier).
pub fn worker_main(make: impl FnOnce(&str, &str) -> Box<dyn Engine>) {
    let args: Vec<String> = std::env::args().collect();
    if args.len() < 3 {
        eprintln!("usage: {} <prop> <tier> --shard i --of n --out file | --replay case.json", args[0]);
        std::process::exit(2);
    }
    let prop = args[1].clone();
    let tier = args[2].clone();
    crate::panics::install_hook();
    std::env::set_var("LANG", "C");
    std::env::set_var("LC_ALL", "C");
    std::env::set_var("TZ", "UTC");
    let mem_cap_mb: usize = arg(&args, "--mem-cap-mb").and_then(|s| s.parse().ok()).unwrap_or(1024);
    crate::alloc::set_cap(mem_cap_mb << 20);
    let budget_ms: u64 = arg(&args, "--budget-ms").and_then(|s| s.parse().ok()).unwrap_or(2000);
    let wall_ms: u64 = arg(&args, "--case-wall-ms").and_then(|s| s.parse().ok()).unwrap_or(budget_ms * 5 + 3000);

    let mut engine = make(&prop, &tier);
    let mut ctx = Ctx::new(&prop, &tier);

    if let Some(path) = arg(&args, "--replay") {
        let txt = std::fs::read_to_string(path).expect("replay file");
        let v: Value = serde_json::from_str(&txt).expect("replay json");
        let case = if v.get("case").is_some() { v["case"].clone() } else { v.clone() };
        ctx.replaying = true;
        start_watchdog(budget_ms, wall_ms);
        // state that the code under test keeps across calls (a cache, a static): a case may only fail after earlier cases ran in the
        // same process. --warmup runs the listed case indices first (their violations are dropped), --repeat runs the case several times.
        if let Some(w) = arg(&args, "--warmup") {
            for i in w.split(',').filter_map(|x| x.parse::<u64>().ok()) {
                if i < engine.total() {
                    begin_case(i);
                    engine.run(i, &mut ctx);
                    end_case();
                }
            }
            ctx.pending.clear();
        }
        let repeat: u32 = arg(&args, "--repeat").and_then(|s| s.parse().ok()).unwrap_or(1);
        for _ in 0..repeat.max(1) {
            begin_case(u64::MAX);
            engine.replay(&case, &mut ctx);
            end_case();
        }
        let viols: Vec<Value> = ctx.pending.iter().map(|(s, o)| json!({"sig": s, "observed": o})).collect();
        println!("{}", json!({"t":"replay","violations": viols, "counters": ctx.counters}));
        return;
    }

    if let Some(i) = arg(&args, "--describe") {
        let i: u64 = i.parse().unwrap_or(0);
        println!("{}", engine.describe(i));
        return;
    }
    if arg(&args, "--total").is_some() || args.iter().any(|a| a == "--total") {
        println!("{}", json!({"total": engine.total(), "meta": engine.meta()}));
        return;
    }
    let shard: u64 = arg(&args, "--shard").and_then(|s| s.parse().ok()).unwrap_or(0);
    let of: u64 = arg(&args, "--of").and_then(|s| s.parse().ok()).unwrap_or(1);
    let start: u64 = arg(&args, "--start").and_then(|s| s.parse().ok()).unwrap_or(0);
    let skip: HashSet<u64> = arg(&args, "--skip").map(|s| s.split(',').filter_map(|x| x.parse().ok()).collect()).unwrap_or_default();
    let wall_cap_s: f64 = arg(&args, "--wall-cap-s").and_then(|s| s.parse().ok()).unwrap_or(1e9);
    let out_path = arg(&args, "--out").expect("--out").to_string();
    map_cell(&format!("{out_path}.cell"));
    let mut out = std::io::BufWriter::new(std::fs::OpenOptions::new().create(true).append(true).open(&out_path).expect("out file"));

    let total = engine.total();
    start_watchdog(budget_ms, wall_ms);
    let t0 = Instant::now();
    let mut viol_seen: BTreeMap<String, u64> = BTreeMap::new();
    let mut idx = start;
    // first index of this shard at or after start
    if idx % of != shard {
        idx += (shard + of - idx % of) % of;
    }
    let mut since_flush = 0u32;
    let mut last_flush = Instant::now();
    let mut capped = false;
    let mut ran = 0u64;
    while idx < total {
        if !skip.contains(&idx) {
            begin_case(idx);
            engine.run(idx, &mut ctx);
            end_case();
            ran += 1;
            if !ctx.pending.is_empty() {
                let pend = std::mem::take(&mut ctx.pending);
                let mut desc: Option<Value> = None;
                for (sig, obs) in pend {
                    let n = viol_seen.entry(sig.clone()).or_insert(0);
                    *n += 1;
                    if *n <= 3 {
                        let d = desc.get_or_insert_with(|| engine.describe(idx)).clone();
                        writeln!(out, "{}", json!({"t":"viol","sig":sig,"idx":idx,"case":d,"observed":obs})).unwrap();
                    } else {
                        writeln!(out, "{}", json!({"t":"violn","sig":sig,"idx":idx})).unwrap();
                    }
                }
                out.flush().unwrap();
            }
        }
        idx += of;
        since_flush += 1;
        if since_flush >= 64 && last_flush.elapsed().as_millis() > 300 {
            writeln!(out, "{}", json!({"t":"p","next":idx,"c":ctx.counters})).unwrap();
            out.flush().unwrap();
            since_flush = 0;
            last_flush = Instant::now();
            if t0.elapsed().as_secs_f64() > wall_cap_s {
                capped = idx < total;
                break;
            }
        }
    }
    cell_write(1, 2); // finished
    let mut samples = vec![];
    if shard == 0 && total > 0 {
        let mut picks = vec![0, total / 4, total / 2, (total / 4) * 3, total - 1];
        picks.dedup();
        for p in picks {
            samples.push(json!({"idx": p, "case": engine.describe(p)}));
        }
    }
    // fingerprints for the supervisor's union
    {
        let mut f = std::io::BufWriter::new(std::fs::File::create(format!("{out_path}.fp")).unwrap());
        for x in &ctx.fps {
            f.write_all(&x.to_le_bytes()).unwrap();
        }
        let mut f = std::io::BufWriter::new(std::fs::File::create(format!("{out_path}.oc")).unwrap());
        for x in &ctx.outcomes {
            f.write_all(&x.to_le_bytes()).unwrap();
        }
    }
    writeln!(
        out,
        "{}",
        json!({"t":"done","next":idx,"total":total,"ran":ran,"capped":capped,"c":ctx.counters,"fp_overflow":ctx.fp_overflow,
               "samples":samples,"meta": if shard==0 { engine.meta() } else { Value::Null }, "wall_s": t0.elapsed().as_secs_f64()})
    )
    .unwrap();
    out.flush().unwrap();
}

#[inline]
fn begin_case(idx: u64) {
    cell_write(0, idx);
    CASE_CPU_START_NS.store(process_cpu_ns(), SeqCst);
    CASE_WALL_START_MS.store(now_ms(), SeqCst);
    RUNNING.store(1, SeqCst);
    cell_write(1, 1);
}

#[inline]
fn end_case() {
    RUNNING.store(0, SeqCst);
    cell_write(1, 0);
}

fn now_ms() -> u64 {
    let mut ts = libc::timespec { tv_sec: 0, tv_nsec: 0 };
    unsafe { libc::clock_gettime(libc::CLOCK_MONOTONIC, &mut ts) };
    ts.tv_sec as u64 * 1000 + ts.tv_nsec as u64 / 1_000_000
}

static MAIN_TID: std::sync::atomic::AtomicI64 = std::sync::atomic::AtomicI64::new(0);

/// scheduler state of a thread of this process: 'R' running or runnable, 'S' / 'D' asleep (blocked in a wait, a sleep or I/O)
pub fn thread_state(tid: i64) -> char {
    std::fs::read_to_string(format!("/proc/self/task/{tid}/stat")).ok().and_then(|s| s.rsplit(')').next().and_then(|r| r.trim().chars().next())).unwrap_or('?')
}

/// Per-case budgets. CPU: process CPU time of the case (load independent). Stall: the time the main thread spent *asleep*
/// (state S / D sampled every 25 ms) during the case - a thread that is merely descheduled on a loaded machine is runnable, not
/// asleep, so the verdict does not depend on the load. A plain wall-clock limit of 30 x the stall budget (at least 15 minutes)
/// remains as a backstop.
fn start_watchdog(budget_ms: u64, wall_ms: u64) {
    MAIN_TID.store(unsafe { libc::gettid() } as i64, SeqCst);
    std::thread::Builder::new()
        .name("watchdog".into())
        .spawn(move || {
            let mut asleep_ms = 0u64;
            let mut case_start = 0u64;
            let mut last = now_ms();
            loop {
                std::thread::sleep(std::time::Duration::from_millis(25));
                let now = now_ms();
                let dt = now.saturating_sub(last);
                last = now;
                if RUNNING.load(SeqCst) == 1 {
                    let start = CASE_WALL_START_MS.load(SeqCst);
                    if start != case_start {
                        case_start = start;
                        asleep_ms = 0;
                    }
                    let cpu = process_cpu_ns().saturating_sub(CASE_CPU_START_NS.load(SeqCst)) / 1_000_000;
                    if RUNNING.load(SeqCst) == 1 && cpu > budget_ms {
                        die(EXIT_CPU);
                    }
                    if matches!(thread_state(MAIN_TID.load(SeqCst)), 'S' | 'D') {
                        asleep_ms += dt;
                    }
                    let wall = now.saturating_sub(start);
                    if RUNNING.load(SeqCst) == 1 && (asleep_ms > wall_ms || wall > (wall_ms * 30).max(900_000)) {
                        die(EXIT_STALL);
                    }
                } else {
                    asleep_ms = 0;
                }
            }
        })
        .unwrap();
}

/// Engines that measure a sub-step themselves (C03) use this to restart the watchdog window.
pub fn restart_case_clock() {
    CASE_CPU_START_NS.store(process_cpu_ns(), SeqCst);
    CASE_WALL_START_MS.store(now_ms(), SeqCst);
}
