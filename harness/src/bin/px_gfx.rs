//! C20: RIPscrip and IGS command streams never panic, never stall, and the exposed pixel canvas is always complete.
//!
//! Stateless exploration: every case is (emulation, start context, command, parameter string). The parameter strings
//! are enumerated exhaustively up to a length bound and deviation-bounded beyond it (a constant digit string with at
//! most d positions changed). Every character is fed to the real parser under catch_unwind; CPU and wall time are
//! taken per stream; after every stream the canvas is read through BufferParser::get_picture_data.

use icy_engine::{ansi, igs, rip, Buffer, BufferParser, Caret, TextPane};
use std::path::PathBuf;
use std::sync::{Arc, Mutex};
use std::time::Instant;
use vharness::worker::thread_cpu_ns;
use vharness::{catch, json, worker_main, Ctx, Engine, Fnv, Value};

const CPU_LIMIT_MS: u64 = 500;
const WALL_LIMIT_MS: u64 = 1500;
const LOOP_POLL_HORIZON: usize = 64;
const SMALL_LOOP_HORIZON: usize = 20_000;

#[derive(Clone, Copy, PartialEq, Debug)]
enum Emu {
    Rip,
    Igs,
}

/// voluntary context switches of the calling thread
fn voluntary_switches() -> i64 {
    let mut ru: libc::rusage = unsafe { std::mem::zeroed() };
    unsafe { libc::getrusage(libc::RUSAGE_THREAD, &mut ru) };
    ru.ru_nvcsw
}

fn icon_dir() -> PathBuf {
    let root = std::env::var("VERIF_ROOT").unwrap_or_else(|_| "/verif".into());
    PathBuf::from(root).join("harness/data/rip_icons")
}

enum P {
    Rip(Box<rip::Parser>),
    Igs(Box<igs::Parser>, Arc<Mutex<Box<dyn igs::CommandExecutor>>>),
}

struct Machine {
    buf: Buffer,
    caret: Caret,
    parser: P,
    /// the stream is UTF-8: the emulation is fed the decoded characters (characters above U+00FF) instead of one character per byte
    utf8: bool,
}

impl Machine {
    fn new(emu: Emu) -> Machine {
        let mut buf = Buffer::new((80, 25));
        buf.is_terminal_buffer = true;
        let parser = match emu {
            Emu::Rip => P::Rip(Box::new(rip::Parser::new(Box::<ansi::Parser>::default(), icon_dir()))),
            Emu::Igs => {
                let exe: Arc<Mutex<Box<dyn igs::CommandExecutor>>> = Arc::new(Mutex::new(Box::<igs::DrawExecutor>::default()));
                P::Igs(Box::new(igs::Parser::new(exe.clone())), exe)
            }
        };
        Machine { buf, caret: Caret::default(), parser, utf8: false }
    }

    fn dynp(&mut self) -> (&mut dyn BufferParser, &mut Buffer, &mut Caret) {
        let p: &mut dyn BufferParser = match &mut self.parser {
            P::Rip(p) => p.as_mut(),
            P::Igs(p, _) => p.as_mut(),
        };
        (p, &mut self.buf, &mut self.caret)
    }

    /// feeds the bytes; returns the panic signature and position if one occurred
    fn feed(&mut self, bytes: &[u8]) -> Option<(String, usize)> {
        let chars: Vec<char> = if self.utf8 { String::from_utf8_lossy(bytes).chars().collect() } else { bytes.iter().map(|b| *b as char).collect() };
        let (p, buf, caret) = self.dynp();
        for (i, b) in chars.iter().enumerate() {
            match catch(|| {
                let _ = p.print_char(buf, 0, caret, *b);
            }) {
                Ok(()) => {}
                Err(rec) => return Some((rec.signature(), i)),
            }
        }
        // pending loop steps (IGS): a bounded number of polls. A stream whose numbers are all below 10 cannot ask for more than
        // 10^3 steps with loops nested three deep: it gets a horizon it must end in.
        let small = !bytes.windows(2).any(|w| w[0].is_ascii_digit() && w[1].is_ascii_digit());
        let horizon = if small { SMALL_LOOP_HORIZON } else { LOOP_POLL_HORIZON };
        let mut ended = false;
        for _ in 0..horizon {
            match catch(|| p.get_next_action(buf, caret, 0)) {
                Ok(None) => {
                    ended = true;
                    break;
                }
                Ok(Some(_)) => {}
                Err(rec) => return Some((rec.signature(), bytes.len())),
            }
        }
        if small && !ended {
            return Some((format!("stall:loop-still-producing-actions-after-{SMALL_LOOP_HORIZON}-polls"), bytes.len()));
        }
        None
    }

    /// cheap shape check of the canvas storage on every stream: (problem, sampled hash)
    fn canvas_shape(&mut self) -> (Option<Value>, u64) {
        let mut h = Fnv::new();
        match &mut self.parser {
            P::Rip(p) => {
                let (w, hgt, len) = (p.bgi.window.width, p.bgi.window.height, p.bgi.screen.len());
                for (i, b) in p.bgi.screen.iter().enumerate() {
                    if *b != 0 {
                        h.u32(i as u32);
                        h.u8(*b);
                    }
                }
                if w <= 0 || hgt <= 0 || len as i64 != w as i64 * hgt as i64 {
                    return (Some(json!({"window": [w, hgt], "pixels": len})), h.finish());
                }
                (None, h.finish())
            }
            P::Igs(..) => (None, 0),
        }
    }

    /// the canvas as the emulation exposes it: Some(problem) if it is not a complete width x height RGBA image
    fn canvas_problem(&mut self, force: bool) -> Result<(Option<Value>, u64), String> {
        if let (P::Rip(_), false) = (&self.parser, force) {
            return Ok(self.canvas_shape());
        }
        let got = match &mut self.parser {
            P::Rip(p) => catch(|| p.get_picture_data()),
            P::Igs(_, exe) => {
                let exe = exe.clone();
                catch(move || match exe.lock() {
                    Ok(mut e) => e.get_picture_data(),
                    Err(_) => None,
                })
            }
        };
        match got {
            Ok(None) => Ok((None, 0)),
            Ok(Some((size, data))) => {
                let mut h = Fnv::new();
                h.i32(size.width);
                h.i32(size.height);
                for (i, c) in data.chunks(4).enumerate() {
                    if c != [0, 0, 0, 0] && c != [255, 255, 255, 255] {
                        h.u32(i as u32);
                        h.bytes(c);
                    }
                }
                if size.width <= 0 || size.height <= 0 || data.len() as i64 != size.width as i64 * size.height as i64 * 4 {
                    Ok((Some(json!({"size": [size.width, size.height], "bytes": data.len(), "expected": size.width as i64 * size.height as i64 * 4})), h.finish()))
                } else {
                    Ok((None, h.finish()))
                }
            }
            Err(rec) => Err(rec.signature()),
        }
    }
}

// ---------------------------------------------------------------- command tables

fn rip_commands() -> Vec<String> {
    let mut v: Vec<String> = "wv*eEgH>cQaWmT@YXLRBCOoAVIiZPplF=Ss$#".chars().map(|c| c.to_string()).collect();
    for c in "MKTtECPWIBUD\x1bGRF".chars() {
        v.push(format!("1{c}"));
    }
    v.push("9\x1b".into());
    v.push("1z".into()); // unknown level 1 command
    v.push("~".into()); // unknown level 0 command
    v
}

const RIP_TEXT_CMDS: [&str; 13] = ["T", "@", "1T", "1t", "1U", "1D", "$", "1F", "1I", "1W", "1R", "1\x1b", "9\x1b"];

fn rip_text_tails() -> Vec<&'static str> {
    vec![
        "", "A", "hello world", "<>A<>B<>C", "<>", "<><><><><><><><>", "$DATE$", "$TIME$$X$$Y$", "$", "((*question::a@b,c@d))", "((", "\\\nmore", "\\\r\nmore", "A", "A.ICN", "BIG", "T", "NONE", "../A.ICN",
        "0123456789012345678901234567890123456789012345678901234567890123456789012345678901234567890123456789", "_x^y~z", "@@", "\u{1}", "^m", "[0]run me",
    ]
}

fn rip_contexts() -> Vec<(&'static str, &'static str)> {
    vec![
        ("initial state", ""),
        ("small viewport", "!|v0A0A1E1E|\n"),
        ("inverted viewport", "!|vZZZZ0000|\n"),
        ("xor + thick user line + user fill", "!|W01|=04ZZZZ03|s0F0F0F0F0F0F0F0F0C|c0E|\n"),
        ("saved image + moved position", "!|B00001010|1C00000A0A00|mHZ9Z|\n"),
        ("big vertical font + text window", "!|Y04010A00|w00001H0A10|\n"),
        ("changed palette + fill style", "!|Q0Z0Y0X0W0V0U0T0S0R0Q0P0O0N0M0L0K|S0B0F|a0F1R|\n"),
        ("button style defined", "!|1B0A0A010274030F080F080700010E07000000|\n"),
    ]
}

fn igs_commands() -> Vec<char> {
    "AbBCDEFfgGqHIJkKLzMnNOPQRsStTUVWYZ<?cdilmprvwX&@".chars().collect()
}

const IGS_VALUES: [&str; 24] = ["0", "1", "2", "3", "4", "5", "6", "7", "8", "9", "15", "16", "99", "199", "200", "319", "320", "639", "640", "9998", "99999", "-1", "-50", ""];
const IGS_BASES: [&str; 4] = ["0", "1", "99999", "199"];

fn igs_contexts() -> Vec<(&'static str, &'static str)> {
    vec![
        ("initial state", ""),
        ("medium resolution", "G#R1,0:\n"),
        ("xor mode, marker and pattern attributes", "G#M3:T2,5,3:A2,9,1:H1:\n"),
        ("grabbed screen in memory", "G#B10,10,60,60,0:G0,3,10,10,60,60:\n"),
        ("pen colours changed", "G#S1,7,7,7:C1,15:C2,14:C3,2:C0,3:\n"),
        ("text effects", "G#E16,20,1:\n"),
    ]
}

/// well-formed drawing commands that make the state left by the preceding command visible
const IGS_PROBES: [&str; 22] = [
    "G1,3,0,0,100,100:G3,3,50,50,150,150,200,50:", "G1,3,10,10,60,60:G3,3,0,0,80,80,5,5:", "G1,3,0,0,30,30:G2,3,300,190:", "G1,3,100,100,319,199:G3,3,0,0,400,400,0,0:",
    "L0,0,50,50:", "B10,10,60,60,0:", "Z5,5,40,40:", "O50,50,20:", "F1,1:", "W10,10,Hi@", "P20,20:", "D30,30:", "Q50,50,30,10:", "K50,50,20,0,90:", "G0,3,0,0,10,10,20,20:",
    "U10,10,90,90,1:", "f3,10,10,50,10,30,40:", "z3,10,10,50,10,30,40:", "V50,50,20,0,90:", "Y50,50,30,10,0,90:", "J50,50,30,10,0,90:", "G1,3,0,0,20,20:G2,3,30,30:",
];
const RIP_PROBES: [&str; 17] = [
    "!|i8W4V00A0ZZ01|", "!|o8W4V8W4V|", "!|I8W4V00A08W|",
    "!|L00000A0A|", "!|B05050K0K|", "!|@0505hello|", "!|F0A0A0F|", "!|C0K0K0A|", "!|o0K0K0A05|", "!|P03000010100A00|", "!|p03000010100A00|", "!|1C00000A0A00|1P050500|", "!|1U05050K0K0000000<>ok<>|",
    "!|Thello|", "!|X0101|", "!|I0K0K005A0A|", "!|e|E|*|",
];

/// scenes with obstacles (drawn in colour 15): a box, nested boxes, a circle, crossing lines, a polygon, text, a box touching the border
const RIP_SCENES: [&str; 7] = [
    "c0F|R2S2S5K5K", "c0F|R1010C0A0|R2020B090|R30309080", "c0F|C8O4O2S", "c0F|L0000HR9P|L00009PHR|L8O00009P", "c0F|P0450105010A08020A0", "c0F|@2020fill around text", "c0F|R0000HR9P|R00002020",
];
const IGS_SCENES: [&str; 5] = ["C1,3:B50,50,150,120,0:", "C1,3:B10,10,300,190,0:B60,60,200,120,0:", "C1,2:O160,100,60:", "C1,2:L0,0,319,199:L0,199,319,0:", "C1,3:W40,80,fill around text@"];

/// a two digit base 36 number
fn mega(v: i32) -> String {
    let d = |x: i32| char::from_digit(x as u32, 36).unwrap().to_ascii_uppercase();
    format!("{}{}", d((v / 36) % 36), d(v % 36))
}

// ---------------------------------------------------------------- parameter strings

/// all strings of length `len` over `digits`
fn all_strings(digits: &[u8], len: usize) -> Vec<Vec<u8>> {
    let mut out = vec![vec![]];
    for _ in 0..len {
        let mut next = Vec::with_capacity(out.len() * digits.len());
        for s in &out {
            for d in digits {
                let mut n = s.clone();
                n.push(*d);
                next.push(n);
            }
        }
        out = next;
    }
    out
}

/// constant strings with at most `dev` positions changed
fn deviated(digits: &[u8], len: usize, dev: usize) -> Vec<Vec<u8>> {
    let mut out = Vec::new();
    for base in digits {
        let b = vec![*base; len];
        out.push(b.clone());
        if dev >= 1 {
            for i in 0..len {
                for d in digits {
                    if d != base {
                        let mut s = b.clone();
                        s[i] = *d;
                        out.push(s.clone());
                        if dev >= 2 {
                            for j in (i + 1)..len {
                                for e in digits {
                                    if e != base {
                                        let mut t = s.clone();
                                        t[j] = *e;
                                        out.push(t);
                                    }
                                }
                            }
                        }
                    }
                }
            }
        }
    }
    out
}

const RIP_DIGITS: [u8; 3] = [b'0', b'1', b'Z'];

fn rip_params(len: usize, full_upto: usize, dev: usize) -> Vec<Vec<u8>> {
    if len <= full_upto {
        all_strings(&RIP_DIGITS, len)
    } else {
        deviated(&RIP_DIGITS, len, dev)
    }
}

fn igs_params(k: usize, dev: usize) -> Vec<Vec<&'static str>> {
    let mut out: Vec<Vec<&'static str>> = Vec::new();
    for base in IGS_BASES {
        let b = vec![base; k];
        out.push(b.clone());
        if dev >= 1 {
            for i in 0..k {
                for v in IGS_VALUES {
                    if v != base {
                        let mut s = b.clone();
                        s[i] = v;
                        out.push(s.clone());
                        if dev >= 2 {
                            for j in (i + 1)..k {
                                for w in IGS_VALUES {
                                    if w != base {
                                        let mut t = s.clone();
                                        t[j] = w;
                                        out.push(t);
                                    }
                                }
                            }
                        }
                    }
                }
            }
        }
        if k == 0 {
            break;
        }
    }
    out
}

// ---------------------------------------------------------------- jobs

#[derive(Clone, Debug)]
enum Job {
    /// RIP: context, command, parameter length: all parameter strings of that length
    Rip { ctx: usize, cmd: usize, len: usize },
    /// RIP text commands: context, command, numeric prefix length
    RipText { ctx: usize, cmd: usize, len: usize },
    /// RIP: pairs of commands with constant parameter fills
    RipPair { ctx: usize, a: usize },
    /// IGS: context, command, parameter count
    Igs { ctx: usize, cmd: usize, k: usize },
    /// IGS loops and chains
    IgsShapes { ctx: usize, part: usize },
    /// plain text and unknown commands
    Text { emu: Emu },
    /// IGS: a command with 0..=8 parameters (first parameter varied separately) followed by every well-formed drawing probe
    IgsProbe { cmd: usize, k: usize },
    /// RIP: a command with a parameter string followed by every well-formed drawing probe
    RipProbe { cmd: usize, len: usize },
    /// RIP: a continuation backslash at every position of the parameter string (followed by a line break or directly by the next character)
    RipContinuation { cmd: usize },
    /// characters above U+00FF at every place of a stream that takes text (and in place of parameters)
    Wide { emu: Emu },
    /// flood fills from a grid of start points over scenes with obstacles, every fill style / border colour (RIP and IGS)
    Fill { emu: Emu, scene: usize },
}

struct Gfx {
    counter: std::cell::Cell<u64>,
    thorough: bool,
    jobs: Vec<Job>,
    rip_cmds: Vec<String>,
    igs_cmds: Vec<char>,
}

fn build(_prop: &str, tier: &str) -> Gfx {
    let thorough = tier == "thorough";
    let rip_cmds = rip_commands();
    let igs_cmds = igs_commands();
    let mut jobs = Vec::new();
    for ctx in 0..rip_contexts().len() {
        for cmd in 0..rip_cmds.len() {
            // 0..=24 with the exhaustive part, 25..=40 (the longest parameter lists of the tables: button style, 36 characters) deviation-bounded
            for len in 0..=40usize {
                if len <= 24 || ctx == 0 || thorough {
                    jobs.push(Job::Rip { ctx, cmd, len });
                }
            }
            if RIP_TEXT_CMDS.contains(&rip_cmds[cmd].as_str()) {
                for len in 0..=12usize {
                    if thorough || ctx == 0 || matches!(len, 0 | 4 | 12) {
                        jobs.push(Job::RipText { ctx, cmd, len });
                    }
                }
            }
        }
        if thorough || ctx == 0 {
            for a in 0..rip_cmds.len() {
                jobs.push(Job::RipPair { ctx, a });
            }
        }
    }
    for ctx in 0..igs_contexts().len() {
        for cmd in 0..igs_cmds.len() {
            for k in 0..=12usize {
                jobs.push(Job::Igs { ctx, cmd, k });
            }
        }
        for part in 0..8 {
            jobs.push(Job::IgsShapes { ctx, part });
        }
    }
    for cmd in 0..igs_cmds.len() {
        for k in 0..=8usize {
            jobs.push(Job::IgsProbe { cmd, k });
        }
    }
    for cmd in 0..rip_cmds.len() {
        for len in 0..=24usize {
            jobs.push(Job::RipProbe { cmd, len });
        }
    }
    for cmd in 0..rip_cmds.len() {
        jobs.push(Job::RipContinuation { cmd });
    }
    for scene in 0..RIP_SCENES.len() {
        jobs.push(Job::Fill { emu: Emu::Rip, scene });
    }
    for scene in 0..IGS_SCENES.len() {
        jobs.push(Job::Fill { emu: Emu::Igs, scene });
    }
    jobs.push(Job::Wide { emu: Emu::Rip });
    jobs.push(Job::Wide { emu: Emu::Igs });
    jobs.push(Job::Text { emu: Emu::Rip });
    jobs.push(Job::Text { emu: Emu::Igs });
    Gfx { counter: std::cell::Cell::new(0), thorough, jobs, rip_cmds, igs_cmds }
}

fn show(bytes: &[u8]) -> String {
    bytes.iter().map(|b| if (32..127).contains(b) { (*b as char).to_string() } else { format!("\\x{b:02x}") }).collect()
}

impl Gfx {
    fn run_stream(&self, emu: Emu, ctx_name: &str, prefix: &[u8], stream: &[u8], key: &str, ctx: &mut Ctx) {
        // the full RGBA read-back of the RIP canvas is taken on every stream of the two-step families (a command followed by drawing
        // commands, pairs, fills, text) and on every 16th stream elsewhere; its storage shape on every stream
        let ctx_force = self.counter.get() % 16 == 0 || key.contains(" then ") || key.contains("flood fill") || key.contains("continuation");
        self.counter.set(self.counter.get() + 1);
        ctx.count("evaluations", 1);
        ctx.count("transitions", (prefix.len() + stream.len()) as u64);
        let mut m = Machine::new(emu);
        m.utf8 = key.starts_with("wide ");
        if !prefix.is_empty() {
            if let Some((sig, at)) = m.feed(prefix) {
                ctx.violation(format!("{sig}:context"), json!({"emulation": format!("{emu:?}"), "context": ctx_name, "stream": show(prefix), "panicked_at_byte": at}));
                return;
            }
        }
        let (c0, t0, v0) = (thread_cpu_ns(), Instant::now(), voluntary_switches());
        let res = m.feed(stream);
        let (cpu_ms, wall_ms) = ((thread_cpu_ns() - c0) / 1_000_000, t0.elapsed().as_millis() as u64);
        // a thread that went to sleep (sleep, lock, blocking I/O) gave up the CPU voluntarily; one that was merely descheduled on a loaded machine did not
        let slept = voluntary_switches() > v0;
        let describe = |extra: Value| json!({"emulation": format!("{emu:?}"), "context": ctx_name, "context_stream": show(prefix), "stream": show(stream), "detail": extra});
        let mut f = Fnv::new();
        f.str(key);
        f.u64(m.buf.get_line_count() as u64);
        f.i32(m.caret.get_position().x);
        f.i32(m.caret.get_position().y);
        if let Some((sig, at)) = res {
            ctx.violation(format!("{sig}:{key}"), describe(json!({"panicked_at_byte": at})));
            ctx.outcome(2);
            return;
        }
        if cpu_ms > CPU_LIMIT_MS {
            ctx.violation(format!("cpu:{key}"), describe(json!({"cpu_ms": cpu_ms, "limit_ms": CPU_LIMIT_MS})));
        } else if wall_ms > WALL_LIMIT_MS && slept {
            ctx.violation(format!("stall:{key}"), describe(json!({"wall_ms": wall_ms, "cpu_ms": cpu_ms, "limit_ms": WALL_LIMIT_MS})));
        }
        // the canvas as the emulation exposes it drives the fingerprint: distinct pictures are distinct states
        match m.canvas_problem(ctx_force) {
            Ok((None, h)) => f.u64(h),
            Ok((Some(p), _)) => ctx.violation(format!("inv:canvas-incomplete:{key}"), describe(p)),
            Err(sig) => ctx.violation(format!("{sig}:get_picture_data:{key}"), describe(json!({}))),
        }
        ctx.state(f.finish());
        ctx.outcome(1);
    }

    fn rip_stream(cmd: &str, params: &[u8], tail: &str, term: &str) -> Vec<u8> {
        let mut s = b"!|".to_vec();
        s.extend(cmd.as_bytes());
        s.extend(params);
        s.extend(tail.as_bytes());
        s.extend(term.as_bytes());
        s
    }
}

impl Engine for Gfx {
    fn total(&self) -> u64 {
        self.jobs.len() as u64
    }

    fn run(&mut self, idx: u64, ctx: &mut Ctx) {
        let job = self.jobs[idx as usize].clone();
        let thorough = self.thorough;
        match job {
            Job::Rip { ctx: ci, cmd, len } => {
                let (cname, prefix) = rip_contexts()[ci];
                let c = self.rip_cmds[cmd].clone();
                let key = format!("rip {}", show(c.as_bytes()));
                // the initial state gets the exhaustive part, the other contexts the deviation-bounded one
                let params = if ci == 0 {
                    rip_params(len, if thorough { 8 } else { 5 }, if thorough { 2 } else { 1 })
                } else if thorough {
                    rip_params(len, 4, 1)
                } else {
                    rip_params(len, 1, 0)
                };
                ctx.count("nontrivial", 1);
                for p in &params {
                    self.run_stream(Emu::Rip, cname, prefix.as_bytes(), &Gfx::rip_stream(&c, p, "", "|\n"), &key, ctx);
                }
                if ci == 0 {
                    // other terminators: end of line, nothing, a following command on the same line
                    for p in rip_params(len, 2, 0) {
                        for term in ["\n", "", "\r\n", "|#|#|#\n", "\\\n|\n", "!|\n"] {
                            self.run_stream(Emu::Rip, cname, prefix.as_bytes(), &Gfx::rip_stream(&c, &p, "", term), &key, ctx);
                        }
                    }
                }
            }
            Job::RipText { ctx: ci, cmd, len } => {
                let (cname, prefix) = rip_contexts()[ci];
                let c = self.rip_cmds[cmd].clone();
                let key = format!("rip {}", show(c.as_bytes()));
                ctx.count("nontrivial", 1);
                for p in rip_params(len, 0, 0) {
                    for tail in rip_text_tails() {
                        self.run_stream(Emu::Rip, cname, prefix.as_bytes(), &Gfx::rip_stream(&c, &p, tail, "|\n"), &key, ctx);
                    }
                }
            }
            Job::RipPair { ctx: ci, a } => {
                let (cname, prefix) = rip_contexts()[ci];
                let ca = self.rip_cmds[a].clone();
                ctx.count("nontrivial", 1);
                for cb in self.rip_cmds.clone() {
                    let key = format!("rip {} then {}", show(ca.as_bytes()), show(cb.as_bytes()));
                    for d in RIP_DIGITS {
                        for e in RIP_DIGITS {
                            let mut s = Gfx::rip_stream(&ca, &vec![d; 16], "", "|");
                            s.extend(cb.as_bytes());
                            s.extend(vec![e; 16]);
                            s.extend(b"|\n");
                            self.run_stream(Emu::Rip, cname, prefix.as_bytes(), &s, &key, ctx);
                        }
                    }
                }
            }
            Job::Igs { ctx: ci, cmd, k } => {
                let (cname, prefix) = igs_contexts()[ci];
                let c = self.igs_cmds[cmd];
                let key = format!("igs {c}");
                ctx.count("nontrivial", 1);
                let dev = if ci == 0 { if thorough && k <= 6 { 2 } else { 1 } } else { 1 };
                let lists = if ci == 0 || k <= 3 || thorough { igs_params(k, dev) } else { igs_params(k, 0) };
                for l in lists {
                    let mut s = format!("G#{c}");
                    s.push_str(&l.join(","));
                    for term in if ci == 0 && k <= 3 { vec![":\n", ":", "\n", ",:\n", "@\n"] } else { vec![":\n"] } {
                        let mut t = s.clone();
                        t.push_str(term);
                        self.run_stream(Emu::Igs, cname, prefix.as_bytes(), t.as_bytes(), &key, ctx);
                    }
                }
            }
            Job::IgsShapes { ctx: ci, part } => {
                let (cname, prefix) = igs_contexts()[ci];
                ctx.count("nontrivial", 1);
                let mut shapes: Vec<String> = Vec::new();
                match part {
                    0..=3 => {
                        // loops: from, to, step, delay(0), command, count, parameters
                        let vals = ["0", "3", "99999"];
                        let cmds = [('L', 4), ('B', 5), ('W', 2), ('G', 6)];
                        if part == 0 {
                            // every command letter as the loop body, small bounds, every step incl. 0 and negative ones
                            for c in self.igs_cmds.clone() {
                                for (from, to) in [("0", "1"), ("1", "0"), ("0", "0"), ("3", "5")] {
                                    for step in ["0", "1", "2", "-1"] {
                                        for n in [0usize, 1, 2, 4] {
                                            let p = vec!["0"; n].join(",");
                                            shapes.push(format!("G#&>{from},{to},{step},0,{c},{n},{p}:\n"));
                                            shapes.push(format!("G#&{from},{to},{step},0,{c}|{n},{p}:\n"));
                                        }
                                    }
                                }
                            }
                        }
                        let (cmd, n) = cmds[part];
                        for from in vals {
                            for to in vals {
                                for step in ["0", "1", "99999"] {
                                    for sep in [",", "@", "|"] {
                                        for params in ["x,y,+10,!99", "0,0,0,0,0,0", "x", "99999,x,y,-5,+99999,!1", ""] {
                                            for count in [0usize, 1, n, 12] {
                                                shapes.push(format!("G#&{from},{to},{step},0,{cmd}{sep}{count},{params}:\n"));
                                                shapes.push(format!("G#&{from},{to},{step},0,{cmd}{sep}{count},{params},hello@:\n"));
                                            }
                                        }
                                    }
                                }
                            }
                        }
                    }
                    4 if ci == 0 => {
                        // blits (screen <-> memory) with far away and negative destinations, directly and through the loop arithmetic
                        // ("-n" = loop value minus n), after a screen grab; numbers that do not fit 32 bit in every loop position
                        for ty in ["0", "1", "2", "3", "4"] {
                            for (w, h) in [("10", "10"), ("99999", "99999"), ("319", "199")] {
                                for (dx, dy) in [("-99999", "-99999"), ("-50", "-50"), ("99999", "-99999"), ("0", "0"), ("-99999", "0")] {
                                    shapes.push(format!("G#G1,3,0,0,{w},{h}:&>0,1,1,0,G,8,{ty},3,0,0,{w},{h},{dx},{dy}:\n"));
                                    shapes.push(format!("G#G1,3,0,0,{w},{h}:G{ty},3,0,0,{w},{h},{dx},{dy}:\n"));
                                    shapes.push(format!("G#&>0,1,1,0,G,8,{ty},3,0,0,{w},{h},{dx},{dy}:\n"));
                                }
                            }
                        }
                        for big in ["2147483647", "2147483648", "9999999999", "99999999999999999999"] {
                            for pos in 0..4 {
                                let mut v = ["0", "1", "1", "0"];
                                v[pos] = big;
                                shapes.push(format!("G#&>{},{},{},{},L,4,0,0,x,y:\n", v[0], v[1], v[2], v[3]));
                            }
                            shapes.push(format!("G#&>1,0,1,0,L,4,+{big},0,0,0:\n"));
                            shapes.push(format!("G#&>0,2,1,0,L,4,x,-{big},!{big},y:\n"));
                            shapes.push(format!("G#L{big},{big},0,0:\n"));
                        }
                        for a in self.igs_cmds.clone() {
                            for b in ['L', 'B', 'F', 'G', 'W', 'X', 'R', '&'] {
                                for v in ["0", "99999", "7"] {
                                    shapes.push(format!("G#{a}{v},{v},{v},{v}:{b}{v},{v},{v},{v},{v},{v}:\n"));
                                    shapes.push(format!("G#{a}{v},{v}_\n{v},{v}:{b}>{v},{v}:\nG#{b}{v}:\n"));
                                }
                            }
                        }
                    }
                    4 => {
                        // chained commands and line continuation
                        for a in self.igs_cmds.clone() {
                            for b in ['L', 'B', 'F', 'G', 'W', 'X', 'R', '&'] {
                                for v in ["0", "99999", "7"] {
                                    shapes.push(format!("G#{a}{v},{v},{v},{v}:{b}{v},{v},{v},{v},{v},{v}:\n"));
                                    shapes.push(format!("G#{a}{v},{v}_\n{v},{v}:{b}>{v},{v}:\nG#{b}{v}:\n"));
                                }
                            }
                        }
                    }
                    5 => {
                        // write text
                        for x in ["0", "319", "99999"] {
                            for t in ["", "A", "hello world", "\u{1}\u{ff}", "0123456789012345678901234567890123456789012345678901234567890123456789"] {
                                shapes.push(format!("G#W{x},{x},{t}@\n"));
                                shapes.push(format!("G#W{x},{x},{t}\n"));
                                shapes.push(format!("G#E16,99999,3:W{x},10,{t}@\n"));
                                shapes.push(format!("G#E31,1,4:W{x},10,{t}@\n"));
                            }
                        }
                    }
                    6 => {
                        // extended commands with every sub command and 0..8 further parameters
                        for sub in 0..=12 {
                            for n in 0..=8usize {
                                for v in ["0", "1", "7", "99999"] {
                                    let p: Vec<&str> = vec![v; n];
                                    shapes.push(format!("G#X{sub},{}:\n", p.join(",")));
                                }
                            }
                        }
                    }
                    _ => {
                        // loop with a delay: the stall oracle (small delays are legitimate, the time may not follow the parameter)
                        for delay in ["1", "5", "99999"] {
                            shapes.push(format!("G#&0,2,1,{delay},L,4,0,0,x,y:\n"));
                        }
                        for t in ["0", "1", "30", "99999"] {
                            shapes.push(format!("G#t{t}:\n"));
                            shapes.push(format!("G#q{t}:\n"));
                        }
                    }
                }
                for s in shapes {
                    let key = format!("igs shape {}", &s[2..3.min(s.len())]);
                    self.run_stream(Emu::Igs, cname, prefix.as_bytes(), s.as_bytes(), &key, ctx);
                }
            }
            Job::IgsProbe { cmd, k } => {
                let c = self.igs_cmds[cmd];
                let key = format!("igs {c} then a drawing command");
                ctx.count("nontrivial", 1);
                // short lists (the attribute commands, which select a style or a table entry) get every small value in both places
                let firsts: Vec<&str> = if k == 0 { vec![""] } else if k <= 3 { vec!["0", "1", "2", "3", "4", "5", "6", "7", "8", "9"] } else { vec!["0", "1", "2", "3", "4", "9"] };
                let rests: Vec<&str> = if k <= 1 {
                    vec![""]
                } else if k <= 3 {
                    vec!["0", "1", "2", "3", "4", "5", "6", "7", "8", "9", "15", "16", "99", "199"]
                } else {
                    vec!["0", "1", "15", "16", "99", "199"]
                };
                for first in &firsts {
                    for rest in &rests {
                        let mut l: Vec<&str> = Vec::new();
                        if k > 0 {
                            l.push(first);
                        }
                        for _ in 1..k {
                            l.push(rest);
                        }
                        for probe in IGS_PROBES {
                            let s = format!("G#{c}{}:\nG#{probe}\n", l.join(","));
                            self.run_stream(Emu::Igs, "initial state", b"", s.as_bytes(), &key, ctx);
                        }
                    }
                }
            }
            Job::RipProbe { cmd, len } => {
                let c = self.rip_cmds[cmd].clone();
                let key = format!("rip {} then a drawing command", show(c.as_bytes()));
                ctx.count("nontrivial", 1);
                let mut params = rip_params(len, 0, 0);
                if len >= 2 {
                    // the first two digit parameter varied separately from the rest
                    for first in [b"01", b"02", b"0F", b"0G"] {
                        for rest in [b'0', b'1', b'Z'] {
                            let mut p = vec![rest; len];
                            p[..2].copy_from_slice(first);
                            params.push(p);
                        }
                    }
                }
                for p in &params {
                    for probe in RIP_PROBES {
                        let mut s = Gfx::rip_stream(&c, p, "", "|\n");
                        s.extend(probe.as_bytes());
                        s.extend(b"\n");
                        self.run_stream(Emu::Rip, "initial state", b"", &s, &key, ctx);
                    }
                }
            }
            Job::RipContinuation { cmd } => {
                let c = self.rip_cmds[cmd].clone();
                let key = format!("rip {} with a continuation", show(c.as_bytes()));
                ctx.count("nontrivial", 1);
                for len in 0..=24usize {
                    for d in [b'1', b'0'] {
                        for pos in 0..=len {
                            for cont in ["\\", "\\\n", "\\\r\n"] {
                                let mut p = vec![d; len];
                                let tail = p.split_off(pos);
                                let mut s = Gfx::rip_stream(&c, &p, cont, "");
                                s.extend(tail);
                                // the parser has to be in a sane state for what follows
                                s.extend(b"|L00000A0A|c02\n!|@0505ok|\nplain text\n");
                                self.run_stream(Emu::Rip, "initial state", b"", &s, &key, ctx);
                            }
                        }
                    }
                }
            }
            Job::Fill { emu, scene } => {
                ctx.count("nontrivial", 1);
                if emu == Emu::Rip {
                    let key = "rip flood fill in a scene".to_string();
                    // fill colour / style set-ups: solid colours, a pattern style, a user pattern, colour 0
                    for style in ["S010F", "S0102", "S0A04", "S0000", "s0F0F0F0F0F0F0F0F0C", "S0100"] {
                        for border in ["0F", "00", "02"] {
                            for gx in 0..8 {
                                for gy in 0..6 {
                                    let (x, y) = (gx * 85 + 3, gy * 62 + 3);
                                    let s = format!("!|{}|{style}|F{}{}{border}|\n", RIP_SCENES[scene], mega(x), mega(y));
                                    self.run_stream(Emu::Rip, "initial state", b"", s.as_bytes(), &key, ctx);
                                }
                            }
                        }
                    }
                    // the same fills inside viewports: beyond the screen, small, in the lower right part, one pixel
                    for view in ["v0000ZZZZ", "v0A0A1E1E", "v8O4OHR9P", "v0000HR9P", "vZZZZ0000", "v0A0A0A0A"] {
                        for style in ["S0102", "s0F0F0F0F0F0F0F0F0C"] {
                            for gx in 0..8 {
                                for gy in 0..6 {
                                    let (x, y) = (gx * 85 + 3, gy * 62 + 3);
                                    let s = format!("!|{view}|{}|{style}|F{}{}0F|\n", RIP_SCENES[scene], mega(x), mega(y));
                                    self.run_stream(Emu::Rip, "initial state", b"", s.as_bytes(), &key, ctx);
                                }
                            }
                        }
                    }
                } else {
                    let key = "igs flood fill in a scene".to_string();
                    for colour in ["C2,1:", "C2,0:", "C2,15:A2,3,1:", "A3,2,0:C2,2:"] {
                        for gx in 0..8 {
                            for gy in 0..6 {
                                let (x, y) = (gx * 42 + 2, gy * 34 + 2);
                                let s = format!("G#{}{colour}F{x},{y}:\n", IGS_SCENES[scene]);
                                self.run_stream(Emu::Igs, "initial state", b"", s.as_bytes(), &key, ctx);
                            }
                        }
                    }
                }
            }
            Job::Wide { emu } => {
                ctx.count("nontrivial", 1);
                let key = format!("wide {} text", if emu == Emu::Rip { "rip" } else { "igs" });
                for w in ['\u{100}', '\u{2591}', '\u{fffd}', '\u{1f600}', '\u{10ffff}'] {
                    let templates: Vec<String> = if emu == Emu::Igs {
                        vec![
                            format!("G#W20,50,{w}@\n"), format!("G#W20,50,ab{w}cd@\n"), format!("G#E16,3,1:W0,0,{w}{w}@\n"), format!("G#&0,2,1,0,W,2,x,y,{w}@:\n"), format!("{w}\n"), format!("G#{w}1,2:\n"),
                            format!("G#L{w},0,10,10:\n"), format!("G#X4,1,{w}@\n"), format!("G{w}#L0,0,1,1:\n"),
                        ]
                    } else {
                        let mut v = vec![format!("{w}\n"), format!("!|{w}|\n"), format!("!|L{w}000A0A|\n"), format!("!|1{w}|\n"), format!("!{w}|L00000A0A|\n")];
                        for c in RIP_TEXT_CMDS {
                            v.push(format!("!|{c}{w}|\n"));
                            v.push(format!("!|{c}0A0A00000000ab{w}cd|\n"));
                            v.push(format!("!|Y04010400|{c}0505{w}{w}|\n"));
                        }
                        v.push(format!("!|1U05050K0K0000000<>{w}<>{w}|\n"));
                        v.push(format!("!|${w}$|\n"));
                        v
                    };
                    for t in templates {
                        self.run_stream(emu, "initial state", b"", t.as_bytes(), &key, ctx);
                    }
                }
            }
            Job::Text { emu } => {
                ctx.count("nontrivial", 1);
                let key = format!("{} text", if emu == Emu::Rip { "rip" } else { "igs" });
                for a in 0..=255u8 {
                    for pre in [&b""[..], b"!", b"!|", b"G", b"G#", b"\x1b[", b"!|1", b"G#&"] {
                        let mut s = pre.to_vec();
                        s.push(a);
                        s.extend(b"12;ZZ|:\n");
                        self.run_stream(emu, "initial state", b"", &s, &key, ctx);
                    }
                }
            }
        }
    }

    fn describe(&self, idx: u64) -> Value {
        let j = &self.jobs[idx as usize];
        let key = match j {
            Job::Rip { cmd, .. } | Job::RipText { cmd, .. } => format!("rip {}", show(self.rip_cmds[*cmd].as_bytes())),
            Job::RipPair { a, .. } => format!("rip pair {}", show(self.rip_cmds[*a].as_bytes())),
            Job::Igs { cmd, .. } => format!("igs {}", self.igs_cmds[*cmd]),
            Job::IgsShapes { part, .. } => format!("igs shapes {part}"),
            Job::Text { emu } => format!("{emu:?} text"),
            Job::Wide { emu } => format!("wide {emu:?} text"),
            Job::IgsProbe { cmd, .. } => format!("igs {} then a drawing command", self.igs_cmds[*cmd]),
            Job::RipProbe { cmd, .. } => format!("rip {} then a drawing command", show(self.rip_cmds[*cmd].as_bytes())),
            Job::RipContinuation { cmd } => format!("rip {} with a continuation", show(self.rip_cmds[*cmd].as_bytes())),
            Job::Fill { emu, .. } => format!("{} flood fill in a scene", if *emu == Emu::Rip { "rip" } else { "igs" }),
        };
        json!({"engine": "gfx", "idx": idx, "job": format!("{j:?}"), "key": key})
    }

    fn replay(&mut self, case: &Value, ctx: &mut Ctx) {
        self.run(case["idx"].as_u64().unwrap_or(0), ctx)
    }

    fn meta(&self) -> Value {
        json!({"rip_commands": self.rip_cmds.iter().map(|c| show(c.as_bytes())).collect::<Vec<_>>(), "igs_commands": self.igs_cmds.iter().collect::<String>(),
               "rip_contexts": rip_contexts().iter().map(|c| c.0).collect::<Vec<_>>(), "igs_contexts": igs_contexts().iter().map(|c| c.0).collect::<Vec<_>>(),
               "rip_digits": "0 1 Z", "igs_values": IGS_VALUES, "cpu_limit_ms": CPU_LIMIT_MS, "wall_limit_ms": WALL_LIMIT_MS, "jobs": self.jobs.len()})
    }
}

fn unescape(s: &str) -> Vec<u8> {
    let b = s.as_bytes();
    let mut out = Vec::new();
    let mut i = 0;
    while i < b.len() {
        if b[i] == b'\\' && i + 3 < b.len() && b[i + 1] == b'x' {
            out.push(u8::from_str_radix(&s[i + 2..i + 4], 16).unwrap_or(b'?'));
            i += 4;
        } else {
            out.push(b[i]);
            i += 1;
        }
    }
    out
}

fn main() {
    // debugging aid: GFX_ONE="rip|igs" GFX_CTX=<escaped> GFX_STREAM=<escaped> runs one stream and prints what happened
    if let Ok(e) = std::env::var("GFX_ONE") {
        vharness::panics::install_hook();
        let emu = if e == "rip" { Emu::Rip } else { Emu::Igs };
        let mut m = Machine::new(emu);
        let c = unescape(&std::env::var("GFX_CTX").unwrap_or_default());
        let s = unescape(&std::env::var("GFX_STREAM").unwrap_or_default());
        println!("context: {:?}", m.feed(&c));
        let t = Instant::now();
        let c0 = thread_cpu_ns();
        println!("stream: {:?} cpu {} ms wall {} ms", m.feed(&s), (thread_cpu_ns() - c0) / 1_000_000, t.elapsed().as_millis());
        println!("canvas: {:?}", m.canvas_problem(true));
        return;
    }
    worker_main(|prop, tier| Box::new(build(prop, tier)));
}
