//! C04 (ANSI files written by the engine parse back to the same picture) and
//! C15 (Avatar, PCBoard, Ctrl-A, Renegade, ASCII, ATASCII round trips).

use icy_engine::{attribute, Buffer, BufferType, ControlCharHandling, IceMode, SaveOptions, ScreenPreperation, TextPane};
use std::path::PathBuf;
use vharness::doc::*;
use vharness::{catch, json, worker_main, Ctx, Engine, Fnv, Value};

// ------------------------------------------------------------------ option vectors (C04)

#[derive(Clone, Copy, Debug, PartialEq)]
struct Opt {
    bits: u8, // compress, cursor_forward, repeat, preserve_len, longer_terminal, extended_colors, lossless, normalize_ws
    prep: u8,
    ctrl: u8,
    ice: u8,
}

const DEFAULT_BITS: u8 = 0b1010_0011; // compress, cursor forward, !repeat, !preserve, !longer, extended colours, !lossless, normalize

impl Opt {
    fn default() -> Opt {
        Opt { bits: DEFAULT_BITS, prep: 0, ctrl: 0, ice: 0 }
    }
    fn save_options(&self, sauce: bool) -> SaveOptions {
        let mut o = SaveOptions::new();
        o.compress = self.bits & 1 != 0;
        o.use_cursor_forward = self.bits & 2 != 0;
        o.use_repeat_sequences = self.bits & 4 != 0;
        o.preserve_line_length = self.bits & 8 != 0;
        o.longer_terminal_output = self.bits & 16 != 0;
        o.use_extended_colors = self.bits & 32 != 0;
        o.lossles_output = self.bits & 64 != 0;
        o.normalize_whitespaces = self.bits & 128 != 0;
        o.screen_preparation = [ScreenPreperation::None, ScreenPreperation::ClearScreen, ScreenPreperation::Home][self.prep as usize];
        o.control_char_handling = [ControlCharHandling::Ignore, ControlCharHandling::IcyTerm, ControlCharHandling::FilterOut][self.ctrl as usize];
        o.save_sauce = sauce;
        o
    }
    fn ice_mode(&self) -> IceMode {
        [IceMode::Blink, IceMode::Ice, IceMode::Unlimited][self.ice as usize]
    }
    fn json(&self) -> Value {
        json!({"compress": self.bits & 1 != 0, "use_cursor_forward": self.bits & 2 != 0, "use_repeat_sequences": self.bits & 4 != 0, "preserve_line_length": self.bits & 8 != 0,
               "longer_terminal_output": self.bits & 16 != 0, "use_extended_colors": self.bits & 32 != 0, "lossles_output": self.bits & 64 != 0, "normalize_whitespaces": self.bits & 128 != 0,
               "screen_preparation": (["None", "ClearScreen", "Home"][self.prep as usize]), "control_char_handling": (["Ignore", "IcyTerm", "FilterOut"][self.ctrl as usize]), "ice_mode": (["Blink", "Ice", "Unlimited"][self.ice as usize])})
    }
    fn all() -> Vec<Opt> {
        let mut v = Vec::new();
        for bits in 0..=255u8 {
            for prep in 0..3 {
                for ctrl in 0..3 {
                    for ice in 0..3 {
                        v.push(Opt { bits, prep, ctrl, ice });
                    }
                }
            }
        }
        v
    }
    /// vectors that differ from the default in at most k dimensions (each bit is a dimension)
    fn near(k: u32) -> Vec<Opt> {
        Opt::all().into_iter().filter(|o| (o.bits ^ DEFAULT_BITS).count_ones() + (o.prep != 0) as u32 + (o.ctrl != 0) as u32 + (o.ice != 0) as u32 <= k).collect()
    }
}

// ------------------------------------------------------------------ cell alphabets

const RGB_ONLY: (u8, u8, u8) = (12, 34, 56); // not an xterm-256 colour

fn palette_for_ansi() -> icy_engine::Palette {
    let mut p = icy_engine::Palette::dos_default();
    p.insert_color_rgb(255, 0, 0); // 16: xterm 196
    p.insert_color_rgb(RGB_ONLY.0, RGB_ONLY.1, RGB_ONLY.2); // 17
    p
}

/// attribute bits of the extended attributes the ANSI writer emits
const EXT: [(&str, u16); 6] = [
    ("underline", attribute::UNDERLINE),
    ("faint", attribute::FAINT),
    ("italic", attribute::ITALIC),
    ("crossed", attribute::CROSSED_OUT),
    ("dunderline", attribute::DOUBLE_UNDERLINE),
    ("concealed", attribute::CONCEAL),
];

#[derive(Clone, Copy, Debug, PartialEq)]
struct TCell {
    c: Cell,
    ext: u16,
}

fn t(c: Cell) -> TCell {
    TCell { c, ext: 0 }
}

fn alphabet8(ice: IceMode) -> Vec<TCell> {
    let a = b'A' as u32;
    vec![
        t(Cell::new(32, 7, 0)),
        t(Cell::new(a, 7, 0)),
        t(Cell::new(a, 15, 0)),
        t(Cell::new(a, 7, 1)),
        t(Cell::new(0xDB, 4, 2)),
        t(Cell::new(32, 7, 1)),
        if ice == IceMode::Ice { t(Cell::new(a, 7, 9)) } else { t(Cell::new(a, 7, 0).blink()) },
        t(Cell::new(a, 16, 0)),
    ]
}

fn alphabet_ext(ice: IceMode, ctrl: u8) -> Vec<TCell> {
    let a = b'A' as u32;
    let mut v = alphabet8(ice);
    v.push(t(Cell::new(a, 17, 0))); // RGB foreground
    v.push(t(Cell::new(a, 7, 17))); // RGB background
    v.push(t(Cell::new(a, 7, 16))); // xterm background
    v.push(t(Cell::new(32, 7, 17))); // blank on an RGB background
    v.push(t(Cell::new(32, 7, 16))); // blank on an xterm background
    v.push(t(Cell::new(b'b' as u32, 7, 0).bold())); // bold flag on a dark colour
    if ice != IceMode::Blink {
        v.push(t(Cell::new(a, 1, 12)));
        v.push(t(Cell::new(32, 7, 12))); // blank on a bright background
        v.push(t(Cell::new(32, 7, 8))); // blank on bright black
    }
    if ice == IceMode::Unlimited {
        v.push(t(Cell::new(a, 7, 10).blink()));
    }
    for (_, bit) in EXT {
        v.push(TCell { c: Cell::new(b'e' as u32, 7, 0), ext: bit });
    }
    v.push(t(Cell::new(0, 7, 0)));
    v.push(t(Cell::new(255, 7, 0)));
    v.push(t(Cell::new(0xB0, 2, 0)));
    if ctrl == 1 {
        // IcyTerm handling can encode the control characters
        for ch in [0x1b, 0x07, 0x08, 0x09, 0x0C, 0x7F, 0x0D, 0x0A] {
            v.push(t(Cell::new(ch, 7, 0)));
        }
    }
    v
}

fn put_t(buf: &mut Buffer, x: i32, y: i32, c: &TCell) {
    let mut ch = c.c.to_char();
    ch.attribute.attr |= c.ext;
    buf.layers[0].set_char((x, y), ch);
}

// ------------------------------------------------------------------ comparison

fn is_blank(ch: u32) -> bool {
    ch == 0 || ch == 32 || ch == 255
}

struct Cmp {
    compare_blink: bool,
    blanks_equivalent: bool,
    eight_bg_colours: bool,
    chars_only: bool,
    inverse_only: bool,
}

/// returns (kind, x, y) of the first difference
fn compare(src: &Buffer, got: &Buffer, w: i32, h: i32, cmp: &Cmp) -> Option<(&'static str, i32, i32)> {
    if got.get_width() != w {
        return Some(("width", got.get_width(), 0));
    }
    if got.get_height() > h {
        // rows below the source may only hold blanks
        for y in h..got.get_height() {
            for x in 0..w {
                let g = shown(got, x, y);
                // background index, not RGB: ATASCII buffers load with the Atari palette whose colour 0 is not black
                if !is_blank(g.ch) || got.get_char((x, y)).attribute.get_background() != 0 {
                    return Some(("extra-row", x, y));
                }
            }
        }
    }
    for y in 0..h {
        for x in 0..w {
            let s = shown(src, x, y);
            let g = if y < got.get_height() {
                shown(got, x, y)
            } else {
                Shown { ch: 32, fg: (170, 170, 170), bg: (0, 0, 0), blink: false, page: 0, visible: true }
            };
            let s_blank = is_blank(s.ch);
            let same_char = s.ch == g.ch || (s_blank && is_blank(g.ch) && (cmp.blanks_equivalent || !s.visible || (s.ch != 255 && g.ch != 255)));
            if !same_char {
                return Some(("char", x, y));
            }
            if cmp.chars_only {
                continue;
            }
            if cmp.inverse_only {
                let src_inv = s.visible && src.get_char((x, y)).attribute.get_background() != 0;
                let got_inv = y < got.get_height() && got.get_char((x, y)).attribute.get_background() != 0;
                if src_inv != got_inv {
                    return Some(("inverse", x, y));
                }
                continue;
            }
            let s_bg = if s.visible { s.bg } else { (0, 0, 0) };
            // the background of a solid block is not displayed (the optimiser may change it), like the foreground of a blank
            let solid = s.ch == 219 && g.ch == 219;
            if !solid && s_bg != g.bg {
                return Some(("bg", x, y));
            }
            let _ = cmp.eight_bg_colours;
            if !s_blank && s.visible && s.fg != g.fg {
                return Some(("fg", x, y));
            }
            if cmp.compare_blink && s.visible && s.blink != g.blink {
                return Some(("blink", x, y));
            }
        }
    }
    None
}

// ------------------------------------------------------------------ documents

#[derive(Clone)]
struct TextDoc {
    ext: &'static str,
    w: i32,
    rows: Vec<Vec<TCell>>,
    opt: Opt,
    sauce: bool,
    what: String,
}

fn build_doc(d: &TextDoc) -> Buffer {
    let h = d.rows.len() as i32;
    let mut b = new_buffer(d.w, h, d.opt.ice_mode());
    if d.ext == "ans" {
        b.palette = palette_for_ansi();
        // palette variants (the document description starts with [palN]): colours are what counts, not palette positions
        match d.what.strip_prefix("[pal").and_then(|r| r.chars().next()) {
            Some('1') => b.palette.set_color(0, icy_engine::Color::new(0, 0, 170)),
            Some('2') => {
                // DOS colours at other positions: 1 <-> 4 and 9 <-> 12 swapped
                for (i, j) in [(1u32, 4u32), (9, 12)] {
                    let (a, c) = (b.palette.get_rgb(i), b.palette.get_rgb(j));
                    b.palette.set_color(i, icy_engine::Color::new(c.0, c.1, c.2));
                    b.palette.set_color(j, icy_engine::Color::new(a.0, a.1, a.2));
                }
            }
            Some('3') => b.palette.set_color(0, icy_engine::Color::new(10, 20, 30)),
            // only the bright entry a bold dark colour is displayed with differs from the DOS palette
            Some('4') => b.palette.set_color(9, icy_engine::Color::new(255, 128, 0)),
            _ => {}
        }
    }
    if d.ext == "ata" {
        b.buffer_type = BufferType::Atascii;
    }
    for (y, r) in d.rows.iter().enumerate() {
        for (x, c) in r.iter().enumerate() {
            if (x as i32) < d.w {
                put_t(&mut b, x as i32, y as i32, c);
            }
        }
    }
    if d.what.contains("[canvas+1]") {
        // the canvas is one row taller than its only layer (what resize_buffer(false, ..) leaves): the cells of that row are held by no layer
        b.set_height(h + 1);
    }
    b
}

fn doc_json(d: &TextDoc, bad_row: Option<i32>) -> Value {
    let row = bad_row.and_then(|y| d.rows.get(y as usize)).map(|r| {
        let mut cells: Vec<Value> = Vec::new();
        // run-length description of the row
        let mut i = 0;
        while i < r.len() {
            let mut j = i;
            while j < r.len() && r[j] == r[i] {
                j += 1;
            }
            let mut c = r[i].c.json();
            c["ext"] = json!(r[i].ext);
            c["times"] = json!(j - i);
            cells.push(c);
            i = j;
        }
        json!(cells)
    });
    json!({"format": d.ext, "width": d.w, "height": d.rows.len(), "options": d.opt.json(), "sauce": d.sauce, "what": d.what, "failing_row(run-length)": row})
}

fn run_doc(d: &TextDoc, prop: &str, ctx: &mut Ctx) {
    ctx.count("evaluations", 1);
    ctx.count("transitions", 2);
    let src = build_doc(d);
    let h = src.get_height();
    let o = d.opt.save_options(d.sauce);
    let bytes = match catch(|| src.to_bytes(d.ext, &o)) {
        Err(p) => {
            ctx.panic(&p, doc_json(d, None));
            return;
        }
        Ok(Err(e)) => {
            ctx.violation(format!("diff:{}:save-refused", d.ext), json!({"doc": doc_json(d, None), "error": e.to_string()}));
            return;
        }
        Ok(Ok(b)) => b,
    };
    let mut f = Fnv::new();
    f.bytes(&bytes[..bytes.len().min(4096)]);
    f.u64(bytes.len() as u64);
    ctx.state(f.finish());
    let got = match catch(|| Buffer::from_bytes(&PathBuf::from(format!("x.{}", d.ext)), false, &bytes)) {
        Err(p) => {
            ctx.panic(&p, doc_json(d, None));
            return;
        }
        Ok(Err(e)) => {
            ctx.violation(format!("diff:{}:load-refused-own-output", d.ext), json!({"doc": doc_json(d, None), "error": e.to_string()}));
            return;
        }
        Ok(Ok(b)) => b,
    };
    let c04 = prop == "C04";
    let cmp = Cmp {
        // an ice colour buffer has no blink (bit 7 is the bright background): a blink flag on such a cell is not displayed
        compare_blink: c04 && d.opt.ice_mode() != IceMode::Ice,
        // which blank character (0, 32, 255) is used is not a visible difference (trailing blanks are cut by the writer)
        blanks_equivalent: true,
        eight_bg_colours: !c04,
        chars_only: d.ext == "asc",
        inverse_only: d.ext == "ata",
    };
    ctx.count("nontrivial", 1);
    if let Some((kind, x, y)) = compare(&src, &got, d.w, h, &cmp) {
        let s = shown(&src, x, y);
        let g = if y < got.get_height() && x < got.get_width() { Some(shown(&got, x, y)) } else { None };
        // class of the source cell the difference was seen on (options are in the replay, not in the signature)
        let src_cell = d.rows.get(y as usize).and_then(|r| r.get(x as usize));
        let cls = match src_cell {
            None => "beyond-row-end".to_string(),
            Some(c) if c.ext != 0 => "extended-attribute-cell".to_string(),
            Some(c) if c.c.bold => "bold-flag-cell".to_string(),
            Some(c) if is_blank(c.c.ch) => "blank-cell".to_string(),
            Some(c) if c.c.ch < 32 || c.c.ch == 127 => "control-char-cell".to_string(),
            Some(c) if c.c.fg > 15 || c.c.bg > 15 => "extended-colour-cell".to_string(),
            Some(c) if c.c.blink => "blink-cell".to_string(),
            Some(_) => "plain-cell".to_string(),
        };
        let cls = if c04 { cls } else { format!("{cls}:prep={}", d.opt.prep) };
        let row = d.rows.get(y as usize);
        let ext_near = row.map(|r| r.iter().any(|c| c.ext != 0)).unwrap_or(false);
        ctx.violation(
            format!("diff:{}:{kind}:{}{}", d.ext, cls, if ext_near { ":row-has-extended-attribute" } else { "" }),
            json!({"doc": doc_json(d, Some(y)), "x": x, "y": y, "source": shown_json(&s), "loaded": g.map(|g| shown_json(&g)), "loaded_size": [got.get_width(), got.get_height()],
                   "file": vharness::bytes_to_json(&bytes[..bytes.len().min(600)])}),
        );
        return;
    }
    // second generation: the loaded file is saved with the same options and loaded again (what a user does with a file)
    ctx.count("transitions", 2);
    ctx.count("second_generation", 1);
    let again = match catch(|| got.to_bytes(d.ext, &o).and_then(|b| Buffer::from_bytes(&PathBuf::from(format!("x.{}", d.ext)), false, &b))) {
        Err(p) => {
            ctx.panic(&p, doc_json(d, None));
            return;
        }
        Ok(Err(e)) => {
            ctx.violation(format!("diff:{}:second-generation:refused", d.ext), json!({"doc": doc_json(d, None), "error": e.to_string()}));
            return;
        }
        Ok(Ok(b)) => b,
    };
    if let Some((kind, x, y)) = compare(&src, &again, d.w, h, &cmp) {
        let s = shown(&src, x, y);
        let g = if y < again.get_height() && x < again.get_width() { Some(shown(&again, x, y)) } else { None };
        ctx.violation(
            format!("diff:{}:second-generation:{kind}", d.ext),
            json!({"doc": doc_json(d, Some(y)), "x": x, "y": y, "source": shown_json(&s), "loaded_twice": g.map(|g| shown_json(&g)), "first_load_size": [got.get_width(), got.get_height()], "second_load_size": [again.get_width(), again.get_height()]}),
        );
    }
}

// ------------------------------------------------------------------ row families

fn rows_upto(alpha: &[TCell], maxw: usize) -> Vec<Vec<TCell>> {
    let mut out: Vec<Vec<TCell>> = Vec::new();
    let mut cur: Vec<Vec<TCell>> = vec![vec![]];
    for _ in 0..maxw {
        let mut next = Vec::new();
        for r in &cur {
            for a in alpha {
                let mut n = r.clone();
                n.push(*a);
                next.push(n);
            }
        }
        out.extend(next.iter().cloned());
        cur = next;
    }
    out
}

/// prefix (<= p cells) . filler . suffix (<= p cells) in the given width
fn framed_rows(alpha: &[TCell], fillers: &[TCell], w: usize, p: usize) -> Vec<Vec<TCell>> {
    let mut parts: Vec<Vec<TCell>> = vec![vec![]];
    parts.extend(rows_upto(alpha, p));
    let mut out = Vec::new();
    for pre in &parts {
        for suf in &parts {
            if pre.len() + suf.len() > w {
                continue;
            }
            for f in fillers {
                let mut r = pre.clone();
                r.extend(std::iter::repeat(*f).take(w - pre.len() - suf.len()));
                r.extend(suf.iter().copied());
                out.push(r);
            }
        }
    }
    out
}

enum Job {
    Docs(Vec<TextDoc>),
    /// a job of another shard (kept as a place holder so that the numbering is the same in every process)
    NotMine,
    /// C15 framed rows of one (format, screen preparation): part k of FRAMED_PARTS, generated on demand
    Framed { ext: &'static str, prep: u8, part: usize, p: usize },
}

const FRAMED_PARTS: usize = 16;

fn framed_docs(ext: &'static str, prep: u8, part: usize, p: usize) -> Vec<TextDoc> {
    let w: i32 = if ext == "ata" { 40 } else { 80 };
    let alpha = c15_alphabet(ext);
    let o = Opt { bits: DEFAULT_BITS | 64, prep, ctrl: 0, ice: 0 };
    let fillers = [alpha[0], alpha[1], alpha[alpha.len().min(6) - 1]];
    let rows = framed_rows(&alpha, &fillers, w as usize, p);
    let n = rows.len();
    let (lo, hi) = (part * n / FRAMED_PARTS, (part + 1) * n / FRAMED_PARTS);
    let mut docs = Vec::new();
    chunk_docs(ext, w, rows[lo..hi].to_vec(), 25, o, false, "prefix.filler.suffix rows", &mut docs);
    docs
}

struct Text {
    prop: String,
    jobs: Vec<Job>,
    meta: Value,
}

/// Collects documents into jobs of 8. A worker keeps only the jobs of its own shard (the thorough tiers do not fit into the
/// memory of 16 processes otherwise); the job numbering is the same in every process.
struct DocSink {
    shard: Option<(u64, u64)>,
    pending: Vec<TextDoc>,
    jobs: Vec<Job>,
}

impl DocSink {
    fn new() -> DocSink {
        // "--shard i --of n" of the worker command line; replay / describe runs keep everything
        let args: Vec<String> = std::env::args().collect();
        let get = |k: &str| args.iter().position(|a| a == k).and_then(|i| args.get(i + 1)).and_then(|v| v.parse::<u64>().ok());
        let shard = match (get("--shard"), get("--of")) {
            (Some(i), Some(n)) if n > 0 => Some((i, n)),
            _ => None,
        };
        DocSink { shard, pending: Vec::new(), jobs: Vec::new() }
    }
    fn push(&mut self, d: TextDoc) {
        let idx = self.jobs.len() as u64;
        let mine = self.shard.map(|(i, n)| idx % n == i).unwrap_or(true);
        if mine {
            self.pending.push(d);
        } else {
            // count only
            self.pending.push(TextDoc { ext: d.ext, w: 0, rows: Vec::new(), opt: d.opt, sauce: false, what: String::new() });
        }
        if self.pending.len() == 8 {
            self.flush();
        }
    }
    fn flush(&mut self) {
        if self.pending.is_empty() {
            return;
        }
        let idx = self.jobs.len() as u64;
        let mine = self.shard.map(|(i, n)| idx % n == i).unwrap_or(true);
        let docs = std::mem::take(&mut self.pending);
        self.jobs.push(if mine { Job::Docs(docs) } else { Job::NotMine });
    }
    fn finish(mut self) -> Vec<Job> {
        self.flush();
        self.jobs
    }
}

trait DocOut {
    fn put(&mut self, d: TextDoc);
}
impl DocOut for Vec<TextDoc> {
    fn put(&mut self, d: TextDoc) {
        self.push(d);
    }
}
impl DocOut for DocSink {
    fn put(&mut self, d: TextDoc) {
        self.push(d);
    }
}

fn chunk_docs(ext: &'static str, w: i32, rows: Vec<Vec<TCell>>, per: usize, opt: Opt, sauce: bool, what: &str, out: &mut impl DocOut) {
    for c in rows.chunks(per) {
        out.put(TextDoc { ext, w, rows: c.to_vec(), opt, sauce, what: what.to_string() });
    }
}

fn build_c04(tier: &str) -> (Vec<Job>, Value) {
    let thorough = tier == "thorough";
    let mut docs = DocSink::new();
    let mut counts = serde_json::Map::new();
    // (1) SAUCE width: all rows over A8 of width 1..=4 (1- and 2-row documents come from chunking by 1 and 2), near-default vectors
    let near = Opt::near(if thorough { 2 } else { 1 });
    let mut n1 = 0;
    for o in &near {
        let a8 = alphabet8(o.ice_mode());
        for w in 1..=(if thorough { 4 } else { 3 }) {
            let rows: Vec<Vec<TCell>> = rows_upto(&a8, w).into_iter().filter(|r| r.len() == w).collect();
            n1 += rows.len();
            chunk_docs("ans", w as i32, rows.clone(), 24, *o, true, "all rows of this width (SAUCE carries the width)", &mut docs);
            if w <= 2 {
                chunk_docs("ans", w as i32, rows.clone(), 1, *o, true, "single row document (SAUCE width)", &mut docs);
                chunk_docs("ans", w as i32, rows, 2, *o, true, "two row document (SAUCE width)", &mut docs);
            }
        }
    }
    counts.insert("sauce_width_rows".into(), json!(n1));
    // (2) width 80: prefix . filler . suffix, default vector and every vector differing in <= 1 (2) options
    let near2 = Opt::near(if thorough { 2 } else { 1 });
    let mut n2 = 0;
    for o in &near2 {
        let a8 = alphabet8(o.ice_mode());
        let fillers = [a8[0], a8[1], a8[5]];
        let rows = framed_rows(&a8, &fillers, 80, if thorough || *o == Opt::default() { 2 } else { 1 });
        n2 += rows.len();
        for h in [25usize, 2, 1] {
            let take = if h == 25 { rows.len() } else { rows.len().min(120) };
            chunk_docs("ans", 80, rows[..take].to_vec(), h, *o, false, "prefix.filler.suffix rows at width 80", &mut docs);
        }
    }
    counts.insert("width80_framed_rows".into(), json!(n2));
    // (3) extended alphabet: all pairs (triples in thorough) of extended cells in a frame, 27 (prep x ctrl x ice) vectors x compress on/off
    let mut n3 = 0;
    for ice in 0..3u8 {
        for ctrl in 0..3u8 {
            for prep in 0..3u8 {
                for bits in [DEFAULT_BITS, DEFAULT_BITS & !1, DEFAULT_BITS | 64, DEFAULT_BITS | 4, DEFAULT_BITS | 8] {
                    let o = Opt { bits, prep, ctrl, ice };
                    let ax = alphabet_ext(o.ice_mode(), ctrl);
                    let mut rows = Vec::new();
                    for a in &ax {
                        for b in &ax {
                            let mut r = vec![ax[1], *a, *b, ax[1]];
                            r.extend(std::iter::repeat(ax[0]).take(6));
                            r.extend([*b, *a]);
                            rows.push(r);
                        }
                    }
                    n3 += rows.len();
                    chunk_docs("ans", 80, rows, 25, o, false, "pairs of extended-alphabet cells", &mut docs);
                }
            }
        }
    }
    counts.insert("extended_pair_rows".into(), json!(n3));
    // (3b) runs of every extended cell: lengths 1..=8 in the middle of a row, at its start and up to its last / last but one column
    // (the writer replaces runs by cursor-forward / repeat sequences depending on the colour state it tracks)
    let mut n3b = 0;
    for ice in 0..3u8 {
        for ctrl in 0..3u8 {
            for prep in 0..3u8 {
                for bits in [DEFAULT_BITS, DEFAULT_BITS & !1, DEFAULT_BITS | 64, DEFAULT_BITS | 4, (DEFAULT_BITS | 4) & !2, DEFAULT_BITS | 8] {
                    if !thorough && prep != 0 && bits != DEFAULT_BITS {
                        continue;
                    }
                    let o = Opt { bits, prep, ctrl, ice };
                    let ax = alphabet_ext(o.ice_mode(), ctrl);
                    let mut rows = Vec::new();
                    for a in &ax {
                        for n in 1..=8usize {
                            let run: Vec<TCell> = std::iter::repeat(*a).take(n).collect();
                            rows.push([ax[1]].into_iter().chain(run.iter().copied()).chain([ax[1]]).collect::<Vec<_>>());
                            rows.push(run.iter().copied().chain([ax[1]]).collect::<Vec<_>>());
                            rows.push(std::iter::repeat(ax[1]).take(80 - n).chain(run.iter().copied()).collect::<Vec<_>>());
                            rows.push(std::iter::repeat(ax[1]).take(79 - n).chain(run.iter().copied()).chain([ax[1]]).collect::<Vec<_>>());
                        }
                    }
                    n3b += rows.len();
                    chunk_docs("ans", 80, rows, 25, o, false, "runs of extended-alphabet cells", &mut docs);
                }
            }
        }
    }
    counts.insert("extended_run_rows".into(), json!(n3b));
    // (4) every option vector on a core set of rows
    let mut n4 = 0;
    for o in Opt::all() {
        let ax = alphabet_ext(o.ice_mode(), o.ctrl);
        let a8 = alphabet8(o.ice_mode());
        let mut rows: Vec<Vec<TCell>> = Vec::new();
        // full width rows, rows ending at 78/79, blank runs of every kind, the whole extended alphabet once
        rows.push(std::iter::repeat(a8[1]).take(80).collect());
        rows.push(std::iter::repeat(a8[5]).take(80).collect());
        rows.push(std::iter::repeat(a8[0]).take(79).chain([a8[1]]).collect());
        rows.push(std::iter::repeat(a8[0]).take(78).chain([a8[2], a8[0]]).collect());
        rows.push([a8[6]].into_iter().chain(std::iter::repeat(a8[0]).take(40)).chain([a8[6], a8[3]]).collect());
        rows.push(ax.iter().copied().chain(std::iter::repeat(a8[0]).take(5)).chain(ax.iter().rev().copied()).collect());
        rows.push(vec![]);
        rows.push([a8[4]; 12].into_iter().chain([a8[0]; 12]).chain([a8[4]; 3]).chain([a8[7]; 9]).collect());
        rows.push(vec![a8[1]]);
        n4 += rows.len();
        docs.push(TextDoc { ext: "ans", w: 80, rows, opt: o, sauce: false, what: "core rows under every option vector".into() });
    }
    counts.insert("all_option_vectors".into(), json!(Opt::all().len()));
    counts.insert("core_rows_x_vectors".into(), json!(n4));
    // (5) heights 1, 2, 25, 60 and widths with SAUCE
    for h in [1usize, 2, 25, 60] {
        for w in [1, 2, 79, 80, 81, 132] {
            for ice in 0..3u8 {
                let o = Opt { ice, ..Opt::default() };
                let a8 = alphabet8(o.ice_mode());
                let rows: Vec<Vec<TCell>> = (0..h).map(|y| (0..w as usize).map(|x| a8[(x * 3 + y * 5 + x * y) % 8]).collect()).collect();
                docs.push(TextDoc { ext: "ans", w, rows, opt: o, sauce: w != 80, what: "size menu".into() });
            }
        }
    }
    // (7) palettes in which the colours sit at other positions (index 0 is not black, DOS colours permuted), ice buffers with blink
    //     flags on cells, rows that start with the three characters of a UTF-8 byte order mark
    let mut n7 = 0;
    for pal in 1..=3 {
        for ice in 0..3u8 {
            for bits in [DEFAULT_BITS, DEFAULT_BITS | 64] {
                let o = Opt { bits, ice, ..Opt::default() };
                let a8 = alphabet8(o.ice_mode());
                let mut cells = a8.clone();
                // every DOS colour as foreground (bold pairs) and the first eight as background
                for c in 0..16u32 {
                    cells.push(t(Cell::new(b'c' as u32, c, (c + 3) % 8)));
                }
                let mut rows = framed_rows(&a8, &[a8[0], a8[1], a8[5]], 80, 1);
                for a in &cells {
                    for b in &cells {
                        rows.push(vec![*a, *b, a8[0], a8[0], a8[0], a8[0], a8[0], a8[0], *b, *a]);
                    }
                }
                n7 += rows.len();
                chunk_docs("ans", 80, rows, 25, o, false, &format!("[pal{pal}] rows under a palette whose colours sit at other positions"), &mut docs);
            }
        }
    }
    {
        let o = Opt { ice: 1, ..Opt::default() };
        let a = b'A' as u32;
        let cells = [t(Cell::new(a, 7, 1).blink()), t(Cell::new(32, 7, 1).blink()), t(Cell::new(a, 7, 9).blink()), t(Cell::new(32, 7, 0).blink()), t(Cell::new(a, 7, 0)), t(Cell::new(32, 7, 0))];
        let mut rows = Vec::new();
        for x in &cells {
            for y in &cells {
                for n in [1usize, 6] {
                    let mut r = vec![*x];
                    r.extend(std::iter::repeat(*y).take(n));
                    r.push(*x);
                    rows.push(r);
                }
            }
        }
        n7 += rows.len();
        chunk_docs("ans", 80, rows, 25, o, false, "cells with a blink flag in an ice colour buffer", &mut docs);
        let mut rows = Vec::new();
        for tail in [vec![], vec![t(Cell::new(b'H' as u32, 7, 0))], vec![t(Cell::new(b'H' as u32, 14, 1)), t(Cell::new(b'i' as u32, 7, 0))]] {
            let mut r = vec![t(Cell::new(0xEF, 7, 0)), t(Cell::new(0xBB, 7, 0)), t(Cell::new(0xBF, 7, 0))];
            r.extend(tail);
            rows.push(r);
        }
        n7 += rows.len();
        for prep in 0..3u8 {
            chunk_docs("ans", 80, rows.clone(), 1, Opt { prep, ..Opt::default() }, false, "rows that start with the characters EF BB BF", &mut docs);
        }
    }
    counts.insert("palette_position_blink_in_ice_and_bom_rows".into(), json!(n7));
    // (8) rows that are written as cursor movements only (blanks on black in several attributes) between rows of text, more of them
    //     than a screen has lines; bold cells under a palette whose bright entries are not the DOS ones; a canvas taller than its layer
    let mut n8 = 0;
    for o in Opt::near(1) {
        let a = t(Cell::new(b'A' as u32, 7, 0));
        let blank_row: Vec<TCell> = std::iter::repeat(t(Cell::new(32, 7, 0).bold())).take(10).chain(std::iter::repeat(t(Cell::new(32, 7, 0))).take(70)).collect();
        let blank_row2: Vec<TCell> = std::iter::repeat(t(Cell::new(32, 2, 0))).take(5).chain(std::iter::repeat(t(Cell::new(32, 9, 0))).take(5)).collect();
        for k in [1usize, 24, 25, 30, 58] {
            let mut rows: Vec<Vec<TCell>> = vec![vec![a; 80]];
            for i in 0..k {
                // (a row of blanks that differ in their foreground only is written as one printed blank; the bold ones as cursor movements)
                rows.push(if i % 9 == 8 && k != 30 { blank_row2.clone() } else { blank_row.clone() });
            }
            rows.push(vec![t(Cell::new(b'B' as u32, 7, 0)); 3]);
            n8 += rows.len();
            let per = rows.len();
            chunk_docs("ans", 80, rows, per, o, false, "text, rows of blanks in several attributes, text", &mut docs);
        }
        // a trailing run of blanks on black in which a blank further left blinks and the last column does not
        let mut blink_blank = Cell::new(32, 7, 0);
        blink_blank.blink = true;
        let blink_rows: Vec<Vec<TCell>> = vec![
            std::iter::repeat(t(Cell::new(b'A' as u32, 7, 0))).take(10).chain(std::iter::repeat(t(blink_blank)).take(30)).chain(std::iter::repeat(t(Cell::new(32, 7, 0))).take(40)).collect(),
            std::iter::repeat(t(blink_blank)).take(79).chain([t(Cell::new(32, 7, 0))]).collect(),
            vec![t(Cell::new(b'z' as u32, 7, 0)); 3],
        ];
        n8 += 3;
        chunk_docs("ans", 80, blink_rows, 3, o, false, "blinking blanks inside the trailing run of blanks", &mut docs);
        let bold_rows: Vec<Vec<TCell>> = vec![(0..16u32).map(|fg| t(Cell::new(0xDB, fg % 8, (fg / 8) % 8).bold())).chain((0..8u32).map(|fg| t(Cell::new(b'x' as u32, fg, 1).bold()))).collect()];
        n8 += 1;
        chunk_docs("ans", 80, bold_rows, 1, o, false, "[pal4] bold cells of every dark colour", &mut docs);
        let tall: Vec<Vec<TCell>> = vec![vec![t(Cell::new(b'A' as u32, 7, 1)); 80], vec![t(Cell::new(b'b' as u32, 14, 4)); 40]];
        n8 += 2;
        chunk_docs("ans", 80, tall, 2, o, false, "[canvas+1] coloured rows, canvas one row taller than the layer", &mut docs);
    }
    counts.insert("cursor_only_rows_bright_palette_tall_canvas".into(), json!(n8));
    // (6) widths beyond 80 columns carried by SAUCE: prefix . filler . suffix rows (blank runs that end beyond column 80)
    let mut n6 = 0;
    for w in [81usize, 100, 132] {
        for ice in 0..3u8 {
            let o = Opt { ice, ..Opt::default() };
            let a8 = alphabet8(o.ice_mode());
            let fillers = [a8[0], a8[1], a8[5]];
            let rows = framed_rows(&a8, &fillers, w, 1);
            n6 += rows.len();
            chunk_docs("ans", w as i32, rows, 25, o, true, "prefix.filler.suffix rows at a SAUCE width beyond 80", &mut docs);
        }
    }
    counts.insert("wide_sauce_framed_rows".into(), json!(n6));
    let jobs = docs.finish();
    (jobs, Value::Object(counts))
}

fn c15_alphabet(ext: &str) -> Vec<TCell> {
    let a = b'A' as u32;
    if ext == "asc" {
        return vec![t(Cell::new(32, 7, 0)), t(Cell::new(a, 7, 0)), t(Cell::new(0xDB, 7, 0)), t(Cell::new(b'z' as u32, 7, 0))];
    }
    if ext == "ata" {
        return vec![t(Cell::new(32, 7, 0)), t(Cell::new(a, 7, 0)), t(Cell::new(a, 7, 1)), t(Cell::new(b'z' as u32, 7, 0)), t(Cell::new(32, 7, 1)), t(Cell::new(0x60, 7, 0))];
    }
    vec![
        t(Cell::new(32, 7, 0)),
        t(Cell::new(a, 7, 0)),
        t(Cell::new(a, 15, 0)),
        t(Cell::new(a, 7, 1)),
        t(Cell::new(0xDB, 4, 2)),
        t(Cell::new(32, 7, 1)),
        t(Cell::new(a, 14, 7)),
        t(Cell::new(b'z' as u32, 0, 3)),
    ]
}

fn lead_ins(ext: &str) -> Vec<u32> {
    match ext {
        "avt" => vec![0x16, 0x19, 0x0C],
        "pcb" => vec![b'@' as u32],
        "msg" => vec![1],
        "an1" => vec![b'|' as u32],
        // the statement's set: ESC and the cursor codes. The other control codes (clear 7d, delete 7e, tab 7f) are glyphs the writer escapes.
        "ata" => vec![0x1b, 0x1c, 0x1d, 0x1e, 0x1f],
        _ => vec![],
    }
}

fn build_c15(tier: &str) -> (Vec<Job>, Value) {
    let thorough = tier == "thorough";
    let mut docs = DocSink::new();
    let mut lazy: Vec<Job> = Vec::new();
    let mut counts = serde_json::Map::new();
    for ext in ["avt", "pcb", "msg", "an1", "asc", "ata"] {
        let w: i32 = if ext == "ata" { 40 } else { 80 };
        let alpha = c15_alphabet(ext);
        let mut n = 0;
        for prep in 0..3u8 {
            let o = Opt { bits: DEFAULT_BITS | 64, prep, ctrl: 0, ice: 0 };
            // framed rows: generated lazily per part (they are too many to keep in every worker)
            for part in 0..FRAMED_PARTS {
                lazy.push(Job::Framed { ext, prep, part, p: if thorough { 3 } else { 2 } });
            }
            n += {
                let k = 1 + (1..=(if thorough { 3 } else { 2 })).map(|d| alpha.len().pow(d)).sum::<usize>();
                k * k * 3
            };
            // every row length 0..=width, heights 1, 2, 25, 40 with a non-empty last row
            for h in [1usize, 2, 25, 40] {
                for len in 0..=w as usize {
                    let mut rows: Vec<Vec<TCell>> = (0..h).map(|y| std::iter::repeat(alpha[1 + (y + len) % (alpha.len() - 1)]).take(len).collect()).collect();
                    rows[h - 1] = vec![alpha[1]; 3.min(w as usize)];
                    if h > 2 && len % 7 != 0 {
                        continue;
                    }
                    n += h;
                    docs.push(TextDoc { ext, w, rows, opt: o, sauce: false, what: format!("rows of length {len}, height {h}") });
                }
            }
        }
        // every printable character
        let o = Opt { bits: DEFAULT_BITS | 64, prep: 0, ctrl: 0, ice: 0 };
        let leads = lead_ins(ext);
        let top = if ext == "ata" { 0x7f } else { 0xff };
        let chars: Vec<u32> = (0x20..=top).filter(|c| (*c != 0x7f || ext == "ata") && !leads.contains(c)).collect();
        let mut rows: Vec<Vec<TCell>> = Vec::new();
        for chunk in chars.chunks(w as usize / 2) {
            // every character twice in a row and once separated (repeat compression paths)
            let mut r = Vec::new();
            for c in chunk {
                r.push(t(Cell::new(*c, 7, 0)));
            }
            rows.push(r.clone());
            let mut r2 = Vec::new();
            for c in chunk {
                r2.push(t(Cell::new(*c, 7, 0)));
                r2.push(t(Cell::new(*c, 7, 0)));
            }
            rows.push(r2);
        }
        if ext == "ata" {
            // inverse video: every character inverse, and every character between an inverse and a normal neighbour in both video states
            for chunk in chars.chunks(w as usize / 4) {
                let mut r = Vec::new();
                let mut r2 = Vec::new();
                for c in chunk {
                    r.push(t(Cell::new(*c, 7, 1)));
                    r2.extend([t(Cell::new(b'A' as u32, 7, 1)), t(Cell::new(*c, 7, 0)), t(Cell::new(b'B' as u32, 7, 0)), t(Cell::new(*c, 7, 1))]);
                }
                rows.push(r);
                rows.push(r2);
            }
        }
        if matches!(ext, "msg" | "an1" | "asc" | "avt" | "pcb") {
            // documents that start like a UTF-8 byte order mark and are valid UTF-8 otherwise (the text loaders sniff one)
            let bom = vec![t(Cell::new(0xEF, 7, 0)), t(Cell::new(0xBB, 7, 0)), t(Cell::new(0xBF, 7, 0)), t(Cell::new(b'A' as u32, 7, 0))];
            let plain: Vec<TCell> = b"plain text".iter().map(|c| t(Cell::new(*c as u32, 7, 0))).collect();
            let two: Vec<TCell> = [0xC3u32, 0xA9, b'x' as u32].iter().map(|c| t(Cell::new(*c, 7, 0))).collect();
            n += 3;
            chunk_docs(ext, w, vec![bom.clone()], 1, o, false, "starts like a byte order mark", &mut docs);
            chunk_docs(ext, w, vec![bom.clone(), plain], 2, o, false, "starts like a byte order mark", &mut docs);
            chunk_docs(ext, w, vec![bom, two], 2, o, false, "starts like a byte order mark, then a valid two byte sequence", &mut docs);
        }
        n += rows.len();
        chunk_docs(ext, w, rows, 40, o, false, "every printable character", &mut docs);
        // runs: every alphabet cell in runs of 1..=10 at four placements; every printable character in runs of 3, 4, 5 and 26 (run length encodings)
        for prep in 0..3u8 {
            let o = Opt { bits: DEFAULT_BITS | 64, prep, ctrl: 0, ice: 0 };
            let mut rows: Vec<Vec<TCell>> = Vec::new();
            let wz = w as usize;
            for a in &alpha {
                for k in 1..=10usize {
                    let run: Vec<TCell> = std::iter::repeat(*a).take(k).collect();
                    rows.push([alpha[1]].into_iter().chain(run.iter().copied()).chain([alpha[1]]).collect());
                    rows.push(run.iter().copied().chain([alpha[1]]).collect());
                    rows.push(std::iter::repeat(alpha[1]).take(wz - k).chain(run.iter().copied()).collect());
                    rows.push(std::iter::repeat(alpha[1]).take(wz - 1 - k).chain(run.iter().copied()).chain([alpha[1]]).collect());
                }
            }
            if prep == 0 {
                for c in &chars {
                    let mut r: Vec<TCell> = Vec::new();
                    for k in [3usize, 4, 5, 26.min(wz - 14)] {
                        r.extend(std::iter::repeat(t(Cell::new(*c, 7, 0))).take(k));
                        r.push(alpha[1]);
                    }
                    rows.push(r);
                }
            }
            n += rows.len();
            chunk_docs(ext, w, rows, 25, o, false, "runs of cells and characters", &mut docs);
        }
        // every ordered pair of (fg 0..15, bg 0..7) attributes
        if !matches!(ext, "asc" | "ata") {
            let mut cells: Vec<TCell> = Vec::new();
            for a in 0..128u32 {
                for b in 0..128u32 {
                    cells.push(t(Cell::new(b'x' as u32, a % 16, a / 16)));
                    cells.push(t(Cell::new(b'y' as u32, b % 16, b / 16)));
                }
            }
            let rows: Vec<Vec<TCell>> = cells.chunks(w as usize).map(|c| c.to_vec()).collect();
            n += rows.len();
            chunk_docs(ext, w, rows, 40, o, false, "every ordered pair of (fg, bg) attributes", &mut docs);
        }
        counts.insert(ext.to_string(), json!(n));
    }
    let mut jobs: Vec<Job> = docs.finish();
    jobs.extend(lazy);
    (jobs, Value::Object(counts))
}

impl Engine for Text {
    fn total(&self) -> u64 {
        self.jobs.len() as u64
    }
    fn run(&mut self, idx: u64, ctx: &mut Ctx) {
        match &self.jobs[idx as usize] {
            Job::Docs(docs) => {
                for d in docs {
                    run_doc(d, &self.prop, ctx);
                }
            }
            Job::Framed { ext, prep, part, p } => {
                for d in framed_docs(ext, *prep, *part, *p) {
                    run_doc(&d, &self.prop, ctx);
                }
            }
            Job::NotMine => panic!("job {idx} belongs to another shard"),
        }
    }
    fn describe(&self, idx: u64) -> Value {
        match &self.jobs[idx as usize] {
            Job::Docs(docs) => json!({"engine": "text-roundtrip", "idx": idx, "documents": docs.len(), "first": doc_json(&docs[0], Some(0)), "key": format!("text:{}", docs[0].ext)}),
            Job::NotMine => json!({"engine": "text-roundtrip", "idx": idx, "key": "text"}),
            Job::Framed { ext, prep, part, p } => json!({"engine": "text-roundtrip", "idx": idx, "family": "prefix.filler.suffix rows", "format": ext, "screen_preparation": prep, "part": part, "of": FRAMED_PARTS, "prefix_suffix_max": p, "key": format!("text:{ext}")}),
        }
    }
    fn replay(&mut self, case: &Value, ctx: &mut Ctx) {
        self.run(case["idx"].as_u64().unwrap_or(0), ctx)
    }
    fn meta(&self) -> Value {
        json!({"property": self.prop, "batches": self.jobs.len(), "rows": self.meta})
    }
}

fn main() {
    worker_main(|prop, tier| {
        let (jobs, meta) = if prop == "C04" { build_c04(tier) } else { build_c15(tier) };
        Box::new(Text { prop: prop.to_string(), jobs, meta })
    });
}
