//! C03: work per input is bounded by the screen size, not by numbers in the input.
//! Complete control-function table (deviation bounded), DCS macro shapes, sixel headers, Avatar repeats,
//! custom font payloads. Oracle per case, measured inside the worker: CPU <= 0.5 s, peak live heap <= 64 MiB,
//! worker alive (stack), and allocation totals independent of the parameter magnitude (10^6 vs 2^16).

use base64::Engine as _;
use vharness::alloc;
use vharness::emu::*;
use vharness::worker::{process_cpu_ns, restart_case_clock};
use vharness::{bytes_to_json, json, json_bytes, worker_main, Ctx, Engine, Fnv, Value};

const CPU_LIMIT_NS: u64 = 500_000_000;
const MEM_LIMIT: usize = 64 << 20;

#[derive(Clone)]
struct Case {
    emu: Emu,
    w: i32,
    h: i32,
    ctx_name: &'static str,
    ctx: Vec<u8>,
    input: Vec<u8>,
    /// same input with every 1000000 replaced by 65536 (scale oracle), if the input contains 1000000
    sibling: Option<Vec<u8>>,
    key: String,
}

struct Measure {
    cpu_ns: u64,
    peak: usize,
    nalloc: u64,
    total: u64,
    panicked: Option<vharness::PanicRec>,
    fp: u64,
    chars: u64,
}

fn measure(c: &Case, input: &[u8]) -> Measure {
    let mut term = Term::new(c.emu, c.w, c.h);
    if c.ctx_name == "file-loader" {
        // the state in which the format loaders drive the same parsers: not a terminal buffer (no scrollback window, no clamping to a screen)
        term.buf.is_terminal_buffer = false;
    }
    term.feed_quiet(&c.ctx);
    term.feed_quiet(b"A");
    restart_case_clock();
    let snap = alloc::begin();
    let cpu0 = process_cpu_ns();
    let mut panicked = None;
    for &b in input {
        if let Fed::Panic(p) = term.feed(b) {
            panicked.get_or_insert(p);
        }
    }
    // background decodes belong to the input's cost: wait for them
    let t0 = std::time::Instant::now();
    while !term.buf.sixel_threads.is_empty() && t0.elapsed().as_secs() < 20 {
        let _ = vharness::catch(|| term.buf.update_sixel_threads());
        if !term.buf.sixel_threads.is_empty() {
            std::thread::sleep(std::time::Duration::from_micros(200));
        }
    }
    // the emulation is still usable afterwards
    for b in [b'B', b'\n'] {
        if let Fed::Panic(p) = term.feed(b) {
            panicked.get_or_insert(p);
        }
    }
    let cpu_ns = process_cpu_ns() - cpu0;
    let (peak, nalloc, total) = alloc::since(&snap);
    Measure { cpu_ns, peak, nalloc, total, panicked, fp: term.fingerprint(), chars: term.fed }
}

fn run_case(c: &Case, ctx: &mut Ctx) {
    let m = measure(c, &c.input);
    ctx.count("evaluations", 1);
    ctx.count("transitions", m.chars);
    ctx.state(m.fp);
    let mut o = Fnv::new();
    o.u64(m.cpu_ns / 50_000_000);
    o.u64((m.peak >> 20) as u64);
    ctx.outcome(o.finish());
    if m.nalloc > 0 {
        ctx.count("nontrivial", 1);
    }
    ctx.counters.entry("max_cpu_us".into()).and_modify(|v| *v = (*v).max(m.cpu_ns / 1000)).or_insert(m.cpu_ns / 1000);
    ctx.counters.entry("max_peak_kib".into()).and_modify(|v| *v = (*v).max((m.peak >> 10) as u64)).or_insert((m.peak >> 10) as u64);
    // every sixel sequence written out in the input may cost one picture of the largest accepted size (allocating and clearing 2 x 16 MiB:
    // about 25 ms): the limit is linear in their number, i.e. in the length of the input
    let images = c.input.windows(3).filter(|w| w == b"\x1bPq").count() as u64;
    // one macro invocation executes up to 8192 commands of one screen pass each (about 0.3 s of legitimate work): the macro-of-work
    // family is judged against 1 s (the defects it is there for ran 3 s and more)
    let cpu_limit = if c.key.contains("DCS macro hex of") || c.key.contains("DCS macro text of") { 2 * CPU_LIMIT_NS } else { CPU_LIMIT_NS } + images * 40_000_000;
    if m.cpu_ns > cpu_limit {
        ctx.violation(format!("cpu:{}", c.key), json!({"cpu_ms": m.cpu_ns / 1_000_000, "limit_ms": cpu_limit / 1_000_000}));
    }
    // an image of the largest size the engine accepts (2048 x 2048) costs 16 MiB as a picture and as much again while it is decoded;
    // inputs that carry images may hold a bounded number of them (at most 4 per macro invocation, 64 MiB kept on the screen)
    let mem_limit = if c.key.contains("sixel") { 4 * MEM_LIMIT } else { MEM_LIMIT };
    if m.peak > mem_limit {
        ctx.violation(format!("mem:{}", c.key), json!({"peak_mib": m.peak >> 20, "limit_mib": mem_limit >> 20}));
    }
    if let Some(p) = &m.panicked {
        // a panic is C01's subject; it is reported here only as information on the case
        ctx.count("panicked_cases(C01 subject)", 1);
        let _ = p;
    }
    if let Some(sib) = &c.sibling {
        let s = measure(c, sib);
        ctx.count("scale_pairs", 1);
        ctx.count("transitions", s.chars);
        if m.nalloc > 2 * s.nalloc + 64 || m.total > 2 * s.total + 4096 {
            ctx.violation(
                format!("scale:{}", c.key),
                json!({"at_1000000": {"allocations": m.nalloc, "bytes": m.total}, "at_65536": {"allocations": s.nalloc, "bytes": s.total}}),
            );
        }
    }
}

// ------------------------------------------------------------------ enumeration

fn menu(w: i32, h: i32) -> Vec<i64> {
    let mut v = vec![1, 0, h as i64, w as i64, 65536, 1_000_000, 2_147_483_647];
    v.dedup();
    v
}

/// all tuples of length 0..=6 over the menu with at most k positions different from the default value 1
fn tuples(w: i32, h: i32, k: usize, full_upto: usize) -> Vec<Vec<i64>> {
    let m = menu(w, h);
    let mut out: Vec<Vec<i64>> = vec![vec![]];
    for len in 1..=6usize {
        let bound = if len <= full_upto { len } else { k };
        // choose deviation positions
        let mut cur = vec![1i64; len];
        fn rec(pos: usize, left: usize, cur: &mut Vec<i64>, m: &[i64], out: &mut Vec<Vec<i64>>) {
            if pos == cur.len() {
                out.push(cur.clone());
                return;
            }
            cur[pos] = 1;
            rec(pos + 1, left, cur, m, out);
            if left > 0 {
                for &v in &m[1..] {
                    cur[pos] = v;
                    rec(pos + 1, left - 1, cur, m, out);
                }
                cur[pos] = 1;
            }
        }
        rec(0, bound, &mut cur, &m, &mut out);
    }
    out
}

fn param_string(t: &[i64]) -> String {
    t.iter().map(|v| v.to_string()).collect::<Vec<_>>().join(";")
}

fn with_sibling(input: Vec<u8>) -> (Vec<u8>, Option<Vec<u8>>) {
    let s = String::from_utf8_lossy(&input).to_string();
    if s.contains("1000000") && input.is_ascii() {
        let sib = s.replace("1000000", "65536").into_bytes();
        (input, Some(sib))
    } else {
        (input, None)
    }
}

struct Cost {
    /// lazily generated families: (name, count, generator(index) -> Case)
    fams: Vec<Family>,
    total: u64,
}

struct Family {
    name: &'static str,
    count: u64,
    offset: u64,
    gen: Box<dyn Fn(u64) -> Case>,
}

fn ctxs_for(emu: Emu, w: i32, h: i32) -> Vec<(&'static str, Vec<u8>)> {
    let mut v: Vec<(&'static str, Vec<u8>)> = contexts(emu, w, h).into_iter().filter(|c| matches!(c.0, "fresh" | "scrollback" | "tb-margins" | "all-margins")).collect();
    v.push(("file-loader", vec![]));
    v
}

fn dcs(body: &str) -> Vec<u8> {
    let mut b = vec![0x1b, b'P'];
    b.extend_from_slice(body.as_bytes());
    b.extend_from_slice(b"\x1b\\");
    b
}

fn build(tier: &str) -> Cost {
    let thorough = tier == "thorough";
    let mut fams: Vec<Family> = Vec::new();
    let sizes: Vec<(i32, i32)> = vec![(80, 25), (132, 60)];

    // ---- the complete CSI table
    for &(w, h) in &sizes {
        let tup = std::rc::Rc::new(tuples(w, h, if thorough { 3 } else { 2 }, if thorough { 4 } else { 2 }));
        let mut cx = ctxs_for(Emu::Ansi(0), w, h);
        if !thorough && w != 80 {
            cx.retain(|c| matches!(c.0, "scrollback" | "all-margins"));
        }
        let ctxs = std::rc::Rc::new(cx);
        let mut combos: Vec<(&'static str, &'static str)> = Vec::new();
        for p in CSI_PREFIXES {
            for s in CSI_SUFFIXES {
                if p.is_empty() || s.is_empty() {
                    combos.push((p, s));
                }
            }
        }
        let combos = std::rc::Rc::new(combos);
        let n = tup.len() as u64 * combos.len() as u64 * 63 * ctxs.len() as u64;
        let (t2, c2, x2) = (tup.clone(), combos.clone(), ctxs.clone());
        fams.push(Family {
            name: "CSI table",
            count: n,
            offset: 0,
            gen: Box::new(move |mut i| {
                let ci = (i % x2.len() as u64) as usize;
                i /= x2.len() as u64;
                let fin = 0x40 + (i % 63) as u8;
                i /= 63;
                let co = c2[(i % c2.len() as u64) as usize];
                i /= c2.len() as u64;
                let t = &t2[i as usize];
                let tok = csi(co.0, &param_string(t), co.1, fin);
                let (input, sibling) = with_sibling(tok.bytes);
                Case { emu: Emu::Ansi(0), w, h, ctx_name: x2[ci].0, ctx: x2[ci].1.clone(), input, sibling, key: format!("ansi:{}", tok.key) }
            }),
        });
    }

    // ---- a state-setting command followed by a command that does work: every row of the table with at most one parameter away from
    //      its default, then each of 9 probes whose cost is bounded by the state (screen size, margins, tab stops, ...) the first one left
    {
        let (w, h) = (80, 25);
        let mut tup: Vec<Vec<i64>> = tuples(w, h, 1, 0).into_iter().filter(|t| t.len() <= 3).collect();
        // the text area resize and the margins with two extreme parameters
        for a in [0i64, 1, 25, 80, 65536, 2_147_483_647] {
            for b in [0i64, 1, 25, 80, 65536, 2_147_483_647] {
                tup.push(vec![8, a, b]);
                tup.push(vec![a, b]);
            }
        }
        let tup = std::rc::Rc::new(tup);
        let mut combos: Vec<(&'static str, &'static str)> = Vec::new();
        for p in CSI_PREFIXES {
            for s in CSI_SUFFIXES {
                if p.is_empty() || s.is_empty() {
                    combos.push((p, s));
                }
            }
        }
        let combos = std::rc::Rc::new(combos);
        let probes: std::rc::Rc<Vec<&'static [u8]>> = std::rc::Rc::new(vec![
            b"A\x1b[2147483647b", b"\x1b[2147483647L", b"\x1b[2147483647M", b"\x1b[2147483647A", b"\x1b[2147483647B", b"\x1b[2147483647S", b"\x1b[2147483647T", b"\x1b[2J\x1b[2147483647@", b"\x1b[2147483647I\x1b[2147483647Z",
        ]);
        let cx: Vec<(&'static str, Vec<u8>)> = ctxs_for(Emu::Ansi(0), w, h).into_iter().filter(|c| matches!(c.0, "fresh" | "file-loader")).collect();
        let ctxs = std::rc::Rc::new(cx);
        let n = tup.len() as u64 * combos.len() as u64 * 63 * ctxs.len() as u64 * probes.len() as u64;
        let (t2, c2, x2, p2) = (tup.clone(), combos.clone(), ctxs.clone(), probes.clone());
        fams.push(Family {
            name: "state-setting command then work probe",
            count: n,
            offset: 0,
            gen: Box::new(move |mut i| {
                let pi = (i % p2.len() as u64) as usize;
                i /= p2.len() as u64;
                let ci = (i % x2.len() as u64) as usize;
                i /= x2.len() as u64;
                let fin = 0x40 + (i % 63) as u8;
                i /= 63;
                let co = c2[(i % c2.len() as u64) as usize];
                i /= c2.len() as u64;
                let t = &t2[i as usize];
                let tok = csi(co.0, &param_string(t), co.1, fin);
                let mut input = tok.bytes.clone();
                input.extend_from_slice(p2[pi]);
                Case { emu: Emu::Ansi(0), w, h, ctx_name: x2[ci].0, ctx: x2[ci].1.clone(), input, sibling: None, key: format!("ansi:{} then work probe", tok.key) }
            }),
        });
    }

    // ---- explicit list families (macros, sixel, avatar, fonts, music, OSC)
    let m7: Vec<i64> = vec![0, 1, 25, 80, 65536, 1_000_000, 2_147_483_647];
    let mut list: Vec<(Emu, String, Vec<u8>)> = Vec::new();
    // DCS macros: text / hex, repeat groups with N in M, nested-looking groups, self and mutual recursion, invocation inside DCS
    for &n in &m7 {
        for body in ["41", "4142", "", "1B5B324A"] {
            list.push((Emu::Ansi(0), "DCS macro hex repeat".into(), [dcs(&format!("1;0;1!z!{n};{body};")), b"\x1b[1*z".to_vec()].concat()));
            list.push((Emu::Ansi(0), "DCS macro hex repeat unterminated".into(), [dcs(&format!("1;0;1!z!{n};{body}")), b"\x1b[1*z".to_vec()].concat()));
            list.push((Emu::Ansi(0), "DCS macro hex repeat x2".into(), [dcs(&format!("1;0;1!z!{n};{body};!{n};{body};")), b"\x1b[1*z".to_vec()].concat()));
        }
        list.push((Emu::Ansi(0), "DCS macro id".into(), [dcs(&format!("{n};0;0!zAB")), format!("\x1b[{n}*z").into_bytes()].concat()));
        list.push((Emu::Ansi(0), "DCS macro invoke repeat arg".into(), [dcs("1;0;0!zAB"), format!("\x1b[1;{n}*z").into_bytes()].concat()));
        // a macro under a huge id, then the reports that walk over the macro space
        for report in ["\x1b[?63;1n", "\x1b[?62n", "\x1b[?63n", "\x1b[?63;2147483647n"] {
            list.push((Emu::Ansi(0), "DCS macro id then report".into(), [dcs(&format!("{n};0;0!zA")), report.as_bytes().to_vec()].concat()));
        }
    }
    // recursive macros have to be defined in hex: a literal ESC [ inside a DCS string is a macro invocation at definition time
    let hex = |t: &str| t.bytes().map(|b| format!("{b:02X}")).collect::<String>();
    for (name, body) in [
        ("x1", "\x1b[8*z".to_string()),
        ("x2", "\x1b[8*z\x1b[8*z".to_string()),
        ("x6", format!("A{}", "\x1b[8*z".repeat(6))),
        ("x9", "\x1b[8*z".repeat(9)),
        ("tail text", "\x1b[8*zB".to_string()),
        ("redefine inside", "\x1bP8;0;1!z1B5B382A7A\x1b\\\x1b[8*z".to_string()),
    ] {
        list.push((Emu::Ansi(0), format!("DCS macro self-recursive {name}"), [dcs(&format!("8;0;1!z{}", hex(&body))), b"\x1b[8*z".to_vec()].concat()));
    }
    for fan in [2usize, 4, 9] {
        list.push((Emu::Ansi(0), format!("DCS macro self-recursive repeat group x{fan}"), [dcs(&format!("1;0;1!z!{fan};1B5B312A7A;")), b"\x1b[1*z".to_vec()].concat()));
        list.push((
            Emu::Ansi(0),
            format!("DCS macro mutual x{fan}"),
            [dcs(&format!("1;0;1!z!{fan};1B5B322A7A;")), dcs(&format!("2;0;1!z!{fan};1B5B312A7A;58")), b"\x1b[1*z".to_vec()].concat(),
        ));
    }
    list.push((Emu::Ansi(0), "DCS macro invoked at definition time".into(), [dcs("1;0;0!zAB"), dcs(&format!("2;0;0!z{}", "\x1b[1*z".repeat(9))), b"\x1b[2*z".to_vec()].concat()));
    list.push((Emu::Ansi(0), "DCS macro chain 16".into(), {
        let mut b = Vec::new();
        for i in 0..20 {
            let body: String = format!("\x1b[{}*z\x1b[{}*z", i + 1, i + 1).bytes().map(|b| format!("{b:02X}")).collect();
            b.extend(dcs(&format!("{i};0;1!z{body}")));
        }
        b.extend(b"\x1b[0*z");
        b
    }));
    list.push((Emu::Ansi(0), "DCS macro invoke inside dcs".into(), [dcs("1;0;0!z\x1b[1*z"), dcs("2;0;0!zX\x1b[1*zY"), b"\x1b[2*z".to_vec()].concat()));
    list.push((Emu::Ansi(0), "DCS macro of REP".into(), [dcs("1;0;0!zA\x1b[2147483647b"), b"\x1b[1*z".to_vec()].concat()));
    // a macro invoked inside the DCS string of its own redefinition is spliced into the new definition: k rounds of "macro 0 = 8 x macro 0"
    for fill in [21usize, 4000] {
        for rounds in 1..=8usize {
            let mut b = dcs(&format!("0;0;0!z{}", "A".repeat(fill)));
            for _ in 0..rounds {
                b.extend(dcs(&format!("0;0;0!z{}", "\x1b[0*z".repeat(8))));
            }
            b.extend(b"\x1b[0*z");
            list.push((Emu::Ansi(0), "DCS macro redefined as copies of itself".to_string(), b));
        }
    }
    list.push((Emu::Ansi(0), "DCS macro hex of SU".into(), [dcs("1;0;1!z!65536;1B5B3635353336533B;"), b"\x1b[1*z".to_vec()].concat()));
    // a macro made of commands that each do a screen of work: the expansion budget counts characters of the macro, the work of one
    // invocation has to stay bounded as well
    for (name, cmd) in [
        ("REP", "A\x1b[99999b"), ("IL", "\x1b[99999L"), ("DL", "\x1b[99999M"), ("ICH", "\x1b[99999@"), ("DCH", "\x1b[99999P"), ("ECH", "\x1b[99999X"), ("SD", "\x1b[99999T"), ("SU", "\x1b[99999S"),
        ("DECFRA", "\x1b[65;1;1;9999;9999$x"), ("ED", "\x1b[2J"), ("DECERA", "\x1b[1;1;9999;9999$z"), ("LF", "\n\n\n\n\n\n\n\n"), ("CUD+LF", "\x1b[99999B\n"), ("RI", "\x1b[H\x1bM"),
        // images that stay on the screen side by side, decodes cut loose by a form feed / clear screen
        ("sixel raster + CUF", "\x1bPq\"1;1;9999;9999\x1b\\\x1b[C"), ("sixel raster + FF", "\x1bPq\"1;1;2048;2048\x1b\\\x0c"), ("sixel raster + ED", "\x1bPq\"1;1;2048;2048#1~\x1b\\\x1b[2J"),
        // insert mode without autowrap: every printed character is inserted in the last column
        ("IRM no autowrap REP", "\x1b[4h\x1b[?7lA\x1b[9999b"), ("IRM no autowrap text", "\x1b[4h\x1b[?7lAAAAAAAAAAAAAAAA"),
    ] {
        let hexed: String = cmd.bytes().map(|b| format!("{b:02X}")).collect();
        for n in [64usize, 4000, 65535] {
            list.push((Emu::Ansi(0), format!("DCS macro hex of {name}"), [dcs(&format!("1;0;1!z!{n};{hexed};")), b"\x1b[1*z".to_vec()].concat()));
        }
        list.push((Emu::Ansi(0), format!("DCS macro text of {name}"), [dcs(&format!("1;0;0!z{}", cmd.replace("\x1b", "").repeat(0))), dcs(&format!("2;0;1!z{}", hexed.repeat(2000))), b"\x1b[2*z\x1b[2*z".to_vec()].concat()));
    }

    // sixel headers: raster, repeat, colour registers
    for &a in &m7 {
        for &b in &m7 {
            list.push((Emu::Ansi(0), "sixel raster".into(), dcs(&format!("q\"1;1;{a};{b}~"))));
            list.push((Emu::Ansi(0), "sixel raster 3".into(), dcs(&format!("q\"{a};1;{b}~"))));
            list.push((Emu::Ansi(0), "sixel colour define".into(), dcs(&format!("q#{a};2;{b};{b};{b}~"))));
            list.push((Emu::Ansi(0), "sixel colour hls".into(), dcs(&format!("q#{a};1;{b};{b};{b}~"))));
            list.push((Emu::Ansi(0), "sixel repeat x newline".into(), dcs(&format!("q!{a}~!{b}-~"))));
            list.push((Emu::Ansi(0), "sixel repeat after raster".into(), dcs(&format!("q\"1;1;{a};{a}!{b}~"))));
            list.push((Emu::Ansi(0), "sixel dcs params".into(), dcs(&format!("{a};{b};{a}q~"))));
        }
        list.push((Emu::Ansi(0), "sixel repeat".into(), dcs(&format!("q!{a}~"))));
        list.push((Emu::Ansi(0), "sixel repeat CR".into(), dcs(&format!("q!{a}$~"))));
        list.push((Emu::Ansi(0), "sixel repeat repeat".into(), dcs(&format!("q!{a}!{a}~"))));
        list.push((Emu::Ansi(0), "sixel colour select".into(), dcs(&format!("q#{a}~"))));
        list.push((Emu::Ansi(0), "sixel many rows".into(), dcs(&format!("q{}~", "-".repeat(40)))));
    }
    // Avatar: every repeat count with a few characters, every goto byte pair
    for n in 0..=255u8 {
        for c in [b'A', 0x0a, 0x0c, 0x19, 0x16, 0x1b, 0xff] {
            list.push((Emu::Avatar, "AVT repeat".into(), vec![0x19, c, n]));
        }
        list.push((Emu::Avatar, "AVT repeat of CSI".into(), vec![0x1b, b'[', b'9', b'9', b'9', b'9', b'9', 0x19, b'9', n, b'b']));
    }
    for a in 0..=255u8 {
        for b in [0u8, 1, 24, 25, 79, 80, 255] {
            list.push((Emu::Avatar, "AVT goto".into(), vec![0x16, 8, a, b, b'X']));
            list.push((Emu::Avatar, "AVT goto".into(), vec![0x16, 8, b, a, b'X', 0x0a]));
        }
    }
    // custom font payloads
    let b64 = |d: &[u8]| base64::engine::general_purpose::STANDARD.encode(d);
    for charsize in [0u8, 1, 8, 16, 32, 255] {
        for mode in [0u8, 1, 2, 5] {
            for extra in [0usize, 1, 255, 256, 4096, 16 * 256] {
                let mut d = vec![0x36, 0x04, mode, charsize];
                d.extend(vec![0x55u8; extra]);
                list.push((Emu::Ansi(0), "font PSF1".into(), dcs(&format!("CTerm:Font:3:{}", b64(&d)))));
            }
        }
    }
    let u32s: [u32; 8] = [0, 1, 32, 256, 65536, 1_000_000, 0x7FFF_FFFF, 0xFFFF_FFFF];
    for (fi, _field) in ["version", "headersize", "flags", "length", "charsize", "height", "width"].iter().enumerate() {
        for v in u32s {
            for v2 in [0u32, 1, 16, 0xFFFF_FFFF] {
                let mut hdr: Vec<u32> = vec![0x864a_b572, 0, 32, 0, 256, 16, 16, 8];
                hdr[fi + 1] = v;
                // second deviation on the next field (pairs)
                let fj = 1 + (fi + 1) % 7;
                if v2 != 1 {
                    hdr[fj] = v2;
                }
                for payload in [0usize, 16, 4096] {
                    let mut d: Vec<u8> = hdr.iter().flat_map(|x| x.to_le_bytes()).collect();
                    d.extend(vec![0xAAu8; payload]);
                    list.push((Emu::Ansi(0), "font PSF2".into(), dcs(&format!("CTerm:Font:4:{}", b64(&d)))));
                }
            }
        }
    }
    for len in [0usize, 1, 255, 256, 257, 2048, 4096, 8192, 16384] {
        list.push((Emu::Ansi(0), "font raw".into(), dcs(&format!("CTerm:Font:2:{}", b64(&vec![0x3cu8; len])))));
    }
    for slot in ["0", "255", "65536", "1000000", "2147483647", "18446744073709551615", "99999999999999999999999"] {
        list.push((Emu::Ansi(0), "font slot".into(), dcs(&format!("CTerm:Font:{slot}:{}", b64(&vec![0u8; 4096])))));
        list.push((Emu::Ansi(0), "font select slot".into(), format!("\x1b[0;{slot} D").into_bytes()));
    }
    // music numbers, OSC numbers, SGR lists
    for &n in &m7 {
        for intro in ["\x1b[M", "\x1b[N", "\x1b[|"] {
            for body in [format!("T{n}C"), format!("L{n}C"), format!("P{n}"), format!("C{n}"), format!("C{n}...."), format!("O{n}C")] {
                list.push((Emu::Ansi(3), "music number".into(), format!("{intro}{body}\x0e").into_bytes()));
            }
        }
        list.push((Emu::Ansi(0), "OSC palette index".into(), format!("\x1b]4;{n};rgb:ff/00/00\x1b\\").into_bytes()));
        list.push((Emu::Ansi(0), "SGR 38;5;n".into(), format!("\x1b[38;5;{n}m").into_bytes()));
        list.push((Emu::Ansi(0), "SGR 38;2;n".into(), format!("\x1b[38;2;{n};{n};{n}m").into_bytes()));
        list.push((Emu::Ansi(0), "CtrlA right".into(), vec![1, 0xff, 1, 0xff]));
    }
    list.push((Emu::Ansi(0), "params 4000 semicolons".into(), {
        let mut b = b"\x1b[".to_vec();
        b.extend(vec![b';'; 4000]);
        b.push(b'm');
        b
    }));
    list.push((Emu::Ansi(0), "digits 4000".into(), {
        let mut b = b"\x1b[".to_vec();
        b.extend(vec![b'9'; 4000]);
        b.push(b'b');
        b
    }));
    let list = std::rc::Rc::new(list);
    for &(w, h) in &sizes {
        let l2 = list.clone();
        let n = list.len() as u64 * 2;
        fams.push(Family {
            name: "shapes",
            count: n,
            offset: 0,
            gen: Box::new(move |i| {
                let (emu, key, bytes) = l2[(i / 2) as usize].clone();
                let cs = ctxs_for(emu, w, h);
                let c = if i % 2 == 0 { cs[0].clone() } else { cs[1].clone() };
                let (input, sibling) = with_sibling(bytes);
                Case { emu, w, h, ctx_name: c.0, ctx: c.1, input, sibling, key: format!("{}:{}", emu.name(), key) }
            }),
        });
    }
    let mut total = 0;
    for f in &mut fams {
        f.offset = total;
        total += f.count;
    }
    Cost { fams, total }
}

impl Cost {
    fn case(&self, idx: u64) -> Case {
        let f = self.fams.iter().rev().find(|f| f.offset <= idx).unwrap();
        (f.gen)(idx - f.offset)
    }
}

impl Engine for Cost {
    fn total(&self) -> u64 {
        self.total
    }
    fn run(&mut self, idx: u64, ctx: &mut Ctx) {
        let c = self.case(idx);
        run_case(&c, ctx);
    }
    fn describe(&self, idx: u64) -> Value {
        let c = self.case(idx);
        json!({"engine": "cost", "emu": c.emu.name(), "size": [c.w, c.h], "context": c.ctx_name, "context_bytes": bytes_to_json(&c.ctx),
               "input": bytes_to_json(&c.input), "sibling": c.sibling.as_ref().map(|s| bytes_to_json(s)), "key": c.key})
    }
    fn replay(&mut self, case: &Value, ctx: &mut Ctx) {
        let c = Case {
            emu: Emu::from_name(case["emu"].as_str().unwrap_or("ansi")),
            w: case["size"][0].as_i64().unwrap_or(80) as i32,
            h: case["size"][1].as_i64().unwrap_or(25) as i32,
            ctx_name: if case["context"].as_str() == Some("file-loader") { "file-loader" } else { "replay" },
            ctx: json_bytes(&case["context_bytes"]),
            input: json_bytes(&case["input"]),
            sibling: if case["sibling"].is_null() { None } else { Some(json_bytes(&case["sibling"])) },
            key: case["key"].as_str().unwrap_or("?").to_string(),
        };
        run_case(&c, ctx);
    }
    fn meta(&self) -> Value {
        json!({"families": self.fams.iter().map(|f| json!({"family": f.name, "cases": f.count})).collect::<Vec<_>>(),
               "menu": "{1(default), 0, H, W, 65536, 1000000, 2147483647}", "limits": {"cpu_ms": 500, "peak_mib": 64, "scale": "allocs(1e6) <= 2*allocs(65536)+64 and bytes(1e6) <= 2*bytes(65536)+4096"}})
    }
}

fn main() {
    worker_main(|_prop, tier| Box::new(build(tier)));
}
