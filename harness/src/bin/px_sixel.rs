//! C14: sixel images are complete rectangles (payload enumeration) and appear in arrival order whatever the
//! completion order of the background decodes and the placement of polls (schedule enumeration under the
//! cfg(icy_engine_verif) gate).

use icy_engine::{ansi, verif_hooks, Buffer, BufferParser, Caret, Position, Sixel};
use std::time::{Duration, Instant};
use vharness::{catch, json, worker_main, Ctx, Engine, Fnv, Value};

// ------------------------------------------------------------------ payloads

const PAYLOAD_TOKENS: [&str; 16] = [
    "?", "@", "~", "!2~", "!500@", "$", "-", "#1", "#2;2;50;0;0", "\"1;1;2;6", "\"1;1;3;13", "\"1;1;1;1", "\"1;1;3", "A", "!3A", "#300",
];

/// reference reading of a payload: where are pixels set, what raster was declared last before data
struct Model {
    max_x: i32,
    max_y: i32,
    any: bool,
    declared: Option<(i32, i32)>,
    /// "Pan;Pad;Ph: the horizontal extent only
    declared_width: Option<i32>,
    declared_before_data: bool,
    raster_count: u32,
}

fn model(tokens: &[&str]) -> Model {
    let mut m = Model { max_x: -1, max_y: -1, any: false, declared: None, declared_width: None, declared_before_data: true, raster_count: 0 };
    let (mut x, mut band) = (0i32, 0i32);
    let mut data_seen = false;
    for t in tokens {
        let b = t.as_bytes();
        match b[0] {
            b'$' => x = 0,
            b'-' => {
                x = 0;
                band += 1;
            }
            b'#' => {}
            b'"' => {
                let nums: Vec<i32> = t[1..].split(';').map(|s| s.parse().unwrap_or(0)).collect();
                m.raster_count += 1;
                if nums.len() == 4 {
                    m.declared = Some((nums[2], nums[3]));
                    m.declared_width = None;
                } else {
                    m.declared = None;
                    m.declared_width = if nums.len() == 3 { Some(nums[2]) } else { None };
                }
                if data_seen {
                    m.declared_before_data = false;
                }
            }
            _ => {
                let (rep, ch) = if b[0] == b'!' {
                    let digits: String = t[1..].chars().take_while(|c| c.is_ascii_digit()).collect();
                    (digits.parse::<i32>().unwrap_or(1), b[1 + digits.len()])
                } else {
                    (1, b[0])
                };
                let mask = ch - b'?';
                data_seen = true;
                for _ in 0..rep {
                    for i in 0..6 {
                        if mask & (1 << i) != 0 {
                            m.any = true;
                            m.max_x = m.max_x.max(x);
                            m.max_y = m.max_y.max(band * 6 + i);
                        }
                    }
                    x += 1;
                }
            }
        }
    }
    m
}

struct Payloads {
    depth: u32,
}

impl Payloads {
    fn total(&self) -> u64 {
        let n = PAYLOAD_TOKENS.len() as u64;
        (0..=self.depth).map(|d| n.pow(d)).sum()
    }
    fn decode(&self, mut idx: u64) -> Vec<&'static str> {
        let n = PAYLOAD_TOKENS.len() as u64;
        let mut d = 0;
        while idx >= n.pow(d) {
            idx -= n.pow(d);
            d += 1;
        }
        let mut v = vec![""; d as usize];
        for k in (0..d as usize).rev() {
            v[k] = PAYLOAD_TOKENS[(idx % n) as usize];
            idx /= n;
        }
        v
    }
}

fn run_payload(tokens: &[&str], ctx: &mut Ctx) {
    let payload: String = tokens.concat();
    ctx.count("evaluations", 1);
    ctx.count("transitions", payload.len() as u64);
    let r = catch(|| Sixel::parse_from(Position::new(0, 0), 1, 2, [0, 0, 0, 0], &payload));
    match r {
        Err(p) => ctx.panic(&p, json!({"payload": payload})),
        Ok(Err(_)) => {
            ctx.count("decode_errors", 1);
            ctx.outcome(1);
        }
        Ok(Ok(s)) => {
            let (w, h) = (s.get_width(), s.get_height());
            let mut f = Fnv::new();
            f.i32(w);
            f.i32(h);
            ctx.outcome(f.finish());
            f.bytes(&s.picture_data);
            ctx.state(f.finish());
            let m = model(tokens);
            if m.any {
                ctx.count("nontrivial", 1);
            }
            if w < 0 || h < 0 || s.picture_data.len() as i64 != w as i64 * h as i64 * 4 {
                let uneven = "rows-of-unequal-length";
                ctx.violation(format!("diff:sixel:data-len-ne-4wh:{uneven}"), json!({"payload": payload, "width": w, "height": h, "len": s.picture_data.len()}));
                return;
            }
            // consistent with a declared raster: one declaration before any data, all set pixels inside it -> exactly that size
            if let Some((dw, dh)) = m.declared {
                if m.raster_count == 1 && m.declared_before_data && m.max_x < dw && m.max_y < dh && (w, h) != (dw, dh) {
                    ctx.violation("diff:sixel:declared-raster-not-kept", json!({"payload": payload, "declared": [dw, dh], "got": [w, h]}));
                }
            }
            // one declaration before the data: the image is the rectangle the data fills or the rectangle that was declared, not a mix
            // of the two (one axis clipped to the declaration, the other one not); a declaration of the width alone declares no height
            if m.any && m.raster_count == 1 && m.declared_before_data && m.max_x < 1000 && m.max_y < 1000 {
                let covers = m.max_x < w && m.max_y < h;
                let is_declared = m.declared == Some((w, h));
                let width_only_ok = m.declared_width.is_some() && m.max_y < h && (m.max_x < w || m.declared_width == Some(w));
                if !covers && !is_declared && !width_only_ok {
                    let kind = if m.declared_width.is_some() { "width-only-declaration" } else { "declaration-smaller-than-data" };
                    ctx.violation(format!("diff:sixel:neither-data-nor-declared-rectangle:{kind}"), json!({"payload": payload, "declared": m.declared, "declared_width": m.declared_width, "data_extent": [m.max_x + 1, m.max_y + 1], "got": [w, h]}));
                }
            }
            // without any raster declaration nothing clips: every pixel the data sets is inside the image
            // (images beyond 1000 px may legitimately be clipped by an implementation limit)
            if m.any && m.raster_count == 0 && m.max_x < 1000 && m.max_y < 1000 && (m.max_x >= w || m.max_y >= h) {
                ctx.violation("diff:sixel:set-pixel-outside-image", json!({"payload": payload, "max_x": m.max_x, "max_y": m.max_y, "got": [w, h]}));
            }
        }
    }
}

fn run_big_payload(payload: &str, ctx: &mut Ctx) {
    ctx.count("evaluations", 1);
    ctx.count("transitions", payload.len() as u64);
    ctx.count("nontrivial", 1);
    match catch(|| Sixel::parse_from(Position::new(0, 0), 1, 2, [0, 0, 0, 0], payload)) {
        Err(p) => ctx.panic(&p, json!({"payload": payload.chars().take(80).collect::<String>()})),
        Ok(Err(_)) => ctx.outcome(1),
        Ok(Ok(s)) => {
            let (w, h) = (s.get_width(), s.get_height());
            let mut f = Fnv::new();
            f.i32(w);
            f.i32(h);
            ctx.outcome(f.finish());
            ctx.state(f.finish());
            if w < 0 || h < 0 || s.picture_data.len() as i64 != w as i64 * h as i64 * 4 {
                ctx.violation("diff:sixel:data-len-ne-4wh:large-image", json!({"payload": payload.chars().take(80).collect::<String>(), "payload_len": payload.len(), "width": w, "height": h, "len": s.picture_data.len()}));
            }
        }
    }
}

// ------------------------------------------------------------------ schedules

#[derive(Clone, Copy, Debug, PartialEq)]
enum Ev {
    Arrive(u8),
    Complete(u8),
    Poll,
    /// clear screen (CSI 2 J): the images on the screen are gone, the decodes that are still queued are stopped (their pictures are thrown
    /// away when they are collected) - images that arrive afterwards are not affected
    Clear,
}

/// schedules with clear screen events: k <= 2 images, at most one poll per gap, at most two clears anywhere
fn gen_clear_schedules(k: u8) -> Vec<Vec<Ev>> {
    fn rec(k: u8, arrived: u8, done: u32, last_poll: bool, clears: u8, cur: &mut Vec<Ev>, out: &mut Vec<Vec<Ev>>) {
        if arrived == k && done == (1u32 << k) - 1 && clears > 0 {
            out.push(cur.clone());
        }
        if !last_poll {
            cur.push(Ev::Poll);
            rec(k, arrived, done, true, clears, cur, out);
            cur.pop();
        }
        if clears < 2 {
            cur.push(Ev::Clear);
            rec(k, arrived, done, false, clears + 1, cur, out);
            cur.pop();
        }
        if arrived < k {
            cur.push(Ev::Arrive(arrived));
            rec(k, arrived + 1, done, false, clears, cur, out);
            cur.pop();
        }
        for i in 0..arrived {
            if done & (1 << i) == 0 {
                cur.push(Ev::Complete(i));
                rec(k, arrived, done | (1 << i), false, clears, cur, out);
                cur.pop();
            }
        }
    }
    let mut out = Vec::new();
    rec(k, 0, 0, false, 0, &mut Vec::new(), &mut out);
    out
}

/// sequential reference model of the decode queue and the screen
struct QueueModel {
    /// (arrival number, stopped by a clear screen)
    queue: std::collections::VecDeque<(usize, bool)>,
    shown: Vec<usize>,
}

impl QueueModel {
    fn collect(&mut self, completed: &[bool], assign: &[usize]) {
        while let Some(&(j, stopped)) = self.queue.front() {
            if !completed[j] {
                break;
            }
            self.queue.pop_front();
            if !stopped {
                let img = assign[j];
                self.shown.retain(|&old| !covers(img, old));
                self.shown.push(img);
            }
        }
    }
    fn clear(&mut self, completed: &[bool], assign: &[usize]) {
        self.shown.clear();
        for e in self.queue.iter_mut() {
            e.1 = true;
        }
        self.collect(completed, assign);
    }
}

/// (cell x, cell y, px width, px height)
/// image 2 covers image 0, image 1 covers image 3, image 4 covers all others (so it can replace several adjacent older images at once)
const IMAGES: [(i32, i32, i32, i32); 5] = [(0, 0, 8, 16), (5, 5, 8, 16), (0, 0, 16, 32), (5, 5, 4, 8), (0, 0, 64, 112)];

fn image_dcs(img: usize) -> Vec<u8> {
    let (cx, cy, w, h) = IMAGES[img];
    let mut s = format!("\x1b[{};{}H\x1bPq\"1;1;{};{}", cy + 1, cx + 1, w, h);
    let bands = (h + 5) / 6;
    for b in 0..bands {
        if b > 0 {
            s.push('-');
        }
        // the last band paints the rows up to the declared height only (a decoder may grow the picture for rows painted below it)
        let rows = (h - b * 6).min(6);
        let ch = (b'?' + ((1u8 << rows) - 1)) as char;
        s.push_str(&format!("!{w}{ch}"));
    }
    s.push_str("\x1b\\");
    s.into_bytes()
}

fn gen_schedules(k: u8, max_polls: u8) -> Vec<Vec<Ev>> {
    fn rec(k: u8, maxp: u8, arrived: u8, done: u32, polls_in_gap: u8, cur: &mut Vec<Ev>, out: &mut Vec<Vec<Ev>>) {
        if arrived == k && done == (1u32 << k) - 1 {
            // trailing gap polls were generated by the Poll branch below; finish
            out.push(cur.clone());
        }
        if polls_in_gap < maxp {
            cur.push(Ev::Poll);
            rec(k, maxp, arrived, done, polls_in_gap + 1, cur, out);
            cur.pop();
        }
        if arrived < k {
            cur.push(Ev::Arrive(arrived));
            rec(k, maxp, arrived + 1, done, 0, cur, out);
            cur.pop();
        }
        for i in 0..arrived {
            if done & (1 << i) == 0 {
                cur.push(Ev::Complete(i));
                rec(k, maxp, arrived, done | (1 << i), 0, cur, out);
                cur.pop();
            }
        }
    }
    let mut out = Vec::new();
    rec(k, max_polls, 0, 0, 0, &mut Vec::new(), &mut out);
    out
}

/// independent count of the same space: linear extensions of {a0<a1<..., ai<ci} times (max_polls+1)^(gaps)
fn count_schedules(k: u8, max_polls: u8) -> u64 {
    // dp over (arrived, done-set) counting event orders
    use std::collections::HashMap;
    fn orders(k: u8, arrived: u8, done: u32, memo: &mut HashMap<(u8, u32), u64>) -> u64 {
        if arrived == k && done == (1u32 << k) - 1 {
            return 1;
        }
        if let Some(v) = memo.get(&(arrived, done)) {
            return *v;
        }
        let mut n = 0;
        if arrived < k {
            n += orders(k, arrived + 1, done, memo);
        }
        for i in 0..arrived {
            if done & (1 << i) == 0 {
                n += orders(k, arrived, done | (1 << i), memo);
            }
        }
        memo.insert((arrived, done), n);
        n
    }
    let o = orders(k, 0, 0, &mut HashMap::new());
    // 2k events -> 2k+1 gaps, each with 0..=max_polls polls
    o * (max_polls as u64 + 1).pow(2 * k as u32 + 1)
}

fn perms(k: usize) -> Vec<Vec<usize>> {
    fn rec(k: usize, cur: &mut Vec<usize>, out: &mut Vec<Vec<usize>>) {
        if cur.len() == k {
            out.push(cur.clone());
            return;
        }
        for i in 0..IMAGES.len() {
            if !cur.contains(&i) {
                cur.push(i);
                rec(k, cur, out);
                cur.pop();
            }
        }
    }
    let mut out = Vec::new();
    rec(k, &mut Vec::new(), &mut out);
    out
}

fn covers(new: usize, old: usize) -> bool {
    // pixel rectangles: cell position * 8x16 font, size in pixels
    let (nx, ny, nw, nh) = IMAGES[new];
    let (ox, oy, ow, oh) = IMAGES[old];
    let (nx, ny, ox, oy) = (nx * 8, ny * 16, ox * 8, oy * 16);
    nx <= ox && ny <= oy && nx + nw >= ox + ow && ny + nh >= oy + oh
}

fn expected_after(assign: &[usize], m: usize) -> Vec<usize> {
    let mut shown: Vec<usize> = Vec::new();
    for &img in &assign[..m] {
        shown.retain(|&old| !covers(img, old));
        shown.push(img);
    }
    shown
}

fn identify(s: &Sixel) -> Option<usize> {
    IMAGES.iter().position(|&(x, y, w, h)| s.position == Position::new(x, y) && s.get_width() == w && s.get_height() == h)
}

fn ev_json(s: &[Ev]) -> Value {
    Value::Array(
        s.iter()
            .map(|e| match e {
                Ev::Arrive(i) => json!(format!("arrive({i})")),
                Ev::Complete(i) => json!(format!("complete({i})")),
                Ev::Poll => json!("poll"),
                Ev::Clear => json!("clear"),
            })
            .collect(),
    )
}

static POLL_STARTED_MS: std::sync::atomic::AtomicU64 = std::sync::atomic::AtomicU64::new(0);
static POLL_BLOCKED: std::sync::atomic::AtomicBool = std::sync::atomic::AtomicBool::new(false);

fn now_ms() -> u64 {
    std::time::SystemTime::now().duration_since(std::time::UNIX_EPOCH).unwrap().as_millis() as u64
}

static POLLER_TID: std::sync::atomic::AtomicI64 = std::sync::atomic::AtomicI64::new(0);
/// number of decodes that are still held at the gate when the current poll started
static HELD_AT_POLL_START: std::sync::atomic::AtomicU64 = std::sync::atomic::AtomicU64::new(0);

/// scheduler state of a thread of this process: 'R' running / runnable, 'S' sleeping (blocked in a wait), ...
fn thread_state(tid: i64) -> char {
    std::fs::read_to_string(format!("/proc/self/task/{tid}/stat")).ok().and_then(|s| s.rsplit(')').next().and_then(|r| r.trim().chars().next())).unwrap_or('?')
}

/// A poll that waits for a held decode would never return; this monitor releases every ticket once the polling thread has been
/// *sleeping* (blocked, not merely descheduled on a loaded machine) for 150 consecutive samples taken every 20 ms while a decode is still held,
/// so that the blocked poll comes back and can be reported (instead of losing the worker).
fn start_poll_monitor() {
    static ONCE: std::sync::Once = std::sync::Once::new();
    ONCE.call_once(|| {
        std::thread::spawn(|| {
            let mut sleeping = 0u32;
            loop {
                std::thread::sleep(Duration::from_millis(20));
                let t = POLL_STARTED_MS.load(std::sync::atomic::Ordering::SeqCst);
                if t == 0 {
                    sleeping = 0;
                    continue;
                }
                match thread_state(POLLER_TID.load(std::sync::atomic::Ordering::SeqCst)) {
                    'S' | 'D' => sleeping += 1,
                    _ => sleeping = 0,
                }
                // without a held decode a sleeping poll can only be waiting for the OS thread of a finished decode to exit: that ends by itself.
                // with a held decode, 3 s of uninterrupted sleep (150 samples) are taken as "waits for the held decode".
                if sleeping >= 150 && HELD_AT_POLL_START.load(std::sync::atomic::Ordering::SeqCst) > 0 {
                    POLL_BLOCKED.store(true, std::sync::atomic::Ordering::SeqCst);
                    for k in 0..16 {
                        verif_hooks::release(k);
                    }
                    sleeping = 0;
                }
            }
        });
    });
}

fn run_schedule(assign: &[usize], sched: &[Ev], ctx: &mut Ctx) {
    // The poll monitor releases every ticket when the polling thread has been asleep for 3 s while a decode is held. On a loaded machine that can also
    // happen while a poll joins a decode that has finished but whose OS thread has not exited yet; such a release invalidates the
    // schedule without being a violation (no held decode was delivered), so the schedule is run again.
    for attempt in 0..5 {
        if run_schedule_once(assign, sched, ctx, attempt == 4) {
            return;
        }
        ctx.count("schedules_rerun_after_a_spurious_monitor_release", 1);
    }
}

/// returns false if the run was invalidated by a spurious monitor release (and `last` is false)
fn run_schedule_once(assign: &[usize], sched: &[Ev], ctx: &mut Ctx, last: bool) -> bool {
    start_poll_monitor();
    POLL_BLOCKED.store(false, std::sync::atomic::Ordering::SeqCst);
    verif_hooks::enable(true);
    let mut buf = Buffer::new((80, 25));
    buf.is_terminal_buffer = true;
    let mut caret = Caret::default();
    let mut parser = ansi::Parser::default();
    let k = assign.len();
    let mut arrived = 0usize;
    let mut completed = vec![false; k];
    let mut outcome = Fnv::new();
    let mut transitions = 0u64;
    let mut bad: Option<(String, Value)> = None;
    let mut spurious = false;

    let mut model = QueueModel { queue: Default::default(), shown: Vec::new() };
    let mut events: Vec<Ev> = sched.to_vec();
    events.push(Ev::Poll);
    events.push(Ev::Poll);
    let n_events = events.len();
    for (step, ev) in events.iter().enumerate() {
        transitions += 1;
        match *ev {
            Ev::Arrive(i) => {
                let before = buf.sixel_threads.len();
                for b in image_dcs(assign[i as usize]) {
                    let _ = parser.print_char(&mut buf, 0, &mut caret, b as char);
                }
                arrived += 1;
                model.queue.push_back((i as usize, false));
                if buf.sixel_threads.len() != before + 1 {
                    bad = Some(("diff:sixel-sched:arrival-not-queued".into(), json!({"step": step, "queue_len": buf.sixel_threads.len()})));
                    break;
                }
            }
            Ev::Complete(i) => {
                verif_hooks::release(i as usize);
                completed[i as usize] = true;
                // wait until the decode thread really finished: it is at queue index i - popped
                let t0 = Instant::now();
                loop {
                    let popped = arrived - buf.sixel_threads.len();
                    let idx = model.queue.iter().position(|e| e.0 == i as usize);
                    match idx.and_then(|x| buf.sixel_threads.get(x)) {
                        Some(h) => {
                            if h.is_finished() {
                                break;
                            }
                        }
                        None => {
                            bad = Some(("diff:sixel-sched:handle-missing".into(), json!({"step": step, "image": i, "popped": popped})));
                            break;
                        }
                    }
                    if t0.elapsed() > Duration::from_secs(120) {
                        bad = Some(("diff:sixel-sched:decode-did-not-finish".into(), json!({"step": step, "image": i})));
                        break;
                    }
                    std::thread::yield_now();
                }
                if bad.is_some() {
                    break;
                }
            }
            Ev::Poll => {
                let t0 = Instant::now();
                let held_before: Vec<usize> = (0..arrived).filter(|&j| !completed[j]).map(|j| assign[j]).collect();
                HELD_AT_POLL_START.store(held_before.len() as u64, std::sync::atomic::Ordering::SeqCst);
                POLLER_TID.store(unsafe { libc::gettid() } as i64, std::sync::atomic::Ordering::SeqCst);
                POLL_STARTED_MS.store(now_ms(), std::sync::atomic::Ordering::SeqCst);
                let shown_before: Vec<Option<usize>> = buf.layers[0].sixels.iter().map(identify).collect();
                let r = catch(|| buf.update_sixel_threads());
                POLL_STARTED_MS.store(0, std::sync::atomic::Ordering::SeqCst);
                let reported = match &r {
                    Ok(Ok(flag)) => Some(*flag),
                    _ => None,
                };
                let dt = t0.elapsed();
                if let Err(p) = r {
                    ctx.panic(&p, json!({"step": step}));
                }
                if POLL_BLOCKED.load(std::sync::atomic::Ordering::SeqCst) {
                    // blocked on a decode that was still held: the poll came back with that image after the monitor released it
                    let delivered_held = buf.layers[0].sixels.iter().filter_map(identify).any(|img| held_before.contains(&img));
                    if delivered_held || last {
                        bad = Some(("diff:sixel-sched:poll-blocked".into(), json!({"step": step, "ms": dt.as_millis() as u64, "held_decodes_at_poll_start(images)": held_before, "delivered_a_held_decode": delivered_held})));
                    } else {
                        spurious = true;
                    }
                    break;
                }
                let m = (0..arrived).take_while(|&j| completed[j]).count();
                model.collect(&completed, assign);
                let want = model.shown.clone();
                let got: Vec<Option<usize>> = buf.layers[0].sixels.iter().map(identify).collect();
                let want_o: Vec<Option<usize>> = want.iter().map(|x| Some(*x)).collect();
                for s in &buf.layers[0].sixels {
                    if s.picture_data.len() as i64 != s.get_width() as i64 * s.get_height() as i64 * 4 {
                        bad = Some(("diff:sixel-sched:image-not-rectangular".into(), json!({"step": step})));
                    }
                }
                outcome.u64(got.len() as u64);
                for g in &got {
                    outcome.u64(g.map(|x| x as u64 + 1).unwrap_or(0));
                }
                if got != shown_before && reported == Some(false) {
                    // the poll put an image on the screen and said that nothing changed: a caller that redraws on "updated" does not show it
                    bad = Some(("diff:sixel-sched:poll-delivered-but-reported-no-update".into(), json!({"step": step, "shown_before": shown_before, "shown_after": got})));
                    break;
                }
                if got != want_o {
                    let class = if got.len() < want_o.len() {
                        "image-missing"
                    } else if got.len() > want_o.len() {
                        "image-extra-or-early"
                    } else {
                        "wrong-order"
                    };
                    bad = Some((format!("diff:sixel-sched:{class}"), json!({"step": step, "got": got, "want": want, "all_arrived_complete_prefix": m, "final_poll": step + 2 >= n_events})));
                    break;
                }
                if buf.sixel_threads.len() != model.queue.len() {
                    bad = Some(("diff:sixel-sched:queue-length".into(), json!({"step": step, "queue": buf.sixel_threads.len(), "want": model.queue.len()})));
                    break;
                }
            }
            Ev::Clear => {
                // clear screen; the cursor position of the next image is set by its own sequence
                for b in b"\x1b[2J" {
                    let _ = parser.print_char(&mut buf, 0, &mut caret, *b as char);
                }
                model.clear(&completed, assign);
                let got: Vec<Option<usize>> = buf.layers[0].sixels.iter().map(identify).collect();
                outcome.u64(0xC1EA);
                if !got.is_empty() {
                    bad = Some(("diff:sixel-sched:image-survives-clear-screen".into(), json!({"step": step, "got": got})));
                    break;
                }
                if buf.sixel_threads.len() != model.queue.len() {
                    bad = Some(("diff:sixel-sched:queue-length-after-clear".into(), json!({"step": step, "queue": buf.sixel_threads.len(), "want": model.queue.len()})));
                    break;
                }
            }
        }
    }
    // never leave a decode thread waiting
    for t in 0..k {
        verif_hooks::release(t);
    }
    verif_hooks::enable(false);
    while let Some(h) = buf.sixel_threads.pop_front() {
        let _ = h.join();
    }
    if spurious {
        return false;
    }
    ctx.count("evaluations", 1);
    ctx.count("transitions", transitions);
    ctx.count("nontrivial", 1);
    ctx.outcome(outcome.finish());
    let mut f = Fnv::new();
    f.u64(outcome.finish());
    for a in assign {
        f.u8(*a as u8);
    }
    ctx.state(f.finish());
    if let Some((sig, obs)) = bad {
        ctx.violation(sig, obs);
    }
    true
}

// ------------------------------------------------------------------ engine

/// payloads whose size is far beyond the token alphabet: many bands, long repeats, with and without raster attributes
fn big_payloads() -> Vec<String> {
    let mut v = Vec::new();
    for bands in [1usize, 2, 100, 340, 341, 342, 343, 500, 1000] {
        for width in [1usize, 3, 2047, 2048, 2049, 3000] {
            for raster in ["", "\"1;1;4;7", "\"1;1;5000;5000", "\"1;1;3"] {
                let mut p = String::from(raster);
                p.push_str(&"-".repeat(bands - 1));
                p.push_str(&format!("!{width}~"));
                v.push(p.clone());
                // a second, shorter row after the long one and a longer row after a short one
                v.push(format!("{raster}~-{}!{width}@", "-".repeat(bands - 1)));
            }
        }
    }
    v
}

/// the same images in a file: the loader turns them into image layers, bottom to top in arrival order (a newer image that covers older ones replaces them)
fn run_file(assign: &[usize], ctx: &mut Ctx) {
    ctx.count("evaluations", 1);
    ctx.count("nontrivial", 1);
    let mut bytes = b"text before\r\n".to_vec();
    for a in assign {
        bytes.extend(image_dcs(*a));
    }
    bytes.extend(b"\x1b[20;1Htext after\r\n");
    ctx.count("transitions", bytes.len() as u64);
    let r = catch(|| Buffer::from_bytes(std::path::Path::new("x.ans"), false, &bytes));
    let buf = match r {
        Err(p) => {
            ctx.panic(&p, json!({"images_in_arrival_order": assign}));
            return;
        }
        Ok(Err(e)) => {
            ctx.violation("diff:sixel-file:load-refused", json!({"images_in_arrival_order": assign, "error": e.to_string()}));
            return;
        }
        Ok(Ok(b)) => b,
    };
    let want = expected_after(assign, assign.len());
    // an image layer holds its picture at (0,0), the layer offset is the cell position
    let got: Vec<Option<usize>> = buf
        .layers
        .iter()
        .filter(|l| !l.sixels.is_empty())
        .map(|l| {
            let s = &l.sixels[0];
            let p = l.get_offset() + s.position;
            IMAGES.iter().position(|&(x, y, w, h)| p == Position::new(x, y) && s.get_width() == w && s.get_height() == h)
        })
        .collect();
    let mut f = Fnv::new();
    for g in &got {
        f.u64(g.map(|x| x as u64 + 1).unwrap_or(0));
    }
    ctx.state(f.finish());
    ctx.outcome(f.finish());
    let want_o: Vec<Option<usize>> = want.iter().map(|x| Some(*x)).collect();
    if got != want_o {
        let class = if got.len() != want_o.len() { "image-count" } else { "stacking-order" };
        ctx.violation(format!("diff:sixel-file:{class}"), json!({"images_in_arrival_order": assign, "image_layers_bottom_to_top": got, "want": want}));
    }
}

struct C14 {
    files: Vec<Vec<usize>>,
    payloads: Payloads,
    n_payload_batches: u64,
    scheds: Vec<(Vec<usize>, Vec<Ev>)>,
    big: Vec<String>,
    meta: Value,
}

const BATCH: u64 = 512;

fn build(tier: &str) -> C14 {
    let thorough = tier == "thorough";
    let payloads = Payloads { depth: if thorough { 6 } else { 5 } };
    let n_payload_batches = (payloads.total() + BATCH - 1) / BATCH;
    let mut scheds = Vec::new();
    let mut space = Vec::new();
    let plan: Vec<(u8, u8, bool)> = if thorough {
        // (k = 4 with two polls per gap is 2 million schedules per image assignment: it does not fit into the memory of 16 workers as a list)
        vec![(1, 2, true), (2, 2, true), (3, 2, true), (4, 1, true)]
    } else {
        vec![(1, 2, true), (2, 2, true), (3, 1, true), (4, 1, false)]
    };
    for (k, polls, all_perms) in plan {
        let s = gen_schedules(k, polls);
        let want = count_schedules(k, polls);
        assert_eq!(s.len() as u64, want, "schedule enumeration disagrees with the independent count for k={k}");
        let assigns: Vec<Vec<usize>> = if all_perms {
            perms(k as usize)
        } else {
            vec![vec![0, 1, 2, 3], vec![2, 0, 3, 1], vec![0, 1, 4, 3], vec![0, 3, 1, 4], vec![4, 0, 1, 2], vec![3, 0, 4, 1]].into_iter().map(|v| v[..k as usize].to_vec()).collect()
        };
        space.push(json!({"k": k, "max_polls_per_gap": polls, "schedules": s.len(), "independent_count": want, "image_assignments": assigns.len()}));
        for a in &assigns {
            for sc in &s {
                scheds.push((a.clone(), sc.clone()));
            }
        }
    }
    // schedules with clear screen events
    let mut clear_count = 0;
    for k in 1..=2u8 {
        let s = gen_clear_schedules(k);
        clear_count += s.len();
        let assigns: Vec<Vec<usize>> = if k == 1 { vec![vec![0]] } else { vec![vec![0, 1], vec![0, 2], vec![2, 0]] };
        for a in &assigns {
            for sc in &s {
                scheds.push((a.clone(), sc.clone()));
            }
        }
    }
    space.push(json!({"k": "1..=2 with <= 2 clear screen events, <= 1 poll per gap", "schedules": clear_count}));
    let meta = json!({"payload_alphabet": PAYLOAD_TOKENS, "payload_depth": payloads.depth, "payloads": payloads.total(), "schedule_space": space,
                      "images(cell x, cell y, px w, px h)": IMAGES.to_vec().iter().map(|i| json!([i.0, i.1, i.2, i.3])).collect::<Vec<_>>()});
    let mut files: Vec<Vec<usize>> = Vec::new();
    for k in 1..=4 {
        files.extend(perms(k));
    }
    for extra in [vec![0, 1, 4, 3], vec![4, 0, 1, 2], vec![3, 0, 4, 1], vec![0, 3, 1, 4]] {
        files.push(extra);
    }
    C14 { files, payloads, n_payload_batches, scheds, big: big_payloads(), meta }
}

impl Engine for C14 {
    fn total(&self) -> u64 {
        // schedules first (they are the slow ones and interleave well across shards), then payload batches
        self.scheds.len() as u64 + self.n_payload_batches + self.big.len() as u64 + self.files.len() as u64
    }
    fn run(&mut self, idx: u64, ctx: &mut Ctx) {
        if (idx as usize) < self.scheds.len() {
            let (a, s) = self.scheds[idx as usize].clone();
            run_schedule(&a, &s, ctx);
        } else if idx < self.scheds.len() as u64 + self.n_payload_batches {
            let b = idx - self.scheds.len() as u64;
            let end = ((b + 1) * BATCH).min(self.payloads.total());
            for p in b * BATCH..end {
                let toks = self.payloads.decode(p);
                run_payload(&toks, ctx);
            }
        } else if idx < self.scheds.len() as u64 + self.n_payload_batches + self.big.len() as u64 {
            let p = self.big[(idx - self.scheds.len() as u64 - self.n_payload_batches) as usize].clone();
            run_big_payload(&p, ctx);
        } else {
            let a = self.files[(idx - self.scheds.len() as u64 - self.n_payload_batches - self.big.len() as u64) as usize].clone();
            run_file(&a, ctx);
        }
    }
    fn describe(&self, idx: u64) -> Value {
        if (idx as usize) < self.scheds.len() {
            let (a, s) = &self.scheds[idx as usize];
            json!({"engine": "sixel-schedule", "images_in_arrival_order": a, "events": ev_json(s), "then": "poll poll", "key": format!("sixel-sched:k={}", a.len())})
        } else if idx >= self.scheds.len() as u64 + self.n_payload_batches + self.big.len() as u64 {
            let a = &self.files[(idx - self.scheds.len() as u64 - self.n_payload_batches - self.big.len() as u64) as usize];
            json!({"engine": "sixel-file", "images_in_arrival_order_file": a, "key": "sixel-file"})
        } else if idx >= self.scheds.len() as u64 + self.n_payload_batches {
            let p = &self.big[(idx - self.scheds.len() as u64 - self.n_payload_batches) as usize];
            json!({"engine": "sixel-big-payload", "payload": p, "key": "sixel-big-payload"})
        } else {
            let b = idx - self.scheds.len() as u64;
            json!({"engine": "sixel-payload-batch", "first": b * BATCH, "count": BATCH, "first_payload": self.payloads.decode(b * BATCH).concat(), "depth": self.payloads.depth, "key": "sixel-payload"})
        }
    }
    fn replay(&mut self, case: &Value, ctx: &mut Ctx) {
        if case["engine"] == "sixel-schedule" {
            let a: Vec<usize> = case["images_in_arrival_order"].as_array().unwrap().iter().map(|v| v.as_u64().unwrap() as usize).collect();
            let s: Vec<Ev> = case["events"]
                .as_array()
                .unwrap()
                .iter()
                .map(|v| {
                    let t = v.as_str().unwrap();
                    if t == "poll" {
                        Ev::Poll
                    } else if t == "clear" {
                        Ev::Clear
                    } else {
                        let n: u8 = t[t.find('(').unwrap() + 1..t.len() - 1].parse().unwrap();
                        if t.starts_with("arrive") {
                            Ev::Arrive(n)
                        } else {
                            Ev::Complete(n)
                        }
                    }
                })
                .collect();
            run_schedule(&a, &s, ctx);
        } else if case["engine"] == "sixel-file" {
            let a: Vec<usize> = case["images_in_arrival_order_file"].as_array().unwrap().iter().map(|v| v.as_u64().unwrap() as usize).collect();
            run_file(&a, ctx);
        } else if case["engine"] == "sixel-big-payload" {
            run_big_payload(case["payload"].as_str().unwrap_or(""), ctx);
        } else if let Some(p) = case.get("payload_tokens") {
            let toks: Vec<String> = p.as_array().unwrap().iter().map(|v| v.as_str().unwrap().to_string()).collect();
            let r: Vec<&str> = toks.iter().map(|s| s.as_str()).collect();
            run_payload(&r, ctx);
        } else {
            let first = case["first"].as_u64().unwrap_or(0);
            let depth = case["depth"].as_u64().unwrap_or(5) as u32;
            let pl = Payloads { depth };
            for p in first..(first + BATCH).min(pl.total()) {
                run_payload(&pl.decode(p), ctx);
            }
        }
    }
    fn meta(&self) -> Value {
        self.meta.clone()
    }
}

fn main() {
    worker_main(|_prop, tier| Box::new(build(tier)));
}
