//! C13 (layer compositing obeys the stacking laws) and C12 (colour-optimised saving never changes the rendered picture).

use icy_engine::{AttributedChar, Buffer, ColorOptimizer, Layer, Mode, Position, Rectangle, SaveOptions, TextAttribute, TextPane};
use vharness::doc::*;
use vharness::{catch, json, worker_main, Ctx, Engine, Fnv, Value};

// ------------------------------------------------------------------ C13

const TRANSPARENT: u32 = 1 << 31;

#[derive(Clone, Copy, Debug, PartialEq)]
enum Kind {
    Invisible,
    A,       // 'a' 7 on 0
    B,       // 'b' 3 on 1
    TopHalf, // half block top, transparent background
    BotHalf, // half block bottom, transparent foreground
    Blank,   // visible space
    Zero,    // visible NUL with a background colour
    BoldBright, // full block, bright colour 12 with the bold flag, on 1
    BoldDark,   // full block, dark colour 4 with the bold flag (displayed as colour 12), on 2
}

fn kind_char(k: Kind) -> AttributedChar {
    match k {
        Kind::Invisible => AttributedChar::invisible(),
        Kind::A => AttributedChar::new('a', TextAttribute::new(7, 0)),
        Kind::B => AttributedChar::new('b', TextAttribute::new(3, 1)),
        Kind::TopHalf => AttributedChar::new(223 as char, TextAttribute::new(4, TRANSPARENT)),
        Kind::BotHalf => AttributedChar::new(220 as char, TextAttribute::new(TRANSPARENT, 2)),
        Kind::Blank => AttributedChar::new(' ', TextAttribute::new(7, 0)),
        Kind::Zero => AttributedChar::new('\0', TextAttribute::new(5, 6)),
        Kind::BoldBright | Kind::BoldDark => {
            let mut a = if k == Kind::BoldBright { TextAttribute::new(12, 1) } else { TextAttribute::new(4, 2) };
            a.set_is_bold(true);
            AttributedChar::new(219 as char, a)
        }
    }
}

#[derive(Clone, Debug)]
struct LayerSpec {
    w: i32,
    h: i32,
    ox: i32,
    oy: i32,
    mode: u8,
    alpha: bool,
    visible: bool,
    cells: Vec<(i32, i32, Kind)>,
    font_page: usize,
}

impl LayerSpec {
    fn build(&self) -> Layer {
        let mut l = Layer::new("l", (self.w, self.h));
        l.properties.mode = [Mode::Normal, Mode::Chars, Mode::Attributes][self.mode as usize];
        l.properties.has_alpha_channel = self.alpha;
        l.default_font_page = self.font_page;
        l.set_offset((self.ox, self.oy));
        for (x, y, k) in &self.cells {
            l.set_char((*x, *y), kind_char(*k));
        }
        // visibility last: set_char ignores hidden layers
        l.properties.is_visible = self.visible;
        l
    }
    fn json(&self) -> Value {
        json!({"size": [self.w, self.h], "offset": [self.ox, self.oy], "mode": (["normal", "chars", "attributes"][self.mode as usize]), "alpha": self.alpha, "visible": self.visible,
               "default_font_page": self.font_page, "cells": self.cells.iter().map(|(x, y, k)| json!([x, y, format!("{k:?}")])).collect::<Vec<_>>()})
    }
    fn has_transparent_colour(&self) -> bool {
        self.cells.iter().any(|c| matches!(c.2, Kind::TopHalf | Kind::BotHalf))
    }
}

fn contents(w: i32, h: i32, rich: bool) -> Vec<Vec<(i32, i32, Kind)>> {
    // (the bold kinds occur in a pair only: two more single-cell contents would square into the two layer stacks)
    let kinds = [Kind::A, Kind::B, Kind::TopHalf, Kind::BotHalf, Kind::Blank, Kind::Zero, Kind::Invisible];
    let mut v: Vec<Vec<(i32, i32, Kind)>> = vec![vec![]];
    for k in kinds {
        v.push(vec![(0, 0, k)]);
    }
    if w * h > 1 {
        let (lx, ly) = (w - 1, h - 1);
        let pairs: &[(Kind, Kind)] = if rich {
            &[(Kind::A, Kind::B), (Kind::TopHalf, Kind::A), (Kind::A, Kind::BotHalf), (Kind::Invisible, Kind::B), (Kind::Blank, Kind::TopHalf), (Kind::Zero, Kind::Zero), (Kind::BoldBright, Kind::BoldDark)]
        } else {
            &[(Kind::A, Kind::B), (Kind::TopHalf, Kind::BotHalf)]
        };
        for (a, b) in pairs {
            v.push(vec![(0, 0, *a), (lx, ly, *b)]);
        }
        if rich {
            // a full layer
            let mut all = Vec::new();
            for y in 0..h {
                for x in 0..w {
                    all.push((x, y, if (x + y) % 2 == 0 { Kind::A } else { Kind::B }));
                }
            }
            v.push(all);
        }
    }
    v
}

fn layer_menu(rich: bool) -> Vec<LayerSpec> {
    let sizes: &[(i32, i32)] = if rich { &[(1, 1), (2, 2), (3, 2)] } else { &[(2, 1), (2, 2)] };
    let offsets: &[(i32, i32)] = if rich { &[(0, 0), (-1, -1), (1, 0), (2, 1)] } else { &[(0, 0), (1, 0)] };
    let mut v = Vec::new();
    for &(w, h) in sizes {
        for &(ox, oy) in offsets {
            for mode in 0..3u8 {
                for alpha in [false, true] {
                    for visible in [true, false] {
                        if !rich && !visible && (mode != 0 || alpha) {
                            continue;
                        }
                        for cells in contents(w, h, rich) {
                            v.push(LayerSpec { w, h, ox, oy, mode, alpha, visible, cells, font_page: if rich && mode == 0 && !alpha { 1 } else if rich && mode == 1 { 2 } else { 0 } });
                        }
                    }
                }
            }
        }
    }
    v
}

struct Stack<'a> {
    layers: Vec<&'a LayerSpec>,
}

fn bbox(layers: &[&LayerSpec]) -> (i32, i32, i32, i32) {
    let mut x0 = 0;
    let mut y0 = 0;
    let mut x1 = 1;
    let mut y1 = 1;
    for l in layers {
        x0 = x0.min(l.ox);
        y0 = y0.min(l.oy);
        x1 = x1.max(l.ox + l.w);
        y1 = y1.max(l.oy + l.h);
    }
    (x0 - 2, y0 - 2, x1 + 2, y1 + 2)
}

#[derive(Clone, Copy, PartialEq, Debug)]
struct Obs {
    visible: bool,
    ch: u32,
    fg: u32,
    bg: u32,
    attr: u16,
    page: usize,
}

fn obs(c: AttributedChar) -> Obs {
    if !c.is_visible() {
        // invisible results compare as invisible only
        return Obs { visible: false, ch: 0, fg: 0, bg: 0, attr: 0, page: 0 };
    }
    Obs { visible: true, ch: c.ch as u32, fg: c.attribute.get_foreground(), bg: c.attribute.get_background(), attr: c.attribute.attr, page: c.attribute.get_font_page() }
}

fn sample(buf: &Buffer, b: (i32, i32, i32, i32), dx: i32, dy: i32) -> Vec<Obs> {
    let mut v = Vec::with_capacity(((b.2 - b.0) * (b.3 - b.1)) as usize);
    for y in b.1..b.3 {
        for x in b.0..b.2 {
            v.push(obs(buf.get_char((x + dx, y + dy))));
        }
    }
    v
}

fn set_layers(buf: &mut Buffer, layers: Vec<Layer>) {
    buf.layers = layers;
}

/// direct transcription of the statement for stacks of Normal layers without transparent colours
fn reference(layers: &[&LayerSpec], x: i32, y: i32) -> Obs {
    for l in layers.iter().rev() {
        if !l.visible {
            continue;
        }
        let (lx, ly) = (x - l.ox, y - l.oy);
        if lx < 0 || ly < 0 || lx >= l.w || ly >= l.h {
            continue;
        }
        let cell = l.cells.iter().rev().find(|c| c.0 == lx && c.1 == ly).map(|c| kind_char(c.2));
        if let Some(c) = cell {
            if c.is_visible() {
                return obs(c);
            }
        }
        if !l.alpha {
            let mut d = AttributedChar::new(' ', TextAttribute::new(7, 0));
            d.set_font_page(l.font_page);
            return obs(d);
        }
    }
    Obs { visible: false, ch: 0, fg: 0, bg: 0, attr: 0, page: 0 }
}

fn check_stack(buf: &mut Buffer, st: &Stack, ctx: &mut Ctx) {
    ctx.count("evaluations", 1);
    let specs = &st.layers;
    let b = bbox(specs);
    let built: Vec<Layer> = specs.iter().map(|l| l.build()).collect();
    set_layers(buf, built.clone());
    let base = match catch(|| sample(buf, b, 0, 0)) {
        Ok(v) => v,
        Err(p) => {
            ctx.panic(&p, json!({"stack": specs.iter().map(|l| l.json()).collect::<Vec<_>>()}));
            return;
        }
    };
    let mut f = Fnv::new();
    for o in &base {
        f.u32(o.ch);
        f.u32(o.fg);
        f.u32(o.bg);
        f.u8(o.visible as u8);
    }
    ctx.outcome(f.finish());
    ctx.state(f.finish());
    if base.iter().any(|o| o.visible) {
        ctx.count("nontrivial", 1);
    }
    let stack_json = || json!(specs.iter().map(|l| l.json()).collect::<Vec<_>>());
    let report = |ctx: &mut Ctx, law: &str, detail: Value, a: &[Obs], bb: &[Obs]| {
        let i = a.iter().zip(bb.iter()).position(|(x, y)| x != y).unwrap_or(0);
        let w = b.2 - b.0;
        let modes: Vec<u8> = specs.iter().map(|l| l.mode).collect();
        let cls = if modes.iter().all(|m| *m == 0) { "normal-layers-only" } else { "with-chars-or-attribute-layers" };
        ctx.violation(
            format!("diff:layers:{law}:{cls}"),
            json!({"stack(bottom first)": stack_json(), "law": detail, "position": [b.0 + i as i32 % w, b.1 + i as i32 / w], "before": format!("{:?}", a[i]), "after": format!("{:?}", bb[i])}),
        );
    };
    let n = specs.len();
    // L1: an empty alpha layer (of any mode) anywhere changes nothing
    for mode in [Mode::Normal, Mode::Chars, Mode::Attributes] {
        for at in 0..=n {
            let mut ls = built.clone();
            let mut e = Layer::new("empty", (4, 3));
            e.properties.has_alpha_channel = true;
            e.properties.mode = mode;
            e.default_font_page = 5;
            e.set_offset((-1, -1));
            ls.insert(at, e);
            set_layers(buf, ls);
            ctx.count("transitions", 1);
            let s = sample(buf, b, 0, 0);
            if s != base {
                report(ctx, "L1-empty-alpha-layer", json!({"inserted_at": at, "mode": format!("{mode:?}")}), &base, &s);
                return;
            }
        }
    }
    // L2: editing hidden layers changes nothing
    if specs.iter().any(|l| !l.visible) {
        let mut ls = built.clone();
        for (i, l) in ls.iter_mut().enumerate() {
            if !specs[i].visible {
                l.properties.is_visible = true;
                for y in 0..specs[i].h {
                    for x in 0..specs[i].w {
                        l.set_char((x, y), AttributedChar::new('H', TextAttribute::new(14, 5)));
                    }
                }
                l.properties.is_visible = false;
            }
        }
        set_layers(buf, ls);
        ctx.count("transitions", 1);
        let s = sample(buf, b, 0, 0);
        if s != base {
            report(ctx, "L2-hidden-layer-edit", json!({}), &base, &s);
            return;
        }
    }
    // L3: translating the whole stack translates the picture
    for (dx, dy) in [(-3, 0), (5, 5), (0, -3), (5, -3)] {
        let mut ls = built.clone();
        for (i, l) in ls.iter_mut().enumerate() {
            l.set_offset((specs[i].ox + dx, specs[i].oy + dy));
        }
        set_layers(buf, ls);
        ctx.count("transitions", 1);
        let s = sample(buf, b, dx, dy);
        if s != base {
            report(ctx, "L3-translation", json!({"by": [dx, dy]}), &base, &s);
            return;
        }
    }
    // L4: an opaque normal layer hides everything beneath it inside its rectangle
    for i in 1..n {
        let l = specs[i];
        if !l.alpha && l.visible {
            let mut ls = built.clone();
            for (j, low) in ls.iter_mut().enumerate().take(i) {
                let was = low.properties.is_visible;
                low.properties.is_visible = true;
                for y in 0..specs[j].h {
                    for x in 0..specs[j].w {
                        low.set_char((x, y), AttributedChar::new('Z', TextAttribute::new(13, 4)));
                    }
                }
                low.properties.is_visible = was;
            }
            set_layers(buf, ls);
            ctx.count("transitions", 1);
            let s = sample(buf, b, 0, 0);
            let w = b.2 - b.0;
            let mut a2 = Vec::new();
            let mut b2 = Vec::new();
            for (k, (x, y)) in base.iter().zip(s.iter()).enumerate() {
                let (px, py) = (b.0 + k as i32 % w, b.1 + k as i32 / w);
                if px >= l.ox && px < l.ox + l.w && py >= l.oy && py < l.oy + l.h {
                    a2.push(*x);
                    b2.push(*y);
                }
            }
            if a2 != b2 {
                let k = a2.iter().zip(b2.iter()).position(|(x, y)| x != y).unwrap();
                ctx.violation(
                    if l.mode == 0 { "diff:layers:L4-opaque-layer-hides-below".to_string() } else { format!("diff:layers:L4-opaque-layer-hides-below:{}", ["normal", "chars", "attributes"][l.mode as usize]) },
                    json!({"stack(bottom first)": stack_json(), "opaque_layer": i, "before": format!("{:?}", a2[k]), "after": format!("{:?}", b2[k])}),
                );
                return;
            }
        }
    }
    // L8: topmost first among the modifier layers: where a visible chars (attributes) layer has a cell, the cells of a chars
    //     (attributes) layer further down do not matter
    for j in 1..n {
        let up = specs[j];
        if up.mode == 0 || !up.visible {
            continue;
        }
        for i in 0..j {
            if specs[i].mode != up.mode {
                continue;
            }
            let mut ls = built.clone();
            let was = ls[i].properties.is_visible;
            ls[i].properties.is_visible = true;
            for y in 0..specs[i].h {
                for x in 0..specs[i].w {
                    if ls[i].get_char((x, y)).is_visible() {
                        ls[i].set_char((x, y), AttributedChar::new('Q', TextAttribute::new(9, 3)));
                    }
                }
            }
            ls[i].properties.is_visible = was;
            set_layers(buf, ls);
            ctx.count("transitions", 1);
            let s = sample(buf, b, 0, 0);
            let w = b.2 - b.0;
            for (k, (x, y)) in base.iter().zip(s.iter()).enumerate() {
                let (px, py) = (b.0 + k as i32 % w, b.1 + k as i32 / w);
                let (lx, ly) = (px - up.ox, py - up.oy);
                let covered = up.cells.iter().rev().find(|c| c.0 == lx && c.1 == ly).map(|c| matches!(c.2, Kind::A | Kind::B)).unwrap_or(false) && lx >= 0 && ly >= 0 && lx < up.w && ly < up.h;
                // what an upper chars layer decides is the character, what an upper attributes layer decides are the colours and flags
                // (the rest of the cell comes from beneath, where the lower layer may take part - e.g. a see-through cell between the
                // two is filled from what the layers beneath it display)
                let differs = if up.mode == 1 { x.visible != y.visible || x.ch != y.ch } else { x.visible != y.visible || x.fg != y.fg || x.bg != y.bg || x.attr != y.attr };
                if covered && differs {
                    ctx.violation(
                        format!("diff:layers:L8-lower-modifier-layer-wins:{}", ["normal", "chars", "attributes"][up.mode as usize]),
                        json!({"stack(bottom first)": stack_json(), "upper_layer": j, "edited_lower_layer": i, "position": [px, py], "before": format!("{x:?}"), "after": format!("{y:?}")}),
                    );
                    return;
                }
            }
        }
    }
    // L9: invisible cells of alpha layers never influence the picture, whatever else they hold (a character, colours, other flags)
    for i in 0..n {
        if !specs[i].alpha {
            continue;
        }
        let mut ls = built.clone();
        let mut any = false;
        for y in 0..specs[i].h {
            for x in 0..specs[i].w {
                if !ls[i].get_char((x, y)).is_visible() {
                    let mut c = AttributedChar::new('Z', TextAttribute::new(13, 4));
                    c.attribute.attr |= icy_engine::attribute::INVISIBLE | icy_engine::attribute::UNDERLINE;
                    if (ls[i].lines.len() as i32) <= y {
                        ls[i].lines.resize(y as usize + 1, icy_engine::Line::default());
                    }
                    ls[i].lines[y as usize].set_char(x, c);
                    any = true;
                }
            }
        }
        if !any {
            continue;
        }
        set_layers(buf, ls);
        ctx.count("transitions", 1);
        let s = sample(buf, b, 0, 0);
        if s != base {
            report(ctx, "L9-invisible-cell-with-content", json!({"layer": i, "mode": specs[i].mode}), &base, &s);
            return;
        }
    }
    // L10: topmost first: where the topmost visible layer covering a position is a normal layer with a visible cell, that cell is
    //      shown - its character, and every colour of it that is not the transparent colour
    {
        let w = b.2 - b.0;
        for (k, o) in base.iter().enumerate() {
            let (px, py) = (b.0 + k as i32 % w, b.1 + k as i32 / w);
            let top = specs.iter().rev().find(|l| l.visible && px >= l.ox && py >= l.oy && px < l.ox + l.w && py < l.oy + l.h);
            let Some(top) = top else { continue };
            if top.mode != 0 {
                continue;
            }
            let Some(cell) = top.cells.iter().rev().find(|c| c.0 == px - top.ox && c.1 == py - top.oy) else { continue };
            if cell.2 == Kind::Invisible {
                continue;
            }
            let c = kind_char(cell.2);
            let fg_ok = c.attribute.get_foreground() == TRANSPARENT || o.fg == c.attribute.get_foreground();
            let bg_ok = c.attribute.get_background() == TRANSPARENT || o.bg == c.attribute.get_background();
            if !o.visible || o.ch != c.ch as u32 || !fg_ok || !bg_ok {
                ctx.violation(
                    format!("diff:layers:L10-top-cell-not-shown:{}", if matches!(cell.2, Kind::TopHalf | Kind::BotHalf) { "transparent-colour-cell" } else { "solid-cell" }),
                    json!({"stack(bottom first)": stack_json(), "position": [px, py], "top_cell": format!("{:?}", cell.2), "shown": format!("{o:?}")}),
                );
                return;
            }
        }
    }
    // L11: compositing is associative: the layers beneath any split point can be replaced by ONE layer that holds exactly what they
    //      display (visible cells; nothing where they display nothing) without changing what the whole stack displays
    for k in 1..n {
        let mut lower = built.clone();
        lower.truncate(k);
        set_layers(buf, lower);
        let shown_below = sample(buf, b, 0, 0);
        let (w, h) = (b.2 - b.0, b.3 - b.1);
        let mut flat = Layer::new("flattened", (w, h));
        flat.properties.has_alpha_channel = true;
        flat.set_offset((b.0, b.1));
        for (i, o) in shown_below.iter().enumerate() {
            if o.visible {
                let mut a = TextAttribute::new(o.fg, o.bg);
                a.attr = o.attr;
                a.set_font_page(o.page);
                flat.set_char((i as i32 % w, i as i32 / w), AttributedChar::new(char::from_u32(o.ch).unwrap_or(' '), a));
            }
        }
        let mut ls = vec![flat];
        ls.extend(built[k..].iter().cloned());
        set_layers(buf, ls);
        ctx.count("transitions", 2);
        let s = sample(buf, b, 0, 0);
        if s != base {
            let upper_modes: Vec<u8> = specs[k..].iter().map(|l| l.mode).collect();
            let i = base.iter().zip(s.iter()).position(|(x, y)| x != y).unwrap_or(0);
            ctx.violation(
                format!(
                    "diff:layers:L11-flattening-the-layers-beneath:{}{}",
                    if upper_modes.iter().all(|m| *m == 0) { "under-normal-layers" } else { "under-modifier-layers" },
                    if shown_below.iter().any(|o| o.visible && (o.fg == TRANSPARENT || o.bg == TRANSPARENT)) { ":lower-part-shows-the-transparent-marker" } else { "" }
                ),
                json!({"stack(bottom first)": stack_json(), "flattened_layers": k, "position": [b.0 + i as i32 % w, b.1 + i as i32 / w], "whole_stack": format!("{:?}", base[i]), "with_flattened_lower_part": format!("{:?}", s[i]), "lower_part_shows": format!("{:?}", shown_below[i])}),
            );
            return;
        }
    }
    // L12: what is seen through a transparent colour is a colour the stack beneath displays there: the colours of the result are colours
    //      of cells of the stack (a bold dark colour counts as the bright one it is drawn with), never a number no layer holds
    {
        let mut colours: Vec<u32> = vec![0, 7];
        for l in specs.iter() {
            for c in &l.cells {
                let ch = kind_char(c.2);
                for col in [ch.attribute.get_foreground(), ch.attribute.get_background()] {
                    colours.push(col);
                    if col < 8 {
                        colours.push(col + 8);
                    }
                }
            }
        }
        let w = b.2 - b.0;
        for (k, o) in base.iter().enumerate() {
            if o.visible && (!colours.contains(&o.fg) || !colours.contains(&o.bg)) {
                ctx.violation(
                    "diff:layers:L12-displayed-colour-held-by-no-layer",
                    json!({"stack(bottom first)": stack_json(), "position": [b.0 + k as i32 % w, b.1 + k as i32 / w], "shown": format!("{o:?}")}),
                );
                return;
            }
        }
    }
    // L5: moving one layer far away changes only positions inside its old (and new) rectangle
    for i in 0..n {
        let mut ls = built.clone();
        ls[i].set_offset((specs[i].ox + 40, specs[i].oy + 40));
        set_layers(buf, ls);
        ctx.count("transitions", 1);
        let s = sample(buf, b, 0, 0);
        let w = b.2 - b.0;
        let l = specs[i];
        for (k, (x, y)) in base.iter().zip(s.iter()).enumerate() {
            let (px, py) = (b.0 + k as i32 % w, b.1 + k as i32 / w);
            let inside = px >= l.ox && px < l.ox + l.w && py >= l.oy && py < l.oy + l.h;
            if !inside && x != y {
                ctx.violation(
                    "diff:layers:L5-layer-influences-position-it-does-not-cover",
                    json!({"stack(bottom first)": stack_json(), "moved_layer": i, "position": [px, py], "before": format!("{x:?}"), "after": format!("{y:?}")}),
                );
                return;
            }
        }
    }
    // L6: a layer that was shown at a preview offset (dragging) and is then placed with set_offset contributes at exactly that offset
    for i in 0..n {
        let mut ls = built.clone();
        ls[i].set_preview_offset(Some((specs[i].ox + 30, specs[i].oy - 30).into()));
        ls[i].set_offset((specs[i].ox, specs[i].oy));
        set_layers(buf, ls);
        ctx.count("transitions", 1);
        let s = sample(buf, b, 0, 0);
        if s != base {
            report(ctx, "L6-placed-after-preview", json!({"layer": i}), &base, &s);
            return;
        }
    }
    // L7: what a layer shows does not depend on how its rows are stored: trailing rows without visible cells may be missing from the
    //     line vector (rows are stored lazily) and the vector may hold rows beyond the layer height (a layer that was made smaller)
    for i in 0..n {
        for variant in 0..2 {
            let mut ls = built.clone();
            if variant == 0 {
                while ls[i].lines.last().map(|l| l.chars.iter().all(|c| !c.is_visible())).unwrap_or(false) {
                    ls[i].lines.pop();
                }
            } else {
                let mut extra = icy_engine::Line::default();
                extra.chars = vec![AttributedChar::new('#', TextAttribute::new(11, 5)); specs[i].w.max(1) as usize];
                while (ls[i].lines.len() as i32) < specs[i].h {
                    ls[i].lines.push(icy_engine::Line::default());
                }
                ls[i].lines.push(extra);
            }
            set_layers(buf, ls);
            ctx.count("transitions", 1);
            let s = sample(buf, b, 0, 0);
            if s != base {
                report(ctx, if variant == 0 { "L7-trailing-rows-not-stored" } else { "L7-rows-stored-beyond-the-height" }, json!({"layer": i}), &base, &s);
                return;
            }
        }
    }
    // R: reference compositor for normal layers without transparent colours
    if specs.iter().all(|l| l.mode == 0 && !l.has_transparent_colour()) {
        ctx.count("traces_validated", 1);
        let w = b.2 - b.0;
        for (k, o) in base.iter().enumerate() {
            let (px, py) = (b.0 + k as i32 % w, b.1 + k as i32 / w);
            let want = reference(specs, px, py);
            if *o != want {
                ctx.violation(
                    "diff:layers:R-reference-compositor",
                    json!({"stack(bottom first)": stack_json(), "position": [px, py], "engine": format!("{o:?}"), "reference": format!("{want:?}")}),
                );
                return;
            }
        }
    }
}

// ------------------------------------------------------------------ C12

#[derive(Clone, Debug)]
struct RowCase {
    page: usize,
    mid: u32,
    left: u32,
    right: u32,
    col: usize,
    bold: bool,
}

const NEIGH: [u32; 5] = [0, 32, 255, 219, b'A' as u32];
const COLS: [(u32, u32); 8] = [(7, 0), (0, 1), (1, 7), (8, 15), (15, 8), (4, 4), (16, 0), (0, 16)];

fn render_all(buf: &Buffer) -> (icy_engine::Size, Vec<u8>) {
    buf.render_to_rgba(Rectangle::from_min_size(Position::default(), buf.get_size()))
}

fn check_optimizer(buf: &Buffer, what: Value, cls: &str, ctx: &mut Ctx) {
    for norm in [false, true] {
        ctx.count("evaluations", 1);
        ctx.count("transitions", 3);
        let mut o = SaveOptions::new();
        o.normalize_whitespaces = norm;
        let r = catch(|| {
            let opt = ColorOptimizer::new(buf, &o).optimize(buf);
            let a = render_all(buf);
            let b = render_all(&opt);
            (a, b, opt.get_size())
        });
        match r {
            Err(p) => ctx.panic(&p, json!({"input": what, "normalize_whitespaces": norm})),
            Ok((a, b, size)) => {
                let mut f = Fnv::new();
                f.bytes(&b.1[..b.1.len().min(2048)]);
                ctx.state(f.finish());
                if size != buf.get_size() || a.0 != b.0 {
                    ctx.violation(format!("diff:optimizer:size:{cls}"), json!({"input": what, "normalize_whitespaces": norm}));
                } else if a.1 != b.1 {
                    let i = a.1.iter().zip(b.1.iter()).position(|(x, y)| x != y).unwrap_or(0) / 4;
                    let w = a.0.width.max(1) as usize;
                    ctx.violation(
                        format!("diff:optimizer:pixels:{cls}:{}", if norm { "normalized" } else { "not-normalized" }),
                        json!({"input": what, "normalize_whitespaces": norm, "pixel": [i % w, i / w], "cell": [(i % w) / 8, (i / w) / 16]}),
                    );
                }
            }
        }
    }
}

fn run_rows(page: usize, glyphs: std::ops::Range<u32>, ctx: &mut Ctx) {
    let Ok(font) = icy_engine::BitFont::from_ansi_font_page(page) else {
        ctx.count("font_pages_missing", 1);
        return;
    };
    let fh = font.size.height;
    let mut buf = Buffer::new((3 * 5 * 2, 8));
    // the primary font decides the cell size of the renderer: use the page itself so that every glyph row is rendered
    buf.set_font(0, font.clone());
    buf.set_font(page, font);
    let _ = fh;
    buf.palette.insert_color_rgb(12, 34, 56);
    for mid in glyphs {
        // one buffer per middle glyph: 8 colour contexts (rows) x 5 left x 2 right neighbours x bold in columns
        let mut b = buf.flat_clone(true);
        let mut rows_desc = Vec::new();
        for (row, (fg, bg)) in COLS.iter().enumerate() {
            let mut x = 0;
            for (li, left) in NEIGH.iter().enumerate() {
                for (ri, right) in [NEIGH[(li + 1) % 5], NEIGH[(li + 3) % 5]].iter().enumerate() {
                    let bold = (li + ri + row) % 2 == 1;
                    let mk = |ch: u32, f: u32, g: u32, bold: bool| {
                        let mut c = Cell::new(ch, f, g).page(page);
                        c.bold = bold;
                        c
                    };
                    put(&mut b, x, row as i32, &mk(*left, COLS[(row + 1) % 8].0, COLS[(row + 2) % 8].1, false));
                    put(&mut b, x + 1, row as i32, &mk(mid, *fg, *bg, bold));
                    put(&mut b, x + 2, row as i32, &mk(*right, COLS[(row + 3) % 8].0, COLS[(row + 5) % 8].1, !bold));
                    x += 3;
                }
            }
            rows_desc.push(json!([fg, bg]));
        }
        let glyph_cls = match b.get_font(page).and_then(|f| f.get_glyph(char::from_u32(mid).unwrap())) {
            Some(g) => {
                let ones: u32 = g.data.iter().map(|r| r.count_ones()).sum();
                if ones == 0 {
                    "blank-glyph"
                } else if ones == 8 * g.data.len() as u32 {
                    "solid-glyph"
                } else {
                    "mixed-glyph"
                }
            }
            None => "missing-glyph",
        };
        ctx.count("nontrivial", 1);
        check_optimizer(&b, json!({"font_page": page, "middle_glyph": mid, "layout": "8 colour rows x 10 (left, middle, right) triples; neighbours from {0,32,255,219,'A'}", "row_colours": rows_desc}), glyph_cls, ctx);
    }
}

/// two font pages in one document: every glyph that is blank in page `page` sits between cells of another page (in which the
/// same glyph number may be visible), 3 colour contexts, every other page q in {0, page+1, 32}
fn run_mixed_rows(page: usize, ctx: &mut Ctx) {
    let Ok(font) = icy_engine::BitFont::from_ansi_font_page(page) else {
        ctx.count("font_pages_missing", 1);
        return;
    };
    let blank: Vec<u32> = (0..256u32).filter(|g| font.get_glyph(char::from_u32(*g).unwrap()).map(|gl| gl.data.iter().all(|r| *r == 0)).unwrap_or(false)).collect();
    for q in [0usize, (page + 1) % 43, 32] {
        if q == page {
            continue;
        }
        let Ok(other) = icy_engine::BitFont::from_ansi_font_page(q) else {
            continue;
        };
        if other.size != font.size {
            continue; // the renderer draws every page in the cell size of the primary font
        }
        let mut b = Buffer::new((3 * blank.len().max(1) as i32, 4));
        b.set_font(0, other.clone());
        b.set_font(q, other);
        b.set_font(page, font.clone());
        for (row, (fg, bg)) in [(7u32, 0u32), (14, 1), (0, 7)].iter().enumerate() {
            for (i, g) in blank.iter().enumerate() {
                let x = 3 * i as i32;
                // row 0 and 1: the neighbours have other colours; row 2: all three cells share their colours and flags and differ in the
                // font page only (what a comparison of attributes does not see)
                let (nf, nb, af, ab) = if row == 2 { (*fg, *bg, *fg, *bg) } else { (12, 2, 3, 4) };
                put(&mut b, x, row as i32, &Cell::new(*g, nf, nb).page(q));
                put(&mut b, x + 1, row as i32, &Cell::new(*g, *fg, *bg).page(page));
                put(&mut b, x + 2, row as i32, &Cell::new(b'A' as u32, af, ab).page(q));
            }
        }
        // row 3: a drawn glyph of this page, then - in the same colours and flags - a glyph number that is blank in this page on the other
        // page (where it may be drawn): what a table kept from the previous cell says about the second cell is wrong
        for (i, g) in blank.iter().enumerate() {
            let x = 3 * i as i32;
            put(&mut b, x, 3, &Cell::new(b'A' as u32, 14, 1).page(page));
            put(&mut b, x + 1, 3, &Cell::new(*g, 14, 1).page(q));
            put(&mut b, x + 2, 3, &Cell::new(b'B' as u32, 14, 1).page(page));
        }
        // the same font once more in slot 7 with every blank glyph made visible in place (its cached checksum still equals the original's)
        let mut copy = font.clone();
        for g in &blank {
            if let Some(gl) = copy.get_glyph_mut(char::from_u32(*g).unwrap()) {
                for (r, row) in gl.data.iter_mut().enumerate() {
                    *row = if r % 2 == 0 { 0xAA } else { 0x55 };
                }
            }
        }
        if q != 7 && page != 7 {
            let mut b2 = b.flat_clone(true);
            b2.set_font(7, copy);
            for (row, (fg, bg)) in [(7u32, 0u32), (14, 1), (0, 7)].iter().enumerate() {
                for (i, g) in blank.iter().enumerate() {
                    put(&mut b2, 3 * i as i32 + 2, row as i32, &Cell::new(*g, *fg, *bg).page(7));
                }
            }
            ctx.count("nontrivial", 1);
            check_optimizer(&b2, json!({"font_page_of_the_blank_glyphs": page, "neighbour_page": q, "slot_7": "copy of the page font with every blank glyph edited in place to a visible pattern", "blank_glyphs": blank}), "edited-copy-of-a-font", ctx);
        }
        ctx.count("nontrivial", 1);
        check_optimizer(&b, json!({"font_page_of_the_blank_glyphs": page, "neighbour_page": q, "blank_glyphs": blank, "layout": "3 colour rows x (glyph g on the other page, g on this page, 'A' on the other page)"}), "blank-glyph-between-pages", ctx);
    }
}

// ------------------------------------------------------------------ engine

enum Job {
    Stacks { rich: bool, depth: u32, first: u64, count: u64 },
    Rows { page: usize, lo: u32, hi: u32 },
    /// cells of two font pages next to each other: every glyph that is blank in its own page between neighbours of another page
    MixedRows { page: usize },
    OptStacks { first: u64, count: u64, depth: u32 },
    /// colours encoded as RGB values in the attribute (incl. RGB black, whose encoding is also the transparent colour) on alpha-only and
    /// opaque stacks, and layers whose default font page differs from the page of their cells
    OptSpecial { variant: usize },
    /// font tables other than "a font in slot 0": every subset of the slots {0, 2, 5} incl. the empty one, every assignment of an 8x8 /
    /// 8x16 font to the occupied slots; cells on every one of the three pages (with and without a font behind the page)
    OptFontTable { variant: usize },
}

struct Layers {
    prop: String,
    rich: Vec<LayerSpec>,
    small: Vec<LayerSpec>,
    jobs: Vec<Job>,
}

const BATCH: u64 = 512;

fn build(prop: &str, tier: &str) -> Layers {
    let thorough = tier == "thorough";
    let rich = layer_menu(true);
    let small = layer_menu(false);
    let mut jobs = Vec::new();
    if prop == "C13" {
        let mut add = |is_rich: bool, depth: u32, n: usize| {
            let total = (n as u64).pow(depth);
            let mut first = 0;
            while first < total {
                let c = BATCH.min(total - first);
                jobs.push(Job::Stacks { rich: is_rich, depth, first, count: c });
                first += c;
            }
        };
        add(true, 1, rich.len());
        add(true, 2, rich.len());
        add(false, 3, small.len());
        if thorough {
            add(false, 4, small.len());
        }
    } else {
        for page in 0..=42usize {
            for lo in (0..256).step_by(16) {
                jobs.push(Job::Rows { page, lo, hi: lo + 16 });
            }
        }
        for page in 0..=42usize {
            jobs.push(Job::MixedRows { page });
        }
        for variant in 0..8 {
            jobs.push(Job::OptSpecial { variant });
        }
        for variant in 0..64 {
            jobs.push(Job::OptFontTable { variant });
        }
        let depth = if thorough { 3 } else { 2 };
        let total = (small.len() as u64).pow(depth);
        let mut first = 0;
        while first < total {
            let c = 256.min(total - first);
            jobs.push(Job::OptStacks { first, count: c, depth });
            first += c;
        }
    }
    Layers { prop: prop.to_string(), rich, small, jobs }
}

impl Layers {
    fn stack(&self, rich: bool, depth: u32, mut idx: u64) -> Vec<&LayerSpec> {
        let menu = if rich { &self.rich } else { &self.small };
        let n = menu.len() as u64;
        let mut v = Vec::new();
        for _ in 0..depth {
            v.push(&menu[(idx % n) as usize]);
            idx /= n;
        }
        v
    }
}

impl Engine for Layers {
    fn total(&self) -> u64 {
        self.jobs.len() as u64
    }
    fn run(&mut self, idx: u64, ctx: &mut Ctx) {
        match &self.jobs[idx as usize] {
            Job::Stacks { rich, depth, first, count } => {
                let mut buf = Buffer::new((8, 8));
                buf.set_font(1, icy_engine::BitFont::default());
                for i in *first..*first + *count {
                    let st = Stack { layers: self.stack(*rich, *depth, i) };
                    check_stack(&mut buf, &st, ctx);
                }
            }
            Job::Rows { page, lo, hi } => run_rows(*page, *lo..*hi, ctx),
            Job::MixedRows { page } => run_mixed_rows(*page, ctx),
            Job::OptSpecial { variant } => {
                let v = *variant;
                let rgb = |r: u32, g: u32, b: u32| 0x8000_0000u32 | (r << 16) | (g << 8) | b;
                let fgs = [rgb(0, 0, 0), rgb(255, 128, 64), rgb(0, 0, 170), 7, 0];
                let bgs = [7, rgb(17, 34, 51), rgb(0, 0, 0), 0, 1];
                let glyphs = [b'A' as u32, 219, 32, 0, 223];
                let alpha = v & 1 == 1;
                let two = v & 2 == 2;
                let dfp = v & 4 == 4;
                let mut buf = Buffer::new((fgs.len() as i32 * 2 + 1, (bgs.len() * glyphs.len()) as i32 + 1));
                if dfp {
                    buf.set_font(32, icy_engine::BitFont::from_ansi_font_page(32).unwrap());
                }
                let mut l = Layer::new("cells", buf.get_size());
                l.properties.has_alpha_channel = alpha;
                if dfp {
                    l.default_font_page = 32;
                }
                for (bi, bg) in bgs.iter().enumerate() {
                    for (gi, g) in glyphs.iter().enumerate() {
                        for (fi, fg) in fgs.iter().enumerate() {
                            for bold in [false, true] {
                                let mut a = TextAttribute::new(*fg, *bg);
                                a.set_is_bold(bold);
                                // the last column and the last row stay unfilled
                                l.set_char((fi as i32 * 2 + bold as i32, (bi * glyphs.len() + gi) as i32), AttributedChar::new(char::from_u32(*g).unwrap(), a));
                            }
                        }
                    }
                }
                let mut ls = vec![l];
                if two {
                    let mut under = Layer::new("under", buf.get_size());
                    under.properties.has_alpha_channel = true;
                    under.set_char((0, 0), AttributedChar::new('u', TextAttribute::new(14, 2)));
                    under.set_char((buf.get_width() - 1, buf.get_height() - 1), AttributedChar::new('v', TextAttribute::new(1, 3)));
                    ls.insert(0, under);
                }
                buf.layers = ls;
                ctx.count("nontrivial", 1);
                check_optimizer(&buf, json!({"cells": "5 foregrounds (RGB black, 2 RGB colours, 7, 0) x bold x 5 backgrounds (7, RGB, RGB black, 0, 1) x glyphs A, 219, 32, 0, 223; last row and column unfilled",
                    "layer_has_alpha": alpha, "second_alpha_layer_beneath": two, "default_font_page_32(8x8)": dfp}), "rgb-colours-and-default-font-page", ctx);
            }
            Job::OptFontTable { variant } => {
                let v = *variant;
                let slots = [0usize, 2, 5];
                let mut buf = Buffer::new((10, 3));
                buf.clear_font_table();
                let mut table = Vec::new();
                for (i, slot) in slots.iter().enumerate() {
                    if v >> i & 1 == 1 {
                        let small = v >> (3 + i) & 1 == 1;
                        buf.set_font(*slot, icy_engine::BitFont::from_ansi_font_page(if small { 32 } else { 0 }).unwrap());
                        table.push(json!({"slot": slot, "font": if small { "8x8 (ansi font page 32)" } else { "8x16 (ansi font page 0)" }}));
                    } else if v >> (3 + i) & 1 == 1 {
                        return; // the size bit of a free slot has no meaning: one variant per table
                    }
                }
                let glyphs = [b'A' as u32, 219, 32];
                for (pi, page) in slots.iter().enumerate() {
                    for (gi, g) in glyphs.iter().enumerate() {
                        let mut a = TextAttribute::new(14 - pi as u32, 1 + gi as u32);
                        a.set_font_page(*page);
                        buf.layers[0].set_char(((pi * 3 + gi) as i32, 0), AttributedChar::new(char::from_u32(*g).unwrap(), a));
                        let mut a = TextAttribute::new(1 + gi as u32, 4 + pi as u32);
                        a.set_font_page(slots[(pi + gi) % 3]);
                        buf.layers[0].set_char(((pi * 3 + gi) as i32, 1), AttributedChar::new(char::from_u32(glyphs[(gi + 1) % 3]).unwrap(), a));
                    }
                }
                buf.layers[0].set_char((1, 2), AttributedChar::new('B', TextAttribute::new(12, 4)));
                ctx.count("nontrivial", 1);
                check_optimizer(&buf, json!({"font_table": table, "cells": "rows 0 and 1: glyphs A, 219, 32 on each of the font pages 0, 2, 5 (row 1 with pages and glyphs rotated); row 2: one cell on page 0; last column unfilled"}), "font-table-without-slot-0", ctx);
            }
            Job::OptStacks { first, count, depth } => {
                let depth = *depth;
                for i in *first..*first + *count {
                    let specs = self.stack(false, depth, i);
                    // the flattening step needs a base layer as large as the document; the base layer in every state a user can put it in
                    for (bi, base_state) in ["plain", "hidden", "locked", "moved by (1,1)", "alpha channel", "only its first row stored"].iter().enumerate() {
                        let mut buf = Buffer::new((6, 5));
                        let mut ls: Vec<Layer> = specs.iter().map(|l| l.build()).collect();
                        let mut base = Layer::new("base", (6, 5));
                        base.set_char((0, 0), AttributedChar::new('x', TextAttribute::new(2, 3)));
                        base.set_char((5, 4), AttributedChar::new('y', TextAttribute::new(14, 1)));
                        match bi {
                            1 => base.properties.is_visible = false,
                            2 => base.properties.is_locked = true,
                            3 => base.set_offset((1, 1)),
                            4 => base.properties.has_alpha_channel = true,
                            5 => base.lines.truncate(1),
                            _ => {}
                        }
                        ls.insert(0, base);
                        // a small floating layer low in the document (below every row the other layers store)
                        let mut low = Layer::new("low", (2, 1));
                        low.properties.has_alpha_channel = true;
                        low.set_offset((2, 3));
                        low.set_char((0, 0), AttributedChar::new('L', TextAttribute::new(10, 4)));
                        low.set_char((1, 0), AttributedChar::new(' ', TextAttribute::new(1, 6)));
                        ls.push(low);
                        buf.layers = ls;
                        ctx.count("nontrivial", 1);
                        check_optimizer(&buf, json!({"base_layer": base_state, "stack(bottom first, above a 6x5 base layer)": specs.iter().map(|l| l.json()).collect::<Vec<_>>()}), "layer-stack", ctx);
                    }
                }
            }
        }
    }
    fn describe(&self, idx: u64) -> Value {
        match &self.jobs[idx as usize] {
            Job::Stacks { rich, depth, first, count } => json!({"engine": "layer-stacks", "idx": idx, "menu": if *rich { "rich" } else { "small" }, "layers": depth, "first": first, "count": count,
                "first_stack": self.stack(*rich, *depth, *first).iter().map(|l| l.json()).collect::<Vec<_>>(), "key": "layer-stacks"}),
            Job::Rows { page, lo, hi } => json!({"engine": "optimizer-rows", "idx": idx, "font_page": page, "middle_glyphs": [lo, hi], "key": "optimizer-rows"}),
            Job::MixedRows { page } => json!({"engine": "optimizer-mixed-page-rows", "idx": idx, "font_page": page, "key": "optimizer-mixed-page-rows"}),
            Job::OptSpecial { variant } => json!({"engine": "optimizer-special-documents", "idx": idx, "variant": variant, "key": "optimizer-special-documents"}),
            Job::OptFontTable { variant } => json!({"engine": "optimizer-font-tables", "idx": idx, "variant": variant, "key": "optimizer-font-tables"}),
            Job::OptStacks { first, count, depth } => json!({"engine": "optimizer-stacks", "idx": idx, "first": first, "count": count, "layers": depth, "key": "optimizer-stacks"}),
        }
    }
    fn replay(&mut self, case: &Value, ctx: &mut Ctx) {
        self.run(case["idx"].as_u64().unwrap_or(0), ctx)
    }
    fn meta(&self) -> Value {
        json!({"property": self.prop, "rich_layer_menu": self.rich.len(), "small_layer_menu": self.small.len(), "batches": self.jobs.len(),
               "laws": ["L1 empty alpha layer at every index", "L2 edit hidden layers", "L3 translate stack by 4 vectors", "L4 replace everything below an opaque normal layer", "L5 move each layer away", "L6 place each layer after a preview offset", "L7 row storage (trailing rows not stored / rows stored beyond the height)", "R reference compositor (normal layers, no transparent colours)"]})
    }
}

fn main() {
    worker_main(|prop, tier| Box::new(build(prop, tier)));
}
