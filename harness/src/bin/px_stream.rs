//! C01 (no byte stream crashes an emulation) and C09 (cursor / fixed-grid geometry):
//! stateless sequence exploration of the real parsers. Every case is
//!   fresh terminal buffer -> context prefix (bytes, through the same parser) -> d tokens -> 3 probe characters
//! with the oracle evaluated after every character.

use std::rc::Rc;
use vharness::emu::*;
use vharness::{bytes_to_json, json, json_bytes, worker_main, Ctx, Engine, Fnv, Value};

#[derive(Clone)]
struct Stratum {
    name: String,
    emu: Emu,
    w: i32,
    h: i32,
    ctx_name: &'static str,
    ctx: Rc<Vec<u8>>,
    tokens: Rc<Vec<Token>>,
    depth: u32,
    /// repeat the token sequence until this many line feeds worth of output happened (C09 scrollback fill); 1 = once
    repeat: u32,
    count: u64,
    offset: u64,
}

struct Stream {
    prop: String,
    strata: Vec<Stratum>,
    total: u64,
}

fn pow(n: usize, d: u32) -> u64 {
    (n as u64).pow(d)
}

impl Stream {
    fn push(&mut self, name: &str, emu: Emu, w: i32, h: i32, ctx: &(&'static str, Vec<u8>), tokens: &Rc<Vec<Token>>, depth: u32, repeat: u32) {
        let count = pow(tokens.len(), depth);
        self.strata.push(Stratum {
            name: name.to_string(),
            emu,
            w,
            h,
            ctx_name: ctx.0,
            ctx: Rc::new(ctx.1.clone()),
            tokens: tokens.clone(),
            depth,
            repeat,
            count,
            offset: self.total,
        });
        self.total += count;
    }

    fn locate(&self, idx: u64) -> (&Stratum, Vec<usize>) {
        let i = match self.strata.binary_search_by(|s| s.offset.cmp(&idx)) {
            Ok(i) => {
                // several empty strata may share an offset; take the last one with that offset that is non-empty
                let mut j = i;
                while self.strata[j].count == 0 {
                    j += 1;
                }
                j
            }
            Err(i) => i - 1,
        };
        let s = &self.strata[i];
        let mut local = idx - s.offset;
        let n = s.tokens.len() as u64;
        let mut toks = vec![0usize; s.depth as usize];
        for k in (0..s.depth as usize).rev() {
            toks[k] = (local % n) as usize;
            local /= n;
        }
        (s, toks)
    }
}

fn without_resize(v: Vec<Token>) -> Vec<Token> {
    // C09 quantifies over streams that do not request a text-area resize (CSI 8;h;w t)
    v.into_iter()
        .filter(|t| !(t.key == "CSI t" && t.bytes.starts_with(b"\x1b[8;") && t.bytes.iter().filter(|b| **b == b';').count() == 2))
        .collect()
}

fn interesting_bytes() -> Vec<Token> {
    let mut v = Vec::new();
    for b in (0u8..=0x1f).chain([0x20, b'A', b'@', b'|', 0x7d, 0x7e, 0x7f, 0x80, 0x8d, 0x8e, 0x93, 0x9b, 0x9c, 0x9d, 0x9e, 0x9f, 0xa0, 0xfd, 0xfe, 0xff]) {
        v.push(Token { bytes: vec![b], key: format!("byte {b:02x}") });
    }
    v
}

fn malformed(core: &[Token]) -> Vec<Token> {
    // every proper prefix of every multi-byte token, followed by a terminator from a small menu
    let mut v = Vec::new();
    let mut seen = std::collections::HashSet::new();
    let tails: [&[u8]; 5] = [b"A", b"\x1b", b"\n", b"\x1b[H", b"\x1b\\"];
    for t in core {
        if t.bytes.len() < 2 {
            continue;
        }
        for cut in 1..t.bytes.len() {
            for tail in tails {
                let mut b = t.bytes[..cut].to_vec();
                b.extend_from_slice(tail);
                if seen.insert(b.clone()) {
                    v.push(Token { bytes: b, key: format!("prefix of {}", t.key) });
                }
            }
        }
    }
    v.push(Token { bytes: b"\x1b[1;2\x1b[3;4H".to_vec(), key: "CSI interrupted by ESC".into() });
    v.push(Token { bytes: b"\x1b\\\x1b\\".to_vec(), key: "doubled ST".into() });
    v
}

const SIZES_Q: [(i32, i32); 4] = [(80, 25), (1, 1), (2, 2), (132, 60)];
const SIZES_T: [(i32, i32); 7] = [(80, 25), (1, 1), (1, 60), (132, 1), (2, 2), (40, 24), (132, 60)];

fn build(prop: &str, tier: &str) -> Stream {
    let c09 = prop == "C09";
    let thorough = tier == "thorough";
    let mut s = Stream { prop: prop.to_string(), strata: vec![], total: 0 };
    let rc = |v: Vec<Token>| Rc::new(if c09 { without_resize(v) } else { v });

    // ---- depth 1: complete tables
    for &emu in &Emu::ALL {
        let sizes: Vec<(i32, i32)> = if thorough { SIZES_T.to_vec() } else { SIZES_Q.to_vec() };
        for (si, &(w, h)) in sizes.iter().enumerate() {
            let ctxs = contexts(emu, w, h);
            let mut toks = byte_tokens();
            toks.extend(native_tokens(emu));
            if emu.is_ansi_family() {
                toks.extend(ansi_core(w, h, 2));
                if matches!(emu, Emu::Ansi(0) | Emu::Ansi(3)) {
                    toks.extend(csi_table_full(w, h));
                    let core = ansi_core(w, h, 2);
                    toks.extend(malformed(&core));
                }
                if let Emu::Ansi(m) = emu {
                    if m > 0 {
                        toks.extend(music_tokens());
                    }
                }
                // ESC + every byte
                for b in 0..=255u8 {
                    toks.push(Token { bytes: vec![0x1b, b], key: format!("ESC {b:02x}") });
                }
            }
            let toks = rc(toks);
            for (ci, c) in ctxs.iter().enumerate() {
                // quick: all contexts on the first two sizes, three contexts on the others
                if !thorough && si >= 2 && ci >= 3 {
                    continue;
                }
                s.push("singles", emu, w, h, c, &toks, 1, 1);
            }
        }
    }

    // ---- all two-byte strings, every emulation, native size
    for &emu in &Emu::ALL {
        let (w, h) = if emu.is_fixed_grid() || emu == Emu::Atascii { (40, 24) } else { (80, 25) };
        let ctxs = contexts(emu, w, h);
        let bytes = rc(byte_tokens());
        s.push("bytes^2", emu, w, h, &ctxs[0], &bytes, 2, 1);
        if thorough {
            s.push("bytes^2", emu, w, h, &ctxs[2], &bytes, 2, 1);
            s.push("bytes^2", emu, 2, 2, &ctxs[0], &bytes, 2, 1);
        }
    }

    // ---- pairs of control functions (ANSI family)
    {
        let emus: Vec<Emu> = if thorough { Emu::ALL.iter().copied().filter(|e| e.is_ansi_family()).collect() } else { vec![Emu::Ansi(3), Emu::Avatar] };
        for emu in emus {
            let sizes: Vec<(i32, i32)> = if thorough && emu == Emu::Ansi(3) { SIZES_T.to_vec() } else { vec![(80, 25), (2, 2)] };
            for (si, &(w, h)) in sizes.iter().enumerate() {
                let base = ansi_core(w, h, 2);
                let n = base.len();
                let mut t = base;
                t.extend(native_tokens(emu));
                if emu == Emu::CtrlA {
                    t.truncate(n + 128);
                }
                let toks = rc(t);
                let ctxs = contexts(emu, w, h);
                for (ci, c) in ctxs.iter().enumerate() {
                    let wanted = if thorough {
                        si < 2 || ci < 3
                    } else if emu == Emu::Avatar {
                        si == 0 && c.0 == "cleared"
                    } else if si == 0 {
                        matches!(c.0, "cleared" | "scrollback" | "tb-margins" | "all-margins")
                    } else {
                        c.0 == "cleared"
                    };
                    if wanted {
                        s.push("pairs", emu, w, h, c, &toks, 2, 1);
                    }
                }
            }
        }
    }

    // ---- pairs of native tokens for the non-ANSI emulations
    for emu in [Emu::Petscii, Emu::Atascii, Emu::Viewdata, Emu::Mode7, Emu::Ascii] {
        let (w, h) = if emu.is_fixed_grid() || emu == Emu::Atascii { (40, 24) } else { (80, 25) };
        let mut t = native_tokens(emu);
        t.extend(interesting_bytes());
        let toks = rc(t);
        let ctxs = contexts(emu, w, h);
        for c in ctxs.iter() {
            s.push("native pairs", emu, w, h, c, &toks, 2, 1);
        }
        if thorough {
            for c in contexts(emu, 2, 2).iter() {
                s.push("native pairs", emu, 2, 2, c, &toks, 2, 1);
            }
        }
    }

    // ---- scrollback fill (replaces the statement's random 4 KiB streams): every token pair repeated until 3*H line feeds happened
    if c09 {
        for emu in [Emu::Ansi(0), Emu::Avatar, Emu::Petscii, Emu::Atascii, Emu::Viewdata, Emu::Mode7] {
            let (w, h) = if emu.is_fixed_grid() || emu == Emu::Atascii { (40, 24) } else if thorough { (80, 25) } else { (20, 6) };
            let mut t: Vec<Token> = if emu.is_ansi_family() { ansi_core(w, h, 3) } else { native_tokens(emu) };
            t.extend(interesting_bytes());
            t.push(Token { bytes: vec![b'z'; w as usize], key: "print line".into() });
            let toks = rc(t);
            let ctxs = contexts(emu, w, h);
            s.push("repeat-fill pairs", emu, w, h, &ctxs[0], &toks, 2, 3 * h as u32);
        }
    }

    // ---- a control sequence with resize-like parameters ended by every byte that is not 't', then every printable byte:
    // by the grammar of control sequences (parameters, intermediates, one final byte) none of these streams requests a resize, and the
    // text behind a finished (or rejected) sequence is text
    if c09 {
        for emu in [Emu::Ansi(0), Emu::Ansi(3), Emu::Avatar] {
            let mut t: Vec<Token> = Vec::new();
            for params in ["8;1;1", "8;2;3", "8;1", ";8;1;1;", "8;;"] {
                for b in (0x20u8..=0x7e).filter(|b| !b.is_ascii_digit() && *b != b';' && *b != b't' && *b != b':') {
                    let mut bytes = format!("\x1b[{params}").into_bytes();
                    bytes.push(b);
                    t.push(Token { bytes, key: format!("noresize: CSI {params} ended by {b:02x}") });
                }
            }
            for b in 0x20u8..=0x7e {
                t.push(Token { bytes: vec![b], key: format!("noresize: byte {b:02x}") });
            }
            let toks = Rc::new(t);
            for (w, h) in [(80, 25), (4, 3)] {
                let ctxs = contexts(emu, w, h);
                s.push("csi then byte", emu, w, h, &ctxs[0], &toks, 2, 1);
            }
        }
    }

    // ---- long histories made small by the macro sub-language: resources that are held per sequence until somebody collects them
    //      (a sixel sequence starts a decode thread) must not add up over a history
    if !c09 {
        for emu in [Emu::Ansi(0), Emu::Avatar] {
            let mut bytes = b"\x1bP0;0;1!z!5000;1B50711B5C;\x1b\\".to_vec();
            for _ in 0..12 {
                bytes.extend(b"\x1b[0*z");
            }
            let mut t = vec![Token { bytes, key: "macro of 5000 empty sixel sequences, invoked 12 times".into() }];
            // the same history without the macro sub-language (an image inside a macro is charged to the expansion budget)
            t.push(Token { bytes: b"\x1bPq\x1b\\".repeat(45_000), key: "45000 empty sixel sequences".into() });
            let mut bytes = b"\x1bP0;0;1!z!2000;1B507122313B313B323B367E1B5C;\x1b\\".to_vec();
            for _ in 0..20 {
                bytes.extend(b"\x1b[0*z");
            }
            t.push(Token { bytes, key: "macro of 2000 small sixel images, invoked 20 times".into() });
            let toks = Rc::new(t);
            let ctxs = contexts(emu, 80, 25);
            s.push("long histories", emu, 80, 25, &ctxs[0], &toks, 1, 1);
        }
    }

    // ---- triples
    {
        let emu = Emu::Ansi(3);
        let sizes: Vec<(i32, i32)> = if thorough { vec![(2, 2), (80, 25), (1, 1)] } else { vec![(2, 2)] };
        for (w, h) in sizes {
            let toks = rc(ansi_mini(w, h));
            let ctxs = contexts(emu, w, h);
            for c in ctxs.iter() {
                let wanted = if thorough { true } else { matches!(c.0, "cleared" | "scrollback") };
                if wanted {
                    s.push("triples", emu, w, h, c, &toks, 3, 1);
                }
            }
        }
    }

    if thorough {
        // ---- every screen size 1..=132 x 1..=60, single core tokens + all bytes (ANSI both) and all bytes (others)
        for w in 1..=132 {
            for h in 1..=60 {
                if SIZES_T.contains(&(w, h)) {
                    continue;
                }
                let emu = Emu::Ansi(3);
                let mut t = ansi_core(w, h, 2);
                t.extend(byte_tokens());
                let toks = rc(t);
                let ctxs = contexts(emu, w, h);
                s.push("all sizes", emu, w, h, &ctxs[1], &toks, 1, 1);
                s.push("all sizes", emu, w, h, &ctxs[2], &toks, 1, 1);
            }
        }
        for &emu in &Emu::ALL[4..] {
            let bytes = rc(byte_tokens());
            for w in [1, 2, 3, 39, 40, 41, 79, 80, 81, 131, 132] {
                for h in 1..=60 {
                    let ctxs = contexts(emu, w, h);
                    s.push("all heights", emu, w, h, &ctxs[2], &bytes, 1, 1);
                }
            }
        }
        // ---- all three-byte strings for plain ANSI
        let emu = Emu::Ansi(0);
        let bytes = rc(byte_tokens());
        let ctxs = contexts(emu, 80, 25);
        s.push("bytes^3", emu, 80, 25, &ctxs[0], &bytes, 3, 1);
    }
    s
}

struct CaseView<'a> {
    ctx_name: &'a str,
    emu: Emu,
    w: i32,
    h: i32,
    ctx: &'a [u8],
    tokens: Vec<&'a Token>,
    repeat: u32,
}

fn run_case(prop: &str, c: &CaseView, ctx: &mut Ctx) {
    let c09 = prop == "C09";
    let mut term = Term::new(c.emu, c.w, c.h);
    term.feed_quiet(c.ctx);
    if term.resized {
        return;
    }
    let mut reported: Vec<String> = Vec::new();
    let mut now_bad: Vec<&'static str> = Vec::new();
    if c09 {
        let key = format!("context {}", c.ctx_name);
        monitor(&term, c, &key, 0, 0, &mut reported, &mut now_bad, ctx);
    }
    let mut outcome = Fnv::new();
    let probes = [b'A', b'\n', 0x1b];
    let mut rounds = 0;
    let mut lfs = 0u32;
    'outer: loop {
        for (ti, t) in c.tokens.iter().enumerate() {
            for (bi, &b) in t.bytes.iter().enumerate() {
                let before_y = term.caret.get_position().y;
                let r = term.feed(b);
                match r {
                    Fed::Panic(p) => {
                        outcome.u8(3);
                        if !c09 {
                            let sig = p.signature();
                            if !reported.contains(&sig) {
                                reported.push(sig);
                                ctx.panic(&p, json!({"token": ti, "byte": bi, "token_key": t.key}));
                            }
                        }
                    }
                    Fed::Err => outcome.u8(2),
                    Fed::Ok(_) => outcome.u8(1),
                }
                if term.caret.get_position().y != before_y {
                    lfs += 1;
                }
                if c09 {
                    if term.resized {
                        if c.tokens.iter().all(|t| t.key.starts_with("noresize:")) {
                            ctx.violation(
                                format!("inv:resized-without-request:{}:{}", family(c.emu), c.tokens[0].key.split(" ended by ").nth(1).map(|x| format!("CSI ended by {x}")).unwrap_or_else(|| "text".into())),
                                json!({"emulation": c.emu.name(), "size": [c.w, c.h], "tokens": c.tokens.iter().map(|t| String::from_utf8_lossy(&t.bytes).to_string()).collect::<Vec<_>>(),
                                       "terminal_now": [term.buf.terminal_state.get_width(), term.buf.terminal_state.get_height()]}),
                            );
                        }
                        break 'outer;
                    }
                    monitor(&term, c, &t.key, ti, bi, &mut reported, &mut now_bad, ctx);
                }
            }
        }
        rounds += 1;
        if c.repeat <= 1 || lfs >= c.repeat || rounds >= 4 * c.repeat {
            break;
        }
    }
    // the emulation keeps accepting characters
    if !term.resized {
        for &b in &probes {
            match term.feed(b) {
                Fed::Panic(p) => {
                    outcome.u8(3);
                    if !c09 {
                        let sig = p.signature();
                        if !reported.contains(&sig) {
                            reported.push(sig);
                            ctx.panic(&p, json!({"token": "probe", "byte": b}));
                        }
                    }
                }
                Fed::Err => outcome.u8(2),
                Fed::Ok(_) => outcome.u8(1),
            }
            if c09 && !term.resized {
                let key = format!("probe {b:02x}");
                monitor(&term, c, &key, 99, 0, &mut reported, &mut now_bad, ctx);
            }
        }
    }
    for p in vharness::panics::drain_foreign() {
        // a sixel decode thread panicked: the emulation survived, but it is a panic reachable from a byte stream
        if !c09 {
            let sig = format!("{}@decode-thread", p.signature());
            if !reported.contains(&sig) {
                reported.push(sig.clone());
                ctx.violation(sig, p.to_json());
            }
        }
    }
    ctx.count("evaluations", 1);
    ctx.count("transitions", term.fed);
    if term.errs > 0 || !reported.is_empty() {
        ctx.count("nontrivial", 1);
    }
    let fp = term.fingerprint();
    ctx.state(fp);
    outcome.u64(fp);
    ctx.outcome(outcome.finish());
}

fn monitor(term: &Term, c: &CaseView, key: &str, ti: usize, bi: usize, reported: &mut Vec<String>, now_bad: &mut Vec<&'static str>, ctx: &mut Ctx) {
    use icy_engine::TextPane;
    let w = term.buf.terminal_state.get_width();
    let h = term.buf.terminal_state.get_height();
    let first = term.buf.get_first_visible_line();
    let p = term.caret.get_position();
    let mut bad: Vec<(&'static str, Value)> = Vec::new();
    if p.x < 0 || p.x > (w - 1).max(0) {
        bad.push(("x-range", json!({"x": p.x, "width": w})));
    }
    if p.y < first || p.y > first + (h - 1).max(0) {
        bad.push((if p.y < first { "y-above-window" } else { "y-below-window" }, json!({"y": p.y, "first_visible": first, "height": h})));
    }
    // the screen the cursor is measured against is the one the emulation was started with (monitoring stops after a resize request)
    if w != c.w || h != c.h {
        bad.push(("terminal-size-changed", json!({"terminal": [w, h], "initial": [c.w, c.h]})));
    }
    if c.emu.is_fixed_grid() {
        let sz = term.buf.get_size();
        if sz.width != c.w || sz.height != c.h || term.buf.terminal_state.get_width() != c.w || term.buf.terminal_state.get_height() != c.h {
            bad.push(("fixed-grid-size", json!({"buffer": [sz.width, sz.height], "terminal": [w, h], "initial": [c.w, c.h]})));
        }
    }
    // an invariant is reported at the character where it turns from holding to broken (the token that broke it),
    // not again for every later character that merely inherits the broken state
    let names: Vec<&'static str> = bad.iter().map(|b| b.0).collect();
    let newly: Vec<(&'static str, Value)> = bad.into_iter().filter(|b| !now_bad.contains(&b.0)).collect();
    *now_bad = names;
    for (name, obs) in newly {
        let sig = format!("inv:{name}:{}:{}", family(c.emu), key);
        if !reported.contains(&sig) {
            reported.push(sig.clone());
            let mut o = obs;
            o["after"] = json!({"token": ti, "byte": bi, "token_key": key});
            ctx.violation(sig, o);
        }
    }
}

fn family(e: Emu) -> String {
    match e {
        Emu::Ansi(_) => "ansi".into(),
        _ => e.name(),
    }
}

impl Engine for Stream {
    fn total(&self) -> u64 {
        self.total
    }
    fn run(&mut self, idx: u64, ctx: &mut Ctx) {
        let prop = self.prop.clone();
        let (s, toks) = self.locate(idx);
        let view = CaseView { ctx_name: s.ctx_name, emu: s.emu, w: s.w, h: s.h, ctx: &s.ctx, tokens: toks.iter().map(|&i| &s.tokens[i]).collect(), repeat: s.repeat };
        run_case(&prop, &view, ctx);
    }
    fn describe(&self, idx: u64) -> Value {
        let (s, toks) = self.locate(idx);
        let keys: Vec<String> = toks.iter().map(|&i| s.tokens[i].key.clone()).collect();
        json!({
            "engine": "stream", "stratum": s.name, "emu": s.emu.name(), "size": [s.w, s.h], "context": s.ctx_name,
            "context_bytes": bytes_to_json(&s.ctx), "repeat": s.repeat,
            "tokens": toks.iter().map(|&i| json!({"key": s.tokens[i].key, "bytes": bytes_to_json(&s.tokens[i].bytes)})).collect::<Vec<_>>(),
            "key": format!("{}:{}", family(s.emu), keys.join(" + ")),
        })
    }
    fn replay(&mut self, case: &Value, ctx: &mut Ctx) {
        let emu = Emu::from_name(case["emu"].as_str().unwrap_or("ansi"));
        let w = case["size"][0].as_i64().unwrap_or(80) as i32;
        let h = case["size"][1].as_i64().unwrap_or(25) as i32;
        let cbytes = json_bytes(&case["context_bytes"]);
        let toks: Vec<Token> = case["tokens"]
            .as_array()
            .map(|a| a.iter().map(|t| Token { bytes: json_bytes(&t["bytes"]), key: t["key"].as_str().unwrap_or("?").to_string() }).collect())
            .unwrap_or_default();
        let cname = case["context"].as_str().unwrap_or("?").to_string();
        let view = CaseView { ctx_name: &cname, emu, w, h, ctx: &cbytes, tokens: toks.iter().collect(), repeat: case["repeat"].as_u64().unwrap_or(1) as u32 };
        let prop = self.prop.clone();
        run_case(&prop, &view, ctx);
    }
    fn meta(&self) -> Value {
        // strata summary: name -> (strata, cases)
        let mut m: std::collections::BTreeMap<String, (u64, u64, u64, u32)> = Default::default();
        for s in &self.strata {
            let e = m.entry(format!("{} d={}", s.name, s.depth)).or_insert((0, 0, 0, s.depth));
            e.0 += 1;
            e.1 += s.count;
            e.2 = e.2.max(s.tokens.len() as u64);
        }
        json!({"strata": m.iter().map(|(k, v)| json!({"stratum": k, "instances(emu x size x context)": v.0, "cases": v.1, "max_alphabet": v.2})).collect::<Vec<_>>(),
               "order": "strata are explored in the listed construction order; a capped run is complete below the reported index"})
    }
}

fn main() {
    worker_main(|prop, tier| Box::new(build(prop, tier)));
}
