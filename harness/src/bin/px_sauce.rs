//! C11: SAUCE metadata round trips through every writer that appends SAUCE, and the record (with its
//! comment block and EOF byte) is cut off the content exactly.
//!
//! Part A (metadata): a small document is saved by the real writer with save_sauce and loaded by the real
//! Buffer::from_bytes; the loaded SauceData is compared with what the SAUCE variant of that writer can carry.
//! Part B (split): content bytes C (from the real writers and hand-made, including contents that end in
//! SAUCE / COMNT look-alikes) get EOF + comment block + record appended by a reference SAUCE writer that is
//! transcribed from the SAUCE revision 5 document; the picture loaded from the file must equal the picture
//! loaded from C alone.

use icy_engine::ascii::CP437_TO_UNICODE;
use icy_engine::{BitFont, Buffer, IceMode, SauceData, SauceString, SaveOptions, TextPane, SAUCE_FONT_NAMES};
use std::path::PathBuf;
use vharness::doc::*;
use vharness::{catch, json, worker_main, Ctx, Engine, Fnv, Value};

const FORMATS: [&str; 10] = ["ans", "asc", "avt", "pcb", "bin", "xb", "tnd", "adf", "idf", "icy"];

#[derive(Clone, Copy, PartialEq)]
enum Variant {
    Ansi,
    Ascii,
    Plain, // PCBoard, Avatar, Tundra, XBin: no flags, no font name
    Bin,
}

fn variant(ext: &str) -> Variant {
    match ext {
        "ans" | "adf" | "icy" => Variant::Ansi,
        "asc" => Variant::Ascii,
        "bin" | "idf" => Variant::Bin,
        _ => Variant::Plain,
    }
}

fn cp437(bytes: &[u8]) -> String {
    bytes.iter().map(|b| CP437_TO_UNICODE[*b as usize]).collect()
}

/// what a fixed-width SAUCE field can carry of `bytes`: at most `len` bytes, pad bytes (blank / NUL) at the end are not
/// distinguishable from padding; a zero-terminated field ends at the first NUL
fn carried(bytes: &[u8], len: usize, zero_terminated: bool) -> Vec<u8> {
    let mut v: Vec<u8> = bytes.iter().take(len).copied().collect();
    if zero_terminated {
        if let Some(p) = v.iter().position(|b| *b == 0) {
            v.truncate(p);
        }
    }
    while matches!(v.last(), Some(0) | Some(b' ')) {
        v.pop();
    }
    v
}

fn string_class(len: usize, class: usize) -> Vec<u8> {
    let letters = |n: usize| -> Vec<u8> { (0..n).map(|i| b'a' + (i % 26) as u8).collect() };
    let mut v = letters(len);
    match class {
        0 => {}
        1 => {
            if let Some(l) = v.last_mut() {
                *l = b' ';
            }
        }
        2 => {
            let n = v.len();
            for b in v.iter_mut().skip(n.saturating_sub(2)) {
                *b = 0;
            }
        }
        3 => {
            if len > 2 {
                v[len / 2] = 0;
            }
        }
        4 => {
            if len > 0 {
                v[0] = b' ';
            }
        }
        5 => {
            let hi: Vec<u8> = (0..len).map(|i| [0x80u8, 0x9B, 0xE1, 0xFE, 0x01, 0x1F, 0x7F, 0xDB][i % 8]).collect();
            v = hi;
        }
        _ => v = vec![b' '; len],
    }
    v
}
const CLASSES: [&str; 7] = ["letters", "trailing blank", "trailing NULs", "inner NUL", "leading blank", "high CP437 / control glyphs", "all blanks"];

#[derive(Clone, Debug)]
struct Meta {
    title: Vec<u8>,
    author: Vec<u8>,
    group: Vec<u8>,
    comments: Vec<Vec<u8>>,
    ice: bool,
    spacing: bool,
    aspect: bool,
    font: Option<usize>,
    width: i32,
    /// the document has no font in slot 0: its only font sits in slot 1 and every cell uses page 1
    no_slot0: bool,
    /// the attached record disagrees with the buffer about ice colours (a record loaded earlier, then the mode was changed): what is saved describes the buffer
    stale_record: bool,
}

impl Meta {
    fn base() -> Meta {
        Meta { title: b"Title".to_vec(), author: b"Author".to_vec(), group: b"Group".to_vec(), comments: vec![], ice: false, spacing: false, aspect: false, font: None, width: 80, no_slot0: false, stale_record: false }
    }
    fn json(&self) -> Value {
        json!({"title": cp437(&self.title), "title_bytes": self.title, "author": cp437(&self.author), "group": cp437(&self.group), "comments": self.comments.len(),
               "first_comment": self.comments.first().map(|c| cp437(c)), "ice": self.ice, "letter_spacing": self.spacing, "aspect_ratio": self.aspect,
               "font": self.font.map(|f| SAUCE_FONT_NAMES[f]), "width": self.width, "no_font_in_slot_0": self.no_slot0, "record_disagrees_with_buffer_about_ice": self.stale_record})
    }
}

fn comment_text(i: usize, n: usize) -> Vec<u8> {
    // lengths cycle through 0..=64, some lines carry marker look-alikes and the EOF byte
    let len = (i * 7 + n) % 65;
    let mut v: Vec<u8> = (0..len).map(|k| b'!' + ((i + k) % 90) as u8).collect();
    match i % 11 {
        3 if len >= 7 => v[..7].copy_from_slice(b"SAUCE00"),
        5 if len >= 5 => v[..5].copy_from_slice(b"COMNT"),
        7 if len >= 1 => v[len - 1] = 0x1A,
        _ => {}
    }
    v
}

/// ADF and IDF files are ice colour files by definition (their writers refuse anything else)
fn doc_ice(ext: &str, m: &Meta) -> bool {
    m.ice || matches!(ext, "adf" | "idf")
}

fn build_doc(ext: &str, m: &Meta) -> Buffer {
    let h = 2;
    let mut b = new_buffer(m.width, h, if doc_ice(ext, m) { IceMode::Ice } else { IceMode::Blink });
    // text up to the last cell of the last row: a lost content byte shows
    for y in 0..h {
        for x in 0..m.width {
            let c = Cell::new((b'A' as i32 + (x + y) % 26) as u32, (1 + (x % 7)) as u32, ((x / 3) % 8) as u32);
            put(&mut b, x, y, &c);
        }
    }
    if let Some(f) = m.font {
        b.set_font(0, BitFont::from_sauce_name(SAUCE_FONT_NAMES[f]).unwrap());
    }
    if m.no_slot0 {
        b.clear_font_table();
        b.set_font(1, BitFont::default());
        for l in b.layers.iter_mut() {
            for line in l.lines.iter_mut() {
                for c in line.chars.iter_mut() {
                    c.attribute.set_font_page(1);
                }
            }
        }
    }
    let mut d = SauceData::default();
    d.title = SauceString::from(cp437(&m.title));
    d.author = SauceString::from(cp437(&m.author));
    d.group = SauceString::from(cp437(&m.group));
    for c in &m.comments {
        d.comments.push(SauceString::from(cp437(c)));
    }
    d.use_ice = doc_ice(ext, m) != m.stale_record;
    d.use_letter_spacing = m.spacing;
    d.use_aspect_ratio = m.aspect;
    d.buffer_size = b.get_size();
    b.set_sauce(Some(d), false);
    let _ = ext;
    b
}

fn save(b: &Buffer, ext: &str, sauce: bool) -> Result<Vec<u8>, String> {
    let mut o = SaveOptions::new();
    o.save_sauce = sauce;
    o.compress = false;
    match catch(|| b.to_bytes(ext, &o)) {
        Ok(Ok(v)) => Ok(v),
        Ok(Err(e)) => Err(format!("save error: {e}")),
        Err(p) => Err(format!("PANIC {}", p.signature())),
    }
}

fn load(ext: &str, bytes: &[u8]) -> Result<Buffer, String> {
    match catch(|| Buffer::from_bytes(&PathBuf::from(format!("x.{ext}")), false, bytes)) {
        Ok(Ok(v)) => Ok(v),
        Ok(Err(e)) => Err(format!("load error: {e}")),
        Err(p) => Err(format!("PANIC {}", p.signature())),
    }
}

struct Picture {
    w: i32,
    h: i32,
    cells: Vec<Shown>,
}

fn picture(b: &Buffer) -> Picture {
    let (w, h) = (b.get_width(), b.get_height());
    let mut cells = Vec::with_capacity((w * h).max(0) as usize);
    for y in 0..h {
        for x in 0..w {
            cells.push(shown(b, x, y));
        }
    }
    Picture { w, h, cells }
}

fn blank(s: &Shown) -> bool {
    !s.visible || (matches!(s.ch, 0 | 32 | 255) && s.bg == (0, 0, 0))
}

/// equal pictures: same width, same cells; the taller one may only have blank rows more
fn same_picture(a: &Picture, b: &Picture) -> Option<Value> {
    if a.w != b.w {
        return Some(json!({"kind": "width", "content_alone": a.w, "with_sauce": b.w}));
    }
    let h = a.h.min(b.h);
    for y in 0..h {
        for x in 0..a.w {
            let (p, q) = (&a.cells[(y * a.w + x) as usize], &b.cells[(y * b.w + x) as usize]);
            if p != q && !(blank(p) && blank(q)) {
                return Some(json!({"kind": "cell", "x": x, "y": y, "content_alone": shown_json(p), "with_sauce": shown_json(q)}));
            }
        }
    }
    let (t, name) = if a.h > b.h { (a, "content_alone") } else { (b, "with_sauce") };
    for y in h..t.h {
        for x in 0..t.w {
            if !blank(&t.cells[(y * t.w + x) as usize]) {
                return Some(json!({"kind": "extra-row", "x": x, "y": y, "only_in": name, "cell": shown_json(&t.cells[(y * t.w + x) as usize])}));
            }
        }
    }
    None
}

// ---------------------------------------------------------------- reference SAUCE writer (SAUCE rev. 5)

struct RefSauce {
    data_type: u8,
    file_type: u8,
    t1: u16,
    t2: u16,
    flags: u8,
    comments: Vec<Vec<u8>>,
    tinfos: Vec<u8>,
}

fn ref_append(content: &[u8], s: &RefSauce) -> Vec<u8> {
    let mut v = content.to_vec();
    v.push(0x1A);
    if !s.comments.is_empty() {
        v.extend(b"COMNT");
        for c in &s.comments {
            let mut l = c.clone();
            l.resize(64, b' ');
            v.extend(l);
        }
    }
    v.extend(b"SAUCE00");
    let pad = |s: &[u8], n: usize| {
        let mut x = s.to_vec();
        x.resize(n, b' ');
        x
    };
    v.extend(pad(b"reference title", 35));
    v.extend(pad(b"reference author", 20));
    v.extend(pad(b"reference group", 20));
    v.extend(b"20240229");
    v.extend((content.len() as u32).to_le_bytes());
    v.push(s.data_type);
    v.push(s.file_type);
    v.extend(s.t1.to_le_bytes());
    v.extend(s.t2.to_le_bytes());
    v.extend(0u16.to_le_bytes());
    v.extend(0u16.to_le_bytes());
    v.push(s.comments.len() as u8);
    v.push(s.flags);
    let mut t = s.tinfos.clone();
    t.resize(22, 0);
    v.extend(t);
    v
}

/// SAUCE data type / file type of the variant a format's files carry
fn type_of(ext: &str, width: i32) -> (u8, u8) {
    match ext {
        "ans" | "adf" | "icy" => (1, 1),
        "asc" => (1, 0),
        "pcb" => (1, 4),
        "avt" => (1, 5),
        "tnd" => (1, 8),
        "bin" | "idf" => (5, (width / 2) as u8),
        "xb" => (6, 0),
        _ => (0, 0),
    }
}

// ---------------------------------------------------------------- jobs

#[derive(Clone)]
enum Job {
    Meta(usize, String, Meta),          // format, varied dimension, metadata
    Split(usize, usize, usize, usize),  // format, content index, comment count, comment style
    /// a file with SAUCE saved in one format, loaded, saved in another format, loaded: the second record is of the second format's variant
    Cross(usize, usize, bool),
}

struct Sauce {
    jobs: Vec<Job>,
    contents: Vec<Vec<(String, Vec<u8>)>>, // per format
}

fn contents_for(ext: &str) -> Vec<(String, Vec<u8>)> {
    let mut v: Vec<(String, Vec<u8>)> = Vec::new();
    let m = Meta::base();
    let doc = build_doc(ext, &m);
    let written = save(&doc, ext, false).unwrap_or_default();
    v.push(("document written by the engine (text up to the last cell)".into(), written.clone()));
    if ext == "icy" {
        return v; // the SAUCE record of an IcyDraw file lives in a chunk, not behind the content
    }
    let stream = matches!(ext, "ans" | "asc" | "avt" | "pcb");
    if stream {
        let raw: Vec<(&str, Vec<u8>)> = vec![
            ("empty content", vec![]),
            ("one character", b"A".to_vec()),
            ("two lines without final line break", b"abc\r\ndef".to_vec()),
            ("content ending in CR LF", b"abc\r\n".to_vec()),
            ("content ending in the EOF byte", b"abc\x1a".to_vec()),
            ("content ending in SAUCE00", b"abc SAUCE00".to_vec()),
            ("content ending in COMNT", b"abc COMNT".to_vec()),
            ("content ending in EOF SAUCE", b"abc\x1aSAUCE".to_vec()),
            ("content is 128 x", vec![b'x'; 128]),
            ("content is 127 x", vec![b'x'; 127]),
            ("content is 129 x", vec![b'x'; 129]),
            ("content is 64 x after COMNT", { let mut c = b"COMNT".to_vec(); c.extend(vec![b'y'; 64]); c }),
            ("content of exactly 80 characters", vec![b'z'; 80]),
        ];
        for (n, c) in raw {
            v.push((n.to_string(), c));
        }
        if ext == "ans" {
            v.push(("cursor jump below the first screen".into(), b"\x1b[40;1HX".to_vec()));
            v.push(("text, cursor down 30 lines, text".into(), b"A\x1b[30BX".to_vec()));
            v.push(("two lines, cursor home, text, scroll up".into(), b"line1\r\nline2\x1b[1;1HZ\x1b[2S".to_vec()));
            v.push(("margins set from the screen height".into(), b"a\r\nb\r\nc\x1b[2;99r\x1b[99;1Hd\r\ne\r\nf".to_vec()));
            // commands that work on "the rest of the screen" / "the last line": what they reach must not depend on a declared height
            v.push(("erase down in colour".into(), b"\x1b[44m\x1b[J".to_vec()));
            v.push(("one line, then erase to end of line in colour on the second".into(), b"A\r\n\x1b[44m\x1b[K".to_vec()));
            v.push(("three lines, scroll up one".into(), b"A\r\nB\r\nC\x1b[1S".to_vec()));
            v.push(("three lines, insert a line at the top".into(), b"A\r\nB\r\nC\x1b[1;1H\x1b[L".to_vec()));
            v.push(("text on line 30 after 29 line feeds".into(), [vec![b'\n'; 29], b"X".to_vec()].concat()));
        }
        if ext == "avt" {
            v.push(("cursor jump below the first screen".into(), b"\x16\x08\x28\x01X".to_vec()));
        }
        // a complete SAUCE record inside the content (a file that already had one)
        let inner = ref_append(b"inner", &RefSauce { data_type: 1, file_type: 1, t1: 80, t2: 1, flags: 0, comments: vec![b"inner comment".to_vec()], tinfos: vec![] });
        let mut c = inner.clone();
        c.extend(b"\r\nouter");
        v.push(("content that contains a complete SAUCE record followed by text".into(), c));
    } else {
        // binary formats: the engine's own file with a tail that looks like markers replaces the last row's bytes
        for (name, tail) in [("SAUCE00", &b"SAUCE00"[..]), ("COMNT", &b"COMNT"[..]), ("EOF byte", &b"\x1a"[..]), ("EOF SAUCE00", &b"\x1aSAUCE00"[..])] {
            if written.len() > tail.len() + 200 && matches!(ext, "bin" | "xb" | "adf") {
                let mut c = written.clone();
                let n = c.len();
                c[n - tail.len()..].copy_from_slice(tail);
                v.push((format!("engine document whose last bytes are {name}"), c));
            }
        }
    }
    v
}

fn build(_prop: &str, tier: &str) -> Sauce {
    let thorough = tier == "thorough";
    let mut jobs = Vec::new();
    let mut contents = Vec::new();
    for (fi, ext) in FORMATS.iter().enumerate() {
        // --- strings
        for (field, max) in [("title", 35usize), ("author", 20), ("group", 20)] {
            for len in (0..=max).chain([max + 1, max + 5]) {
                for class in 0..CLASSES.len() {
                    let mut m = Meta::base();
                    let s = string_class(len, class);
                    match field {
                        "title" => m.title = s,
                        "author" => m.author = s,
                        _ => m.group = s,
                    }
                    jobs.push(Job::Meta(fi, format!("{field} length {len} ({})", CLASSES[class]), m));
                }
            }
        }
        // --- comments: every count 0..=255
        for n in 0..=255usize {
            let mut m = Meta::base();
            m.comments = (0..n).map(|i| comment_text(i, n)).collect();
            jobs.push(Job::Meta(fi, format!("{n} comments"), m));
        }
        // comment line lengths 0..=64 and over-long, each class, as the only / the last of 2 comments
        for len in (0..=64usize).chain([65, 70]) {
            for class in 0..CLASSES.len() {
                for before in 0..2usize {
                    let mut m = Meta::base();
                    m.comments = (0..before).map(|_| b"first line".to_vec()).collect();
                    m.comments.push(string_class(len, class));
                    jobs.push(Job::Meta(fi, format!("comment length {len} ({}) after {before} lines", CLASSES[class]), m));
                }
            }
        }
        // --- flags x fonts
        for flags in 0..8u8 {
            for font in std::iter::once(None).chain((0..SAUCE_FONT_NAMES.len()).map(Some)) {
                let mut m = Meta::base();
                m.ice = flags & 1 != 0;
                m.spacing = flags & 2 != 0;
                m.aspect = flags & 4 != 0;
                m.font = font;
                jobs.push(Job::Meta(fi, format!("flags {flags:03b} font {font:?}"), m.clone()));
                if font.is_none() {
                    m.stale_record = true;
                    jobs.push(Job::Meta(fi, format!("flags {flags:03b} with an attached record that says the opposite about ice colours"), m));
                }
            }
        }
        // --- a font table without slot 0
        {
            let mut m = Meta::base();
            m.no_slot0 = true;
            m.comments = vec![b"c".to_vec()];
            jobs.push(Job::Meta(fi, "font table without slot 0".into(), m));
        }
        // --- widths
        let step = if thorough { 1 } else { 1 };
        for w in (1..=1000).step_by(step) {
            let ok = match *ext {
                "adf" => w == 80,
                "idf" => w <= 510, // the format itself stops there
                "bin" => w <= 510 || w % 97 == 0,
                _ => true,
            };
            if ok {
                let mut m = Meta::base();
                m.width = w;
                if w % 5 == 0 {
                    m.comments = vec![b"c".to_vec(); (w % 4) as usize];
                }
                jobs.push(Job::Meta(fi, format!("width {w}"), m));
            }
        }
        // --- split (the SAUCE record of an IcyDraw file lives in a chunk, there is nothing behind the content)
        let cs = if *ext == "icy" { vec![] } else { contents_for(ext) };
        for ci in 0..cs.len() {
            let counts: Vec<usize> = if ci == 0 || thorough { (0..=255).collect() } else { vec![0, 1, 2, 3, 254, 255] };
            for n in counts {
                for style in 0..2 {
                    jobs.push(Job::Split(fi, ci, n, style));
                }
            }
            // the record declares another height than the content has (taller, one line): the height is not one of the settings
            // the statement lets the picture depend on
            for n in [0usize, 1] {
                for style in [2usize, 3] {
                    jobs.push(Job::Split(fi, ci, n, style));
                }
            }
        }
        contents.push(cs);
    }
    for a in 0..FORMATS.len() {
        for b in 0..FORMATS.len() {
            if a != b {
                for ice in [false, true] {
                    jobs.push(Job::Cross(a, b, ice));
                }
            }
        }
    }
    Sauce { jobs, contents }
}

fn check_meta(ext: &str, what: &str, m: &Meta, ctx: &mut Ctx) {
    ctx.count("evaluations", 1);
    ctx.count("transitions", 2);
    ctx.count("nontrivial", 1);
    let doc = build_doc(ext, m);
    let bytes = match save(&doc, ext, true) {
        Ok(b) => b,
        Err(e) => {
            if e.starts_with("PANIC") {
                ctx.violation(format!("{}:save:{ext}", e.replace("PANIC ", "")), json!({"format": ext, "varied": what, "meta": m.json()}));
            } else if ext == "bin" && (m.width % 2 != 0 || m.width > 510) {
                // the BinaryText record stores width / 2 in one byte: the writer has to refuse what it cannot carry
                // (an iCE Draw file carries its width in its own header: every width it can hold can be saved with SAUCE)
                ctx.count("variant_cannot_carry_width(refused by the writer)", 1);
                ctx.outcome(4);
            } else if save(&doc, ext, false).is_err() {
                // the format itself can't hold this document (e.g. ADF / IDF and fonts that are not 8x16): not a SAUCE matter
                ctx.count("format_refuses_document", 1);
                ctx.outcome(3);
            } else {
                ctx.violation(format!("diff:sauce:{ext}:save-refused"), json!({"format": ext, "varied": what, "meta": m.json(), "error": e}));
            }
            return;
        }
    };
    let got = match load(ext, &bytes) {
        Ok(b) => b,
        Err(e) => {
            let sig = if e.starts_with("PANIC") { format!("{}:load:{ext}", e.replace("PANIC ", "")) } else { format!("diff:sauce:{ext}:load-refused-own-output") };
            ctx.violation(sig, json!({"format": ext, "varied": what, "meta": m.json(), "error": e}));
            return;
        }
    };
    let mut f = Fnv::new();
    f.str(ext);
    f.u64(bytes.len() as u64);
    f.bytes(&bytes[bytes.len().saturating_sub(128 + 70)..]);
    ctx.state(f.finish());
    let field = what.split(' ').next().unwrap_or("");
    let Some(s) = got.get_sauce() else {
        ctx.violation(format!("diff:sauce:{ext}:metadata-missing-after-load"), json!({"format": ext, "varied": what, "meta": m.json()}));
        return;
    };
    let v = variant(ext);
    let mut diffs: Vec<(String, Value)> = Vec::new();
    for (name, got_empty, want, raw) in [("title", s.title.is_empty(), carried(&m.title, 35, false), &m.title), ("author", s.author.is_empty(), carried(&m.author, 20, false), &m.author), ("group", s.group.is_empty(), carried(&m.group, 20, false), &m.group)] {
        // (a field made of NUL bytes is stored as such: whether that counts as empty is not something the statement fixes)
        if want.is_empty() != got_empty && !raw.contains(&0) {
            diffs.push((format!("{name}-emptiness"), json!({"loaded_is_empty": got_empty, "expected_bytes": want})));
        }
    }
    let mut cmp = |name: &str, got: String, want: Vec<u8>| {
        if got != cp437(&want) {
            diffs.push((name.to_string(), json!({"loaded": got, "expected": cp437(&want), "expected_bytes": want})));
        }
    };
    cmp("title", s.title.to_string(), carried(&m.title, 35, false));
    cmp("author", s.author.to_string(), carried(&m.author, 20, false));
    cmp("group", s.group.to_string(), carried(&m.group, 20, false));
    if s.comments.len() != m.comments.len() {
        diffs.push(("comment-count".into(), json!({"loaded": s.comments.len(), "expected": m.comments.len()})));
    } else {
        for (i, (g, w)) in s.comments.iter().zip(m.comments.iter()).enumerate() {
            if g.to_string() != cp437(&carried(w, 64, true)) {
                diffs.push(("comment".into(), json!({"line": i, "loaded": g.to_string(), "expected": cp437(&carried(w, 64, true))})));
                break;
            }
        }
    }
    // width: every variant carries it
    if s.buffer_size.width != m.width {
        diffs.push(("width".into(), json!({"loaded": s.buffer_size.width, "expected": m.width})));
    }
    if got.get_width() != m.width {
        diffs.push(("buffer-width".into(), json!({"loaded": got.get_width(), "expected": m.width})));
    }
    if matches!(v, Variant::Ansi | Variant::Ascii | Variant::Bin) {
        if s.use_ice != doc_ice(ext, m) {
            diffs.push(("ice-flag".into(), json!({"loaded": s.use_ice, "expected": doc_ice(ext, m)})));
        }
        if doc_ice(ext, m) && got.ice_mode != IceMode::Ice {
            diffs.push(("buffer-ice-mode".into(), json!({"loaded": ice_name(got.ice_mode), "expected": "ice"})));
        }
        if let Some(fi) = m.font {
            let want = SAUCE_FONT_NAMES[fi];
            if s.font_opt.as_deref() != Some(want) {
                diffs.push(("font-name".into(), json!({"loaded": s.font_opt, "expected": want})));
            }
        }
    }
    // letter spacing and aspect ratio are part of ANSiFlags, which the Character/ANSi, Character/ASCII and BinaryText variants carry
    if matches!(v, Variant::Ansi | Variant::Ascii | Variant::Bin) {
        if s.use_letter_spacing != m.spacing {
            diffs.push(("letter-spacing".into(), json!({"loaded": s.use_letter_spacing, "expected": m.spacing})));
        }
        if s.use_aspect_ratio != m.aspect {
            diffs.push(("aspect-ratio".into(), json!({"loaded": s.use_aspect_ratio, "expected": m.aspect})));
        }
    }
    if let Some((name, d)) = diffs.into_iter().next() {
        ctx.violation(format!("diff:sauce:{ext}:{name}:{}", if name == field || field == "flags" || field == "width" { "direct" } else { field }), json!({"format": ext, "varied": what, "meta": m.json(), "difference": d}));
        return;
    }
    // second generation: the loaded file (record attached by the loader) is saved and loaded again
    if !m.stale_record {
        if let Ok(bytes2) = save(&got, ext, true) {
            ctx.count("transitions", 2);
            ctx.count("second_generation", 1);
            match load(ext, &bytes2) {
                Ok(again) => {
                    let same = match (got.get_sauce(), again.get_sauce()) {
                        (Some(a), Some(b)) => {
                            a.title.to_string() == b.title.to_string()
                                && a.author.to_string() == b.author.to_string()
                                && a.group.to_string() == b.group.to_string()
                                && a.comments.iter().map(|c| c.to_string()).collect::<Vec<_>>() == b.comments.iter().map(|c| c.to_string()).collect::<Vec<_>>()
                                && a.buffer_size.width == b.buffer_size.width
                                && a.use_ice == b.use_ice
                                && a.use_letter_spacing == b.use_letter_spacing
                                && a.use_aspect_ratio == b.use_aspect_ratio
                                && (m.font.is_none() || !matches!(ext, "ans" | "asc" | "bin") || a.font_opt == b.font_opt) // formats that embed a font name it themselves on load
                        }
                        _ => false,
                    };
                    if !same || again.get_width() != got.get_width() {
                        ctx.violation(format!("diff:sauce:{ext}:second-generation"), json!({"format": ext, "varied": what, "meta": m.json()}));
                        return;
                    }
                }
                Err(e) => {
                    let sig = if e.starts_with("PANIC") { format!("{}:second-generation:{ext}", e.replace("PANIC ", "")) } else { format!("diff:sauce:{ext}:second-generation-refused") };
                    ctx.violation(sig, json!({"format": ext, "varied": what, "meta": m.json(), "error": e}));
                    return;
                }
            }
        }
    }
    // a loaded file whose font is changed afterwards: the record written next names the font the document has now
    if m.font.is_some() && matches!(ext, "ans" | "asc" | "bin") {
        for other in [0usize, 3] {
            if Some(other) == m.font {
                continue;
            }
            let mut edited = got.flat_clone(true);
            if let Some(s) = got.get_sauce() {
                edited.set_sauce(Some(s.clone()), false);
            }
            edited.set_font(0, BitFont::from_sauce_name(SAUCE_FONT_NAMES[other]).unwrap());
            if let Ok(b3) = save(&edited, ext, true) {
                ctx.count("transitions", 2);
                if let Ok(third) = load(ext, &b3) {
                    let name = third.get_sauce().as_ref().and_then(|s| s.font_opt.clone());
                    if name.as_deref() != Some(SAUCE_FONT_NAMES[other]) {
                        ctx.violation(format!("diff:sauce:{ext}:font-name-after-font-change"), json!({"format": ext, "varied": what, "loaded_with": SAUCE_FONT_NAMES[m.font.unwrap()], "font_set_to": SAUCE_FONT_NAMES[other], "record_names": name}));
                        return;
                    }
                }
            }
        }
    }
    // the picture: equal to the same document saved without SAUCE, when the record only restates the loader defaults
    // (the defaults are read off the content loaded alone: e.g. 160 columns for .bin, ice colours for .idf)
    if m.font.is_none() && ext != "icy" {
        if let Ok(c) = save(&doc, ext, false) {
            if let Ok(alone) = load(ext, &c) {
                if alone.get_width() != m.width || (alone.ice_mode == IceMode::Ice) != doc_ice(ext, m) {
                    return;
                }
                ctx.count("picture_comparisons", 1);
                if let Some(d) = same_picture(&picture(&alone), &picture(&got)) {
                    ctx.violation(format!("diff:sauce:{ext}:picture:{}", d["kind"].as_str().unwrap_or("")), json!({"format": ext, "varied": what, "meta": m.json(), "difference": d}));
                }
            }
        }
    }
}

fn check_cross(src: &str, dst: &str, ice: bool, ctx: &mut Ctx) {
    ctx.count("evaluations", 1);
    ctx.count("transitions", 4);
    let mut m = Meta::base();
    m.ice = ice;
    m.comments = vec![b"first".to_vec(), b"second line".to_vec()];
    m.spacing = true;
    let what = json!({"saved_as": src, "then_saved_as": dst, "ice": ice});
    let doc = build_doc(src, &m);
    let Ok(first) = save(&doc, src, true) else {
        ctx.outcome(3);
        return;
    };
    let mid = match load(src, &first) {
        Ok(b) => b,
        Err(e) => {
            if e.starts_with("PANIC") {
                ctx.violation(format!("{}:cross-load:{src}", e.replace("PANIC ", "")), what);
            }
            return;
        }
    };
    if mid.get_sauce().is_none() {
        return; // reported by the metadata part
    }
    let second = match save(&mid, dst, true) {
        Ok(b) => b,
        Err(e) => {
            if e.starts_with("PANIC") {
                ctx.violation(format!("{}:cross-save:{dst}", e.replace("PANIC ", "")), what);
            } else {
                // the second format can't hold the picture (width, colour mode, font): not a SAUCE matter
                ctx.count("format_refuses_document", 1);
                ctx.outcome(3);
            }
            return;
        }
    };
    let fin = match load(dst, &second) {
        Ok(b) => b,
        Err(e) => {
            let sig = if e.starts_with("PANIC") { format!("{}:cross-load:{dst}", e.replace("PANIC ", "")) } else { format!("diff:sauce-cross:{dst}:load-refused-own-output") };
            ctx.violation(sig, json!({"case": what, "error": e}));
            return;
        }
    };
    ctx.count("nontrivial", 1);
    let mut f = Fnv::new();
    f.str(src);
    f.str(dst);
    f.bytes(&second[second.len().saturating_sub(128)..]);
    ctx.state(f.finish());
    let Some(s) = fin.get_sauce() else {
        ctx.violation(format!("diff:sauce-cross:{dst}:metadata-missing"), what);
        return;
    };
    let mut diff: Option<(&str, Value)> = None;
    if s.title.to_string() != "Title" || s.author.to_string() != "Author" || s.group.to_string() != "Group" {
        diff = Some(("strings", json!([s.title.to_string(), s.author.to_string(), s.group.to_string()])));
    } else if s.comments.iter().map(|c| c.to_string()).collect::<Vec<_>>() != vec!["first".to_string(), "second line".to_string()] {
        diff = Some(("comments", json!(s.comments.iter().map(|c| c.to_string()).collect::<Vec<_>>())));
    } else if s.buffer_size.width != mid.get_width() {
        diff = Some(("width", json!({"loaded": s.buffer_size.width, "saved_buffer": mid.get_width()})));
    } else if matches!(variant(dst), Variant::Ansi | Variant::Ascii | Variant::Bin) && s.use_ice != (mid.ice_mode == IceMode::Ice) {
        // the record describes the buffer that was saved
        diff = Some(("ice-flag", json!({"loaded": s.use_ice, "saved_buffer_mode": ice_name(mid.ice_mode)})));
    }
    if let Some((k, d)) = diff {
        ctx.violation(format!("diff:sauce-cross:{dst}:{k}"), json!({"case": what, "difference": d}));
    }
}

fn check_split(ext: &str, cname: &str, content: &[u8], n: usize, style: usize, ctx: &mut Ctx) {
    ctx.count("evaluations", 1);
    ctx.count("transitions", 2);
    let alone = match load(ext, content) {
        Ok(b) => b,
        Err(e) => {
            if e.starts_with("PANIC") {
                ctx.violation(format!("{}:load-content:{ext}", e.replace("PANIC ", "")), json!({"format": ext, "content": cname}));
            }
            ctx.outcome(2);
            return; // the content alone is not a loadable file: nothing to compare
        }
    };
    ctx.count("nontrivial", 1);
    let pa = picture(&alone);
    let (dt, ft) = type_of(ext, pa.w);
    let comments: Vec<Vec<u8>> = (0..n)
        .map(|i| match style {
            0 | 2 | 3 => comment_text(i, n),
            _ => {
                // comment lines made of marker look-alikes
                let mut l = if i % 2 == 0 { b"SAUCE00".to_vec() } else { b"COMNT".to_vec() };
                l.push(0x1A);
                l
            }
        })
        .collect();
    let t2 = match style {
        2 => pa.h + 40,
        3 => 1,
        _ => pa.h,
    };
    let rec = RefSauce { data_type: dt, file_type: ft, t1: pa.w as u16, t2: t2 as u16, flags: if alone.ice_mode == IceMode::Ice && dt != 6 && !(dt == 1 && ft > 2) { 1 } else { 0 }, comments, tinfos: vec![] };
    let file = ref_append(content, &rec);
    let mut f = Fnv::new();
    f.str(ext);
    f.str(cname);
    f.u64(n as u64);
    f.u64(style as u64);
    ctx.state(f.finish());
    let with = match load(ext, &file) {
        Ok(b) => b,
        Err(e) => {
            let sig = if e.starts_with("PANIC") { format!("{}:load-with-sauce:{ext}", e.replace("PANIC ", "")) } else { format!("diff:split:{ext}:load-refused-with-sauce") };
            ctx.violation(sig, json!({"format": ext, "content": cname, "comments": n, "comment_style": style, "error": e}));
            return;
        }
    };
    ctx.outcome(1);
    match with.get_sauce() {
        None if ext != "idf" || true => {
            ctx.violation(format!("diff:split:{ext}:record-not-recognised"), json!({"format": ext, "content": cname, "comments": n, "comment_style": style}));
            return;
        }
        Some(s) => {
            if s.comments.len() != n || s.title.to_string() != "reference title" {
                ctx.violation(format!("diff:split:{ext}:record-misread"), json!({"format": ext, "content": cname, "comments": n, "loaded_comments": s.comments.len(), "title": s.title.to_string()}));
                return;
            }
        }
        _ => {}
    }
    if let Some(d) = same_picture(&pa, &picture(&with)) {
        let class = if content.is_empty() { "empty-content" } else if cname.starts_with("document") { "engine-document" } else { "marker-like-content" };
        ctx.violation(format!("diff:split:{ext}:picture-{}:{class}", d["kind"].as_str().unwrap_or("")), json!({"format": ext, "content": cname, "content_len": content.len(), "comments": n, "comment_style": style, "difference": d}));
    }
}

impl Engine for Sauce {
    fn total(&self) -> u64 {
        self.jobs.len() as u64
    }
    fn run(&mut self, idx: u64, ctx: &mut Ctx) {
        match &self.jobs[idx as usize] {
            Job::Meta(fi, what, m) => check_meta(FORMATS[*fi], what, m, ctx),
            Job::Split(fi, ci, n, style) => {
                let (name, c) = &self.contents[*fi][*ci];
                check_split(FORMATS[*fi], name, c, *n, *style, ctx)
            }
            Job::Cross(a, b, ice) => check_cross(FORMATS[*a], FORMATS[*b], *ice, ctx),
        }
    }
    fn describe(&self, idx: u64) -> Value {
        match &self.jobs[idx as usize] {
            Job::Meta(fi, what, m) => json!({"engine": "sauce-metadata", "idx": idx, "format": FORMATS[*fi], "varied": what, "meta": m.json(), "key": format!("sauce-metadata {}", FORMATS[*fi])}),
            Job::Cross(a, b, ice) => json!({"engine": "sauce-cross", "idx": idx, "saved_as": FORMATS[*a], "then_saved_as": FORMATS[*b], "ice": ice, "key": format!("sauce-cross {}", FORMATS[*b])}),
            Job::Split(fi, ci, n, style) => json!({"engine": "sauce-split", "idx": idx, "format": FORMATS[*fi], "content": self.contents[*fi][*ci].0, "comments": n, "comment_style": style, "key": format!("sauce-split {}", FORMATS[*fi])}),
        }
    }
    fn replay(&mut self, case: &Value, ctx: &mut Ctx) {
        self.run(case["idx"].as_u64().unwrap_or(0), ctx)
    }
    fn meta(&self) -> Value {
        let mut dup = Vec::new();
        for a in 0..256usize {
            for b in 0..a {
                if CP437_TO_UNICODE[a] == CP437_TO_UNICODE[b] {
                    dup.push(json!([b, a]));
                }
            }
        }
        json!({"formats": FORMATS, "string_classes": CLASSES, "jobs": self.jobs.len(), "contents_per_format": self.contents.iter().map(|c| c.len()).collect::<Vec<_>>(), "cp437_duplicates": dup})
    }
}

fn main() {
    worker_main(|prop, tier| Box::new(build(prop, tier)));
}
