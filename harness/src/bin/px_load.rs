//! C02: no file content can crash a loader (fault enumeration over files), and the file-header part of C03
//! (same header-extreme strata under the CPU / peak-heap oracle).

use icy_engine::{BitFont, Buffer, Layer, Palette, PaletteFormat, SauceData, TheDrawFont};
use std::path::PathBuf;
use vharness::alloc;
use vharness::emu::{ansi_core, ansi_mini, native_tokens, Emu};
use vharness::fault::*;
use vharness::worker::{process_cpu_ns, restart_case_clock};
use vharness::{bytes_to_json, catch, json, json_bytes, worker_main, Ctx, Engine, Fnv, Value};

const EXTS: [&str; 24] = [
    "ans", "ice", "diz", "icy", "idf", "bin", "xb", "tnd", "pcb", "avt", "asc", "adf", "msg", "an1", "an5", "an9", "seq", "ata", "xyz", "ANS", "Xb", "txt", "nfo", "",
];

const CPU_LIMIT_NS: u64 = 500_000_000;
const MEM_LIMIT: usize = 64 << 20;

#[derive(Clone)]
enum Target {
    File(String), // file name
    Font,
    Tdf,
    Palettes,
    Sauce,
    Clipboard,
}

struct Case {
    target: Target,
    bytes: Vec<u8>,
    key: String,
    desc: String,
}

enum Stratum {
    /// seed x fault
    SeedFaults { seed: usize, faults: Vec<Fault> },
    /// every prefix (<= 64 bytes) of seed under every extension
    ShortUnderAllExts { seed: usize },
    /// all strings of length <= 2: first byte (or none) fixed per case, all second bytes, all targets
    TwoBytes,
    SauceTails(Vec<(Vec<u8>, String)>),
    Tokens { ext: &'static str, toks: Vec<Vec<u8>>, depth: u32 },
    Names(Vec<String>),
    /// header fields that satisfy a loader's own length equation with extreme operands (two or three cooperating fields)
    Equations(Vec<(Vec<u8>, String)>),
    /// explicit files (name, bytes, description): inputs found by reading the loaders
    Explicit(Vec<(String, Vec<u8>, String)>),
}

struct Load {
    prop: String,
    seeds: Vec<Seed>,
    strata: Vec<(Stratum, u64, u64)>, // stratum, count, offset
    total: u64,
}

fn target_of(seed: &Seed) -> Target {
    match &seed.kind {
        Kind::File(ext) => Target::File(format!("x.{ext}")),
        Kind::Icy => Target::File("x.icy".into()),
        Kind::Font => Target::Font,
        Kind::Tdf => Target::Tdf,
        Kind::Palette => Target::Palettes,
        Kind::Sauce => Target::Sauce,
        Kind::Clipboard => Target::Clipboard,
    }
}

fn kind_name(seed: &Seed) -> String {
    match &seed.kind {
        Kind::File(ext) => (*ext).to_string(),
        Kind::Icy => "icy".into(),
        Kind::Font => "font".into(),
        Kind::Tdf => "tdf".into(),
        Kind::Palette => "palette".into(),
        Kind::Sauce => "sauce".into(),
        Kind::Clipboard => "clipboard".into(),
    }
}

fn sauce_record(data_type: u8, file_type: u8, comments: u8, t1: u16, t2: u16, flags: u8, font: &[u8], date: &[u8; 8]) -> Vec<u8> {
    let mut r = b"SAUCE00".to_vec();
    r.extend(format!("{:<35}", "title").bytes());
    r.extend(format!("{:<20}", "author").bytes());
    r.extend(format!("{:<20}", "group").bytes());
    r.extend(date);
    r.extend(0u32.to_le_bytes());
    r.push(data_type);
    r.push(file_type);
    r.extend(t1.to_le_bytes());
    r.extend(t2.to_le_bytes());
    r.extend([0, 0, 0, 0]);
    r.push(comments);
    r.push(flags);
    let mut f = font.to_vec();
    f.resize(22, 0);
    r.extend(f);
    assert_eq!(r.len(), 128);
    r
}

fn sauce_tails() -> Vec<(Vec<u8>, String)> {
    // deviation bounded product over (data type, file type, comments, tinfo1, tinfo2, flags, comment block shape, content length)
    let dts: Vec<u8> = (0..=9).collect();
    let fts: Vec<u8> = (0..=9).chain([40, 255]).collect();
    let cms = [0u8, 1, 2, 255];
    let tis = [80u16, 0, 1, 0xFFFF, 1000, 1001];
    let t2s = [25u16, 0, 1, 0xFFFF];
    let fls: Vec<u8> = (0..32).collect();
    let shapes = ["correct", "missing", "misplaced", "short"];
    let contents = [5usize, 0, 1, 127, 128, 197];
    let fonts: [&[u8]; 4] = [b"IBM VGA", b"", b"\xff\xff\xff\xff\xff\xff\xff\xff\xff\xff\xff\xff\xff\xff\xff\xff\xff\xff\xff\xff\xff\xff", b"Amiga Topaz 1"];
    let dates: [&[u8; 8]; 3] = [b"20240101", b"00000000", b"2024\xff\xff01"];
    let sizes = [dts.len(), fts.len(), cms.len(), tis.len(), t2s.len(), fls.len(), shapes.len(), contents.len(), fonts.len(), dates.len()];
    let mut combos: Vec<Vec<usize>> = Vec::new();
    fn rec(pos: usize, left: usize, cur: &mut Vec<usize>, sizes: &[usize], out: &mut Vec<Vec<usize>>) {
        if pos == sizes.len() {
            out.push(cur.clone());
            return;
        }
        cur[pos] = 0;
        rec(pos + 1, left, cur, sizes, out);
        if left > 0 {
            for v in 1..sizes[pos] {
                cur[pos] = v;
                rec(pos + 1, left - 1, cur, sizes, out);
            }
            cur[pos] = 0;
        }
    }
    // base: data type index 1 (Character), file type index 1 (ANSI)
    rec(0, 2, &mut vec![0; sizes.len()], &sizes, &mut combos);
    let mut out = Vec::new();
    for c in combos {
        // index 0 means "base value", which for data/file type is 1
        let dt = if c[0] == 0 { 1 } else { dts[c[0]] };
        let ft = if c[1] == 0 { 1 } else { fts[c[1]] };
        let cm = cms[c[2]];
        let mut file: Vec<u8> = (0..contents[c[7]]).map(|i| b'a' + (i % 26) as u8).collect();
        file.push(0x1A);
        match shapes[c[6]] {
            "correct" => {
                if cm > 0 {
                    file.extend(b"COMNT");
                    file.extend(vec![b'c'; cm as usize * 64]);
                }
            }
            "missing" => {}
            "misplaced" => {
                file.extend(b"COMNT");
                file.extend(vec![b'c'; (cm as usize * 64).saturating_sub(7)]);
            }
            _ => {
                file.extend(b"COM");
            }
        }
        file.extend(sauce_record(dt, ft, cm, tis[c[3]], t2s[c[4]], fls[c[5]], fonts[c[8]], dates[c[9]]));
        out.push((file, format!("sauce dt={dt} ft={ft} comments={cm} shape={} tinfo=({},{}) flags={} content={}", shapes[c[6]], tis[c[3]], t2s[c[4]], fls[c[5]], contents[c[7]])));
    }
    out
}

/// PSF2: the loader accepts a file when headersize + length * charsize equals the file length. Every (length, charsize) pair of
/// extremes is combined with each headersize that solves the equation under signed 32 bit, unsigned 32 bit, wrapping 32 bit and
/// 64 bit readings of the operands, for several payload lengths and height / width extremes.
fn psf2_equation_cases() -> Vec<(Vec<u8>, String)> {
    let mut out = Vec::new();
    let vals: [u32; 14] = [0, 1, 2, 16, 32, 255, 256, 512, 0x7FFF_FFFF, 0x8000_0000, 0x8000_0001, 0xFFFF_FFF0, 0xFFFF_FFFE, 0xFFFF_FFFF];
    for payload in [0usize, 16, 256 * 16] {
        let file_len = (32 + payload) as i128;
        for length in vals {
            for charsize in vals {
                let mut heads: Vec<i128> = vec![
                    file_len - (length as i32 as i128) * (charsize as i32 as i128),
                    file_len - (length as i128) * (charsize as i128),
                    file_len - (length.wrapping_mul(charsize) as i128),
                    file_len - ((length as i32).wrapping_mul(charsize as i32) as i128),
                ];
                heads.sort_unstable();
                heads.dedup();
                for h in heads {
                    if !(0..=u32::MAX as i128).contains(&h) {
                        continue;
                    }
                    for (height, width) in [(16u32, 8u32), (0, 0), (0xFFFF_FFFF, 0xFFFF_FFFF), (charsize, 8)] {
                        let mut b = Vec::with_capacity(32 + payload);
                        b.extend(0x864a_b572u32.to_le_bytes());
                        b.extend(0u32.to_le_bytes());
                        b.extend((h as u32).to_le_bytes());
                        b.extend(0u32.to_le_bytes());
                        b.extend(length.to_le_bytes());
                        b.extend(charsize.to_le_bytes());
                        b.extend(height.to_le_bytes());
                        b.extend(width.to_le_bytes());
                        b.extend((0..payload).map(|i| (i * 7) as u8));
                        out.push((b, format!("PSF2 header: headersize {h} length {length:#x} charsize {charsize:#x} height {height:#x} width {width:#x}, {payload} payload bytes")));
                    }
                }
            }
        }
    }
    out
}

fn explicit_cases() -> Vec<(String, Vec<u8>, String)> {
    use base64::Engine as _;
    let b64 = |d: &[u8]| base64::engine::general_purpose::STANDARD.encode(d);
    let mut v: Vec<(String, Vec<u8>, String)> = Vec::new();
    let sixel = b"\x1bPq#1;2;100;0;0#1~~~-~~~\x1b\\".to_vec();
    // a font of degenerate size loaded into slot 0 .. 2 by the file itself, then a sixel image (its cell size comes from font 0)
    let mut fonts: Vec<(String, Vec<u8>)> = vec![("PSF1 charsize 0".into(), vec![0x36, 0x04, 0, 0])];
    for (w, h) in [(0u32, 0u32), (0, 16), (8, 0), (0xFFFF_FFFF, 0xFFFF_FFFF), (0x7FFF_FFFF, 0x7FFF_FFFF), (8, 0xFFFF_FFFF), (0x10000, 0x10000)] {
        let mut d = Vec::new();
        for x in [0x864a_b572u32, 0, 32, 0, 0, 0, h, w] {
            d.extend(x.to_le_bytes());
        }
        fonts.push((format!("PSF2 without glyphs, width {w:#x} height {h:#x}"), d));
    }
    for (name, f) in &fonts {
        for slot in [0, 1] {
            for ext in ["ans", "avt", "pcb", "xyz"] {
                let mut b = format!("\x1bPCTerm:Font:{slot}:{}\x1b\\", b64(f)).into_bytes();
                b.extend(b"A");
                b.extend(&sixel);
                b.extend(b"B\r\n");
                v.push((format!("x.{ext}"), b, format!("font ({name}) into slot {slot}, then text and a sixel image, as .{ext}")));
            }
        }
    }
    // few bytes, no printable character: cursor jumps and line inserts under a SAUCE record that declares an extreme height
    // (a declared width of up to 1000 columns is a screen dimension the loader accepts; the budgets are calibrated for 132 columns, so the
    // extreme heights are combined with ordinary widths)
    for (t1, t2) in [(80u16, 65535u16), (80, 0), (132, 65535), (65535, 65535), (0, 0), (1, 1)] {
        for body in ["\x1b[99999B\x1b[L", "\x1b[99999B\x1b[99999L", "\x1b[99999;99999H\x1b[99999@", "\x1b[99999B\n\n\n", "\x1b[99999E\x1b[99999M", "\x1b[99999d\x1b[99999S\x1b[99999T"] {
            let mut b = body.repeat(3).into_bytes();
            b.push(0x1A);
            b.extend(sauce_record(1, 1, 0, t1, t2, 0, b"", b"20240101"));
            v.push(("x.ans".into(), b, format!("{:?} x3 under a SAUCE record {t1} x {t2}", body)));
        }
    }
    // UTF-8 files (byte order mark): the parsers get characters above U+00FF where their protocols have one byte - repeat counts,
    // positions and colour arguments taken from a character
    for (ext, lead) in [("avt", &b"\x19A"[..]), ("avt", &b"\x16\x08"[..]), ("avt", &b"\x16\x01"[..]), ("pcb", &b"@X"[..]), ("msg", &b"\x01"[..]), ("an1", &b"|"[..]), ("ans", &b"\x1b["[..]), ("asc", &b""[..])] {
        for wide in ['\u{100}', '\u{ffff}', '\u{10ffff}'] {
            // (few repetitions: the budgets are fixed ones, calibrated for short inputs)
            for reps in [1usize, 400] {
                let mut b = vec![0xEF, 0xBB, 0xBF];
                for _ in 0..reps {
                    b.extend(lead);
                    b.extend(wide.to_string().as_bytes());
                    b.extend(wide.to_string().as_bytes());
                }
                v.push((format!("x.{ext}"), b, format!("UTF-8 .{ext} file: {reps} x {:?} followed by two U+{:04X}", String::from_utf8_lossy(lead), wide as u32)));
            }
        }
    }
    // commands that walk "the rest of the screen" under a SAUCE record that declares 1000 x 65535
    for (ext, body) in [("ans", &b"\x1b[J"[..]), ("ans", &b"\x1b[1J\x1b[2J\x1b[K"[..]), ("seq", &b"\x8e"[..]), ("seq", &b"\x0e\x93"[..]), ("avt", &b"\x0c\x16\x07"[..]), ("pcb", &b"@CLS@"[..]), ("ata", &b"\x7d"[..])] {
        for (t1, t2) in [(1000u16, 65535u16), (80, 65535)] {
            let mut b = body.to_vec();
            b.push(0x1A);
            b.extend(sauce_record(1, 1, 0, t1, t2, 0, b"", b"20240101"));
            v.push((format!("x.{ext}"), b, format!("{:?} under a SAUCE record {t1} x {t2}", String::from_utf8_lossy(body))));
        }
    }
    // iCE Draw: run length records with 16 bit counts behind a header that declares a small rectangle
    for (x2, y2) in [(79u16, 0u16), (0, 0), (79, 24), (79, 199)] {
        for records in [5usize, 50] {
            let mut b = b"\x041.4".to_vec();
            for v in [0u16, 0, x2, y2] {
                b.extend(v.to_le_bytes());
            }
            for _ in 0..records {
                b.extend([1, 0, 0xFF, 0xFF, 0x41, 0x07]);
            }
            b.extend(vec![0u8; 4096 + 48]);
            v.push(("x.idf".into(), b, format!("iCE Draw file declaring {}x{} followed by {records} runs of 65535 cells", x2 + 1, y2 + 1)));
        }
    }
    // IcyDraw layer records that declare no columns and an extreme number of rows (with and without data behind)
    for w in [0i32, -1, i32::MIN] {
        for h in [i32::MAX, 1 << 24, 1 << 16] {
            for data in [vec![], vharness::icy::short_cell(0, b'a', 7, 0, 0)] {
                let l = vharness::icy::LayerRec { w, h, data: data.clone(), ..Default::default() };
                let chunks = vec![("ICED".to_string(), vharness::icy::iced_header(2, 2)), ("LAYER_0".to_string(), l.bytes()), ("END".to_string(), vec![])];
                v.push(("x.icy".into(), vharness::icy::build_png(&chunks), format!("IcyDraw layer of size {w} x {h} with {} data bytes", data.len())));
            }
        }
    }
    // IcyDraw layer records with extreme 64 bit data lengths
    for len in [u64::MAX, u64::MAX - 1, 1 << 63, (1 << 63) - 1, 1 << 32, (1 << 32) - 1, u32::MAX as u64 - 40] {
        for role in [0u8, 1] {
            let l = vharness::icy::LayerRec { role, w: 2, h: 2, data: vharness::icy::short_cell(0, b'a', 7, 0, 0), declared_len: Some(len), ..Default::default() };
            let chunks = vec![("ICED".to_string(), vharness::icy::iced_header(2, 2)), ("LAYER_0".to_string(), l.bytes()), ("END".to_string(), vec![])];
            v.push(("x.icy".into(), vharness::icy::build_png(&chunks), format!("IcyDraw layer (role {role}) declaring a data length of {len:#x}")));
        }
    }
    v
}

fn build(prop: &str, tier: &str) -> Load {
    let thorough = tier == "thorough";
    let c03 = prop == "C03";
    let seeds = seeds();
    let mut strata: Vec<Stratum> = Vec::new();
    for (i, s) in seeds.iter().enumerate() {
        let mut faults = faults_for(s, thorough);
        if c03 {
            faults.retain(|f| matches!(f, Fault::U16(..) | Fault::U32(..) | Fault::Pair(..) | Fault::ChunkU32(..) | Fault::None));
        }
        strata.push(Stratum::SeedFaults { seed: i, faults });
    }
    if !c03 {
        for i in 0..seeds.len() {
            strata.push(Stratum::ShortUnderAllExts { seed: i });
        }
        strata.push(Stratum::TwoBytes);
        strata.push(Stratum::SauceTails(sauce_tails()));
        for (ext, emu) in [("ans", Emu::Ansi(0)), ("avt", Emu::Avatar), ("pcb", Emu::PcBoard), ("msg", Emu::CtrlA), ("an1", Emu::Renegade), ("asc", Emu::Ascii), ("seq", Emu::Petscii), ("ata", Emu::Atascii)] {
            let mut singles: Vec<Vec<u8>> = if emu.is_ansi_family() { ansi_core(80, 25, 2).into_iter().map(|t| t.bytes).collect() } else { (0..=255u8).map(|b| vec![b]).collect() };
            singles.extend(native_tokens(emu).into_iter().map(|t| t.bytes));
            strata.push(Stratum::Tokens { ext, toks: singles, depth: 1 });
            let mut pairs: Vec<Vec<u8>> = if emu.is_ansi_family() { ansi_mini(80, 25).into_iter().map(|t| t.bytes).collect() } else { vharness::emu::byte_tokens().into_iter().map(|t| t.bytes).collect() };
            let nat = native_tokens(emu);
            pairs.extend(nat.into_iter().take(if thorough { 300 } else { 64 }).map(|t| t.bytes));
            strata.push(Stratum::Tokens { ext, toks: pairs, depth: 2 });
        }
        strata.push(Stratum::Names(vec!["noext".into(), "x.".into(), ".ans".into(), "dir.d/name".into(), "".into(), "x.ANS".into(), "x.tar.xb".into(), "\u{fc}.\u{fc}".into(), "x.an0".into(), "x.an10".into()]));
    }
    // both for C02 (no panic) and for C03 (cost): header fields that solve the loader's own length equation
    strata.push(Stratum::Equations(psf2_equation_cases()));
    strata.push(Stratum::Explicit(explicit_cases()));
    let mut out = Vec::new();
    let mut total = 0u64;
    for s in strata {
        let n = match &s {
            Stratum::SeedFaults { faults, .. } => faults.len() as u64,
            Stratum::ShortUnderAllExts { seed } => (seeds[*seed].bytes.len().min(64) as u64 + 1) * EXTS.len() as u64,
            Stratum::TwoBytes => 257,
            Stratum::SauceTails(v) => v.len() as u64,
            Stratum::Tokens { toks, depth, .. } => (toks.len() as u64).pow(*depth),
            Stratum::Names(v) => v.len() as u64,
            Stratum::Equations(v) => v.len() as u64,
            Stratum::Explicit(v) => v.len() as u64,
        };
        out.push((s, n, total));
        total += n;
    }
    Load { prop: prop.to_string(), seeds, strata: out, total }
}

fn run_target(t: &Target, bytes: &[u8]) -> (Result<u64, vharness::PanicRec>, Option<Buffer>) {
    // returns an outcome code (for vacuity statistics) or the panic
    let mut loaded = None;
    let r = catch(|| match t {
        Target::File(name) => match Buffer::from_bytes(&PathBuf::from(name), false, bytes) {
            Ok(b) => {
                loaded = Some(b);
                1
            }
            Err(_) => 2,
        },
        Target::Font => match BitFont::from_bytes("f", bytes) {
            Ok(f) => 10 + (f.length as u64 & 0xFFFF),
            Err(_) => 2,
        },
        Target::Tdf => match TheDrawFont::from_tdf_bytes(bytes) {
            Ok(v) => 20 + v.len() as u64,
            Err(_) => 2,
        },
        Target::Palettes => {
            let mut code = 0;
            for f in [PaletteFormat::Hex, PaletteFormat::Pal, PaletteFormat::Gpl, PaletteFormat::Ice, PaletteFormat::Txt, PaletteFormat::Ase] {
                code = code * 3 + match Palette::load_palette(&f, bytes) {
                    Ok(p) => 1 + (p.len() > 0) as u64,
                    Err(_) => 0,
                };
            }
            // the binary palette constructors the loaders use (8 bit and 6 bit triples)
            if bytes.len() <= 64 {
                code = code * 3 + Palette::from(bytes).len() as u64 % 3;
                code = code * 3 + Palette::from_63(bytes).len() as u64 % 3;
            }
            1000 + code
        }
        Target::Sauce => match SauceData::extract(bytes) {
            Ok(Some(s)) => 30 + s.comments.len() as u64,
            Ok(None) => 3,
            Err(_) => 2,
        },
        Target::Clipboard => match Layer::from_clipboard_data(bytes) {
            Some(_) => 1,
            None => 3,
        },
    });
    (r, loaded)
}

impl Load {
    fn case(&self, idx: u64) -> Vec<Case> {
        let (s, _, off) = self.strata.iter().rev().find(|(_, _, o)| *o <= idx).unwrap();
        let i = idx - off;
        match s {
            Stratum::SeedFaults { seed, faults } => {
                let sd = &self.seeds[*seed];
                let f = &faults[i as usize];
                vec![Case { target: target_of(sd), bytes: apply(sd, f), key: format!("{}:{}", kind_name(sd), fault_class(f)), desc: format!("{} / {:?}", sd.name, f) }]
            }
            Stratum::ShortUnderAllExts { seed } => {
                let sd = &self.seeds[*seed];
                let len = (i / EXTS.len() as u64) as usize;
                let ext = EXTS[(i % EXTS.len() as u64) as usize];
                let name = if ext.is_empty() { "x".to_string() } else { format!("x.{ext}") };
                vec![Case { target: Target::File(name), bytes: sd.bytes[..len].to_vec(), key: format!("{}-as-{ext}:truncation", kind_name(sd)), desc: format!("{} truncated to {len} under extension '{ext}'", sd.name) }]
            }
            Stratum::TwoBytes => {
                // i == 0: the empty string and all one byte strings; i = 1..=256: first byte i-1, all second bytes
                let mut v = Vec::new();
                let strings: Vec<Vec<u8>> = if i == 0 { std::iter::once(vec![]).chain((0..=255u8).map(|b| vec![b])).collect() } else { (0..=255u8).map(|b| vec![(i - 1) as u8, b]).collect() };
                for s in strings {
                    for ext in EXTS {
                        if ext.is_empty() {
                            continue;
                        }
                        v.push(Case { target: Target::File(format!("x.{ext}")), bytes: s.clone(), key: format!("short-string-as-{ext}"), desc: format!("string {:02x?} under extension {ext}", s) });
                    }
                    for t in [Target::Font, Target::Tdf, Target::Palettes, Target::Sauce, Target::Clipboard] {
                        v.push(Case { target: t, bytes: s.clone(), key: "short-string:extractor".into(), desc: format!("string {:02x?} through an extractor", s) });
                    }
                }
                v
            }
            Stratum::Explicit(v) => {
                let (name, bytes, d) = &v[i as usize];
                vec![Case { target: Target::File(name.clone()), bytes: bytes.clone(), key: "explicit-file".into(), desc: d.clone() }]
            }
            Stratum::Equations(v) => {
                let (bytes, d) = &v[i as usize];
                vec![Case { target: Target::Font, bytes: bytes.clone(), key: "font:length-equation".into(), desc: d.clone() }]
            }
            Stratum::SauceTails(v) => {
                let (bytes, d) = &v[i as usize];
                let mut out = vec![Case { target: Target::Sauce, bytes: bytes.clone(), key: "sauce-tail:extract".into(), desc: d.clone() }];
                for ext in ["ans", "bin", "xb", "asc", "tnd", "adf"] {
                    out.push(Case { target: Target::File(format!("x.{ext}")), bytes: bytes.clone(), key: format!("sauce-tail-as-{ext}"), desc: format!("{d} under extension {ext}") });
                }
                out
            }
            Stratum::Tokens { ext, toks, depth } => {
                let n = toks.len() as u64;
                let mut b = Vec::new();
                let mut k = i;
                let mut parts = Vec::new();
                for _ in 0..*depth {
                    parts.push((k % n) as usize);
                    k /= n;
                }
                for p in parts.iter().rev() {
                    b.extend(&toks[*p]);
                }
                vec![Case { target: Target::File(format!("x.{ext}")), bytes: b, key: format!("{ext}:token-stream"), desc: format!("{depth} control tokens as a .{ext} file") }]
            }
            Stratum::Names(v) => {
                let name = v[i as usize].clone();
                vec![Case { target: Target::File(name.clone()), bytes: b"hello\x1b[31mworld".to_vec(), key: "file-name".into(), desc: format!("file name {name:?}") }]
            }
        }
    }

    fn run_cases(&self, cases: &[Case], ctx: &mut Ctx) {
        let c03 = self.prop == "C03";
        for c in cases {
            ctx.count("evaluations", 1);
            ctx.count("transitions", c.bytes.len() as u64 + 1);
            restart_case_clock();
            let snap = alloc::begin();
            let cpu0 = process_cpu_ns();
            let (r, loaded) = run_target(&c.target, &c.bytes);
            let cpu = process_cpu_ns() - cpu0;
            let (peak, _, _) = alloc::since(&snap);
            let case_json = || json!({"target": target_name(&c.target), "what": c.desc, "bytes": bytes_to_json(&c.bytes[..c.bytes.len().min(8000)]), "len": c.bytes.len()});
            match r {
                Ok(code) => {
                    let mut f = Fnv::new();
                    f.u64(code);
                    f.str(&target_name(&c.target));
                    ctx.outcome(f.finish());
                    if code != 2 && code != 3 {
                        ctx.count("nontrivial", 1);
                    }
                    if let Some(b) = &loaded {
                        use icy_engine::TextPane;
                        f.i32(b.get_width());
                        f.i32(b.get_height());
                        f.u64(b.layers.len() as u64);
                        ctx.state(f.finish());
                    }
                }
                Err(p) => {
                    ctx.outcome(0xDEAD);
                    if !c03 {
                        let mut o = p.to_json();
                        o["case"] = case_json();
                        ctx.violation(p.signature(), o);
                    }
                }
            }
            if c03 {
                if cpu > CPU_LIMIT_NS {
                    ctx.violation(format!("cpu:file:{}", c.key), json!({"cpu_ms": cpu / 1_000_000, "case": case_json()}));
                }
                if peak > MEM_LIMIT {
                    ctx.violation(format!("mem:file:{}", c.key), json!({"peak_mib": peak >> 20, "case": case_json()}));
                }
            }
            ctx.counters.entry("max_cpu_us".into()).and_modify(|v| *v = (*v).max(cpu / 1000)).or_insert(cpu / 1000);
            ctx.counters.entry("max_peak_kib".into()).and_modify(|v| *v = (*v).max((peak >> 10) as u64)).or_insert((peak >> 10) as u64);
        }
    }
}

fn target_name(t: &Target) -> String {
    match t {
        Target::File(n) => format!("Buffer::from_bytes({n:?})"),
        Target::Font => "BitFont::from_bytes".into(),
        Target::Tdf => "TheDrawFont::from_tdf_bytes".into(),
        Target::Palettes => "Palette::load_palette x5".into(),
        Target::Sauce => "SauceData::extract".into(),
        Target::Clipboard => "Layer::from_clipboard_data".into(),
    }
}

impl Engine for Load {
    fn total(&self) -> u64 {
        self.total
    }
    fn run(&mut self, idx: u64, ctx: &mut Ctx) {
        let cases = self.case(idx);
        self.run_cases(&cases, ctx);
    }
    fn describe(&self, idx: u64) -> Value {
        let cases = self.case(idx);
        let c = &cases[0];
        json!({"engine": "load", "idx": idx, "cases_in_batch": cases.len(), "target": target_name(&c.target), "what": c.desc, "len": c.bytes.len(),
               "bytes": bytes_to_json(&c.bytes[..c.bytes.len().min(8000)]), "key": format!("load:{}", c.key)})
    }
    fn replay(&mut self, case: &Value, ctx: &mut Ctx) {
        // a violation record carries its own bytes when they are short enough; otherwise re-enumerate
        if let (Some(t), Some(len)) = (case["target"].as_str(), case["len"].as_u64()) {
            let bytes = json_bytes(&case["bytes"]);
            if bytes.len() as u64 == len && case["cases_in_batch"].as_u64().unwrap_or(1) == 1 {
                let target = if let Some(n) = t.strip_prefix("Buffer::from_bytes(\"") {
                    Target::File(n.trim_end_matches("\")").to_string())
                } else if t.starts_with("BitFont") {
                    Target::Font
                } else if t.starts_with("TheDraw") {
                    Target::Tdf
                } else if t.starts_with("Palette") {
                    Target::Palettes
                } else if t.starts_with("Sauce") {
                    Target::Sauce
                } else {
                    Target::Clipboard
                };
                let c = Case { target, bytes, key: case["key"].as_str().unwrap_or("load:replay").trim_start_matches("load:").to_string(), desc: "replay".into() };
                self.run_cases(&[c], ctx);
                return;
            }
        }
        self.run(case["idx"].as_u64().unwrap_or(0), ctx);
    }
    fn meta(&self) -> Value {
        let mut m: std::collections::BTreeMap<&str, (u64, u64)> = Default::default();
        for (s, n, _) in &self.strata {
            let k = match s {
                Stratum::SeedFaults { .. } => "seed x fault (truncation, byte, u16/u32 fields single and pairs, IcyDraw chunk payload faults)",
                Stratum::ShortUnderAllExts { .. } => "every prefix <= 64 bytes of every seed under every extension",
                Stratum::TwoBytes => "all byte strings of length <= 2 under every extension and extractor (batches of 256 strings)",
                Stratum::SauceTails(_) => "SAUCE tail product (<= 2 deviations) under 6 extensions + extract",
                Stratum::Tokens { .. } => "control token streams (depth 1 and 2) as files of the text formats",
                Stratum::Names(_) => "file names without / with odd extensions",
                Stratum::Equations(_) => "PSF2 headers whose fields solve the loader's length equation with extreme operands",
                Stratum::Explicit(_) => "explicit files: fonts of degenerate size followed by a sixel image, sparse cursor jumps under a SAUCE record with an extreme height, UTF-8 files with characters above U+00FF behind every lead-in, iCE Draw run length records behind small declared rectangles, IcyDraw layers without columns and with extreme row counts, IcyDraw layer records with extreme 64 bit lengths",
            };
            let e = m.entry(k).or_insert((0, 0));
            e.0 += 1;
            e.1 += n;
        }
        json!({"seeds": self.seeds.len(), "seed_names": self.seeds.iter().map(|s| s.name.clone()).collect::<Vec<_>>(),
               "strata": m.iter().map(|(k, v)| json!({"stratum": k, "instances": v.0, "cases": v.1})).collect::<Vec<_>>()})
    }
}

fn main() {
    worker_main(|prop, tier| Box::new(build(prop, tier)));
}
