//! C16: palette indices are stable under insert/set histories (directly and through the ANSI parser),
//! palette files round-trip in all five formats, the 6-bit VGA encoding is idempotent.

use icy_engine::{ansi, Buffer, BufferParser, Caret, Color, Palette, PaletteFormat};
use vharness::{catch, json, worker_main, Ctx, Engine, Fnv, Value};

type Rgb = (u8, u8, u8);

// ---------------------------------------------------------------- histories on Palette

#[derive(Clone, Copy, Debug)]
enum Op {
    Insert(Rgb),
    InsertRgb(Rgb),
    Set(i32, Rgb), // index relative: 0, 5, -1 = len (append), -2 = len+2 (gap)
    SetColor(i32, Rgb),
}

const NEW1: Rgb = (1, 2, 3);
const NEW2: Rgb = (250, 128, 7);
const BLACK: Rgb = (0, 0, 0);
const DUP: Rgb = (0xAA, 0x55, 0x00); // DOS brown, also duplicated in the 300 colour start palette

fn ops() -> Vec<Op> {
    let mut v = vec![Op::Insert(NEW1), Op::Insert(NEW2), Op::Insert(BLACK), Op::Insert(DUP), Op::InsertRgb(NEW1), Op::InsertRgb((0xFF, 0xFF, 0xFF))];
    for i in [0, 5, -1, -2] {
        v.push(Op::Set(i, NEW1));
        v.push(Op::Set(i, BLACK));
        v.push(Op::SetColor(i, NEW2));
    }
    v
}

fn start_palette(k: usize) -> Palette {
    match k {
        0 => Palette::new(),
        1 => Palette::dos_default(),
        3 => {
            // colours that carry names (as after a GPL / ICE import)
            let mut p = Palette::new();
            for (i, c) in [BLACK, DUP, NEW2, (0xFF, 0xFF, 0xFF)].iter().enumerate() {
                let mut col = Color::new(c.0, c.1, c.2);
                col.name = Some(format!("named {i}"));
                p.push(col);
            }
            p
        }
        _ => {
            let mut p = Palette::dos_default();
            for i in 0..284u32 {
                let c = if i == 100 { DUP } else { ((i * 7) as u8, (i / 3) as u8, 200 - (i / 2) as u8) };
                p.push(Color::new(c.0, c.1, c.2));
            }
            p
        }
    }
}

fn snapshot(p: &Palette) -> Vec<Rgb> {
    (0..p.len() as u32).map(|i| p.get_rgb(i)).collect()
}

fn run_history(start: usize, hist: &[Op], ctx: &mut Ctx) {
    let mut p = start_palette(start);
    ctx.count("evaluations", 1);
    let mut f = Fnv::new();
    for (step, op) in hist.iter().enumerate() {
        let before = snapshot(&p);
        ctx.count("transitions", 1);
        let r = catch(|| match *op {
            Op::Insert(c) => Some(p.insert_color(Color::new(c.0, c.1, c.2))),
            Op::InsertRgb(c) => Some(p.insert_color_rgb(c.0, c.1, c.2)),
            Op::Set(i, c) => {
                let idx = rel(i, p.len());
                p.set_color_rgb(idx, c.0, c.1, c.2);
                None
            }
            Op::SetColor(i, c) => {
                let idx = rel(i, p.len());
                p.set_color(idx, Color::new(c.0, c.1, c.2));
                None
            }
        });
        let after = snapshot(&p);
        match r {
            Err(pn) => {
                ctx.panic(&pn, json!({"step": step, "op": format!("{op:?}")}));
                return;
            }
            Ok(Some(idx)) => {
                let c = match *op {
                    Op::Insert(c) | Op::InsertRgb(c) => c,
                    _ => unreachable!(),
                };
                f.u32(idx);
                if p.get_rgb(idx) != c {
                    ctx.violation("diff:palette:insert-index-does-not-resolve", json!({"step": step, "op": format!("{op:?}"), "index": idx, "resolves_to": p.get_rgb(idx)}));
                }
                if after.len() < before.len() || after[..before.len()] != before[..] {
                    ctx.violation("diff:palette:insert-changed-existing-index", json!({"step": step, "op": format!("{op:?}")}));
                }
                let was_present = before.iter().any(|x| *x == c);
                if was_present && (idx as usize >= before.len() || after.len() != before.len()) {
                    ctx.violation("diff:palette:present-colour-got-new-index", json!({"step": step, "op": format!("{op:?}"), "index": idx, "len_before": before.len(), "len_after": after.len()}));
                }
            }
            Ok(None) => {
                let (i, c) = match *op {
                    Op::Set(i, c) | Op::SetColor(i, c) => (rel(i, before.len()) as usize, c),
                    _ => unreachable!(),
                };
                if after.get(i) != Some(&c) {
                    ctx.violation("diff:palette:set-not-stored", json!({"step": step, "op": format!("{op:?}")}));
                }
                for (j, old) in before.iter().enumerate() {
                    if j != i && after.get(j) != Some(old) {
                        ctx.violation("diff:palette:set-changed-other-index", json!({"step": step, "op": format!("{op:?}"), "index": j}));
                        break;
                    }
                }
            }
        }
        f.u64(after.len() as u64);
    }
    for c in snapshot(&p) {
        f.u8(c.0);
        f.u8(c.1);
        f.u8(c.2);
    }
    ctx.state(f.finish());
    ctx.count("nontrivial", 1);
}

fn rel(i: i32, len: usize) -> u32 {
    match i {
        -1 => len as u32,
        -2 => len as u32 + 2,
        _ => i as u32,
    }
}

// ---------------------------------------------------------------- histories through the ANSI parser

fn parser_tokens() -> Vec<(Vec<u8>, Option<Rgb>, bool)> {
    // (bytes, colour the foreground (true) / background (false) must resolve to afterwards, is_foreground)
    // OSC 4 tokens redefine a palette slot (no colour expectation); slots 16.. are where inserted colours land
    let mut v: Vec<(Vec<u8>, Option<Rgb>, bool)> = Vec::new();
    for slot in [16u32, 17, 1, 255] {
        for c in [(9u8, 8u8, 7u8), NEW1] {
            v.push((format!("\x1b]4;{slot};rgb:{:02x}/{:02x}/{:02x}\x1b\\", c.0, c.1, c.2).into_bytes(), None, true));
        }
    }
    for c in [NEW1, NEW2, BLACK, DUP, (255, 255, 255)] {
        v.push((format!("\x1b[38;2;{};{};{}m", c.0, c.1, c.2).into_bytes(), Some(c), true));
        v.push((format!("\x1b[48;2;{};{};{}m", c.0, c.1, c.2).into_bytes(), Some(c), false));
        v.push((format!("\x1b[1;{};{};{}t", c.0, c.1, c.2).into_bytes(), Some(c), true));
        v.push((format!("\x1b[0;{};{};{}t", c.0, c.1, c.2).into_bytes(), Some(c), false));
    }
    // the 16 colour SGR codes: cells that use the first palette entries
    v.push((b"\x1b[0;31m".to_vec(), Some((0xAA, 0, 0)), true));
    v.push((b"\x1b[0;34m".to_vec(), Some((0, 0, 0xAA)), true));
    v.push((b"\x1b[0;44m".to_vec(), Some((0, 0, 0xAA)), false));
    // malformed colour requests: no index, an empty index, an index beyond the table, components beyond 255, a selector that is neither
    // foreground nor background. They name no palette entry and no colour: the palette and the current colours stay as they are.
    for t in [
        "\x1b]4;rgb:12/34/56\x1b\\", "\x1b]4;;rgb:12/34/56\x1b\\", "\x1b]4;rgb:1/2/3\x1b\\", "\x1b]4;99999;rgb:12/34/56\x1b\\", "\x1b]4;1\x1b\\", "\x1b]4;1;rgb:12/34\x1b\\",
        "\x1b[1;300;256;511t", "\x1b[0;256;0;0t", "\x1b[1;0;0;99999t", "\x1b[2;1;2;3t", "\x1b[9;1;2;3t", "\x1b[38;2;300;0;0m", "\x1b[48;2;0;256;0m", "\x1b[38;5;256m", "\x1b[48;5;99999m",
    ] {
        v.push((t.as_bytes().to_vec(), None, false));
    }
    for n in [0u32, 7, 16, 196, 231, 255] {
        let c = icy_engine::XTERM_256_PALETTE[n as usize].1.get_rgb();
        v.push((format!("\x1b[38;5;{n}m").into_bytes(), Some(c), true));
        v.push((format!("\x1b[48;5;{n}m").into_bytes(), Some(c), false));
    }
    v
}

fn run_parser_history(toks: &[usize], ctx: &mut Ctx) {
    let all = parser_tokens();
    let mut buf = Buffer::new((80, 25));
    buf.is_terminal_buffer = true;
    let mut caret = Caret::default();
    let mut parser = ansi::Parser::default();
    let mut printed: Vec<(i32, Rgb, Rgb)> = Vec::new(); // x, fg rgb, bg rgb at print time
    let mut redefined: Vec<u32> = Vec::new(); // slots explicitly set through OSC 4 (cells using them may change)
    ctx.count("evaluations", 1);
    for (step, &t) in toks.iter().enumerate() {
        let (bytes, want, is_fg) = &all[t];
        // (None, false) marks a malformed request
        let inert = want.is_none() && !*is_fg;
        let before = (snapshot(&buf.palette), caret.get_attribute().get_foreground(), caret.get_attribute().get_background());
        for b in bytes {
            ctx.count("transitions", 1);
            if let Err(p) = catch(|| parser.print_char(&mut buf, 0, &mut caret, *b as char)) {
                ctx.panic(&p, json!({"step": step}));
                return;
            }
        }
        let a = caret.get_attribute();
        if inert {
            let after = (snapshot(&buf.palette), a.get_foreground(), a.get_background());
            if before != after {
                let what = if before.0.len() != after.0.len() { "palette-grew" } else if before.0 != after.0 { "palette-entry-changed" } else { "current-colour-changed" };
                let changed: Vec<usize> = (0..before.0.len().min(after.0.len())).filter(|i| before.0[*i] != after.0[*i]).collect();
                ctx.violation(format!("diff:palette:malformed-colour-request:{what}"), json!({"step": step, "sequence": String::from_utf8_lossy(bytes), "palette_len": [before.0.len(), after.0.len()], "changed_entries": changed, "colours": [[before.1, before.2], [after.1, after.2]]}));
                return;
            }
            continue;
        }
        if want.is_none() {
            let txt = String::from_utf8_lossy(bytes).to_string();
            if let Some(slot) = txt.split(';').nth(1).and_then(|x| x.parse::<u32>().ok()) {
                redefined.push(slot);
            }
            continue;
        }
        let got = if *is_fg { buf.palette.get_rgb(a.get_foreground()) } else { buf.palette.get_rgb(a.get_background()) };
        let idx = if *is_fg { a.get_foreground() } else { a.get_background() };
        // a 16 colour SGR code names a palette entry: it shows whatever that entry was redefined to. A colour given by value (38;2 / 48;2 /
        // CSI t / 38;5) is looked up or inserted: it resolves to exactly that value whatever happened to other entries before
        let names_an_entry = bytes.starts_with(b"\x1b[0;3") || bytes.starts_with(b"\x1b[0;4");
        if Some(got) != *want && !(names_an_entry && redefined.contains(&idx)) {
            ctx.violation("diff:palette:parser-colour-does-not-resolve", json!({"step": step, "sequence": String::from_utf8_lossy(bytes), "got": got, "want": want}));
        }
        let fg = buf.palette.get_rgb(a.get_foreground());
        let bg = buf.palette.get_rgb(a.get_background());
        let x = caret.get_position().x;
        let _ = catch(|| parser.print_char(&mut buf, 0, &mut caret, 'X'));
        printed.push((x, fg, bg));
    }
    use icy_engine::TextPane;
    let mut f = Fnv::new();
    for (x, fg, bg) in printed {
        let ch = buf.get_char((x, 0));
        let now_fg = buf.palette.get_rgb(ch.attribute.get_foreground());
        let now_bg = buf.palette.get_rgb(ch.attribute.get_background());
        f.u32(ch.attribute.get_foreground());
        f.u32(ch.attribute.get_background());
        let touched = redefined.contains(&ch.attribute.get_foreground()) || redefined.contains(&ch.attribute.get_background());
        if !touched && (now_fg != fg || now_bg != bg) {
            ctx.violation("diff:palette:earlier-cell-changed-colour", json!({"x": x, "was": [fg, bg], "now": [now_fg, now_bg]}));
        }
    }
    ctx.state(f.finish());
    ctx.count("nontrivial", 1);
}

// ---------------------------------------------------------------- palette files

const FORMATS: [(&str, PaletteFormat); 5] = [("hex", PaletteFormat::Hex), ("pal", PaletteFormat::Pal), ("gpl", PaletteFormat::Gpl), ("ice", PaletteFormat::Ice), ("txt", PaletteFormat::Txt)];
const LEVELS: [u8; 7] = [0, 1, 9, 10, 99, 100, 255];
const TEXTS: [&str; 8] = ["", "x", "two words", "1 2 3", "#Name: y", "abcdef FF001122", "Sunset\n20 30 40 is the key colour", "cr\r9 9 9\r\nlf"];

fn file_case(fmt: usize, colors: &[Rgb], title: &str, author: &str, descr: &str, names: bool, ctx: &mut Ctx) {
    let cs: Vec<Color> = colors
        .iter()
        .enumerate()
        .map(|(i, c)| {
            let mut col = Color::new(c.0, c.1, c.2);
            if names && i % 2 == 0 {
                col.name = Some(format!("colour {i}"));
            }
            col
        })
        .collect();
    let mut p = Palette::from_slice(&cs);
    p.title = title.to_string();
    p.author = author.to_string();
    p.description = descr.to_string();
    ctx.count("evaluations", 1);
    ctx.count("transitions", 2);
    let r = catch(|| {
        let bytes = p.export_palette(&FORMATS[fmt].1);
        (Palette::load_palette(&FORMATS[fmt].1, &bytes), bytes)
    });
    let input = json!({"format": FORMATS[fmt].0, "colors": colors.len(), "first": colors.first(), "title": title, "author": author, "description": descr, "names": names});
    match r {
        Err(pn) => ctx.panic(&pn, input),
        Ok((Err(e), _)) => ctx.violation(format!("diff:palette-file:{}:load-error", FORMATS[fmt].0), json!({"input": input, "error": e.to_string()})),
        Ok((Ok(q), bytes)) => {
            let got = snapshot(&q);
            let mut f = Fnv::new();
            f.u64(got.len() as u64);
            f.u8(fmt as u8);
            ctx.outcome(f.finish());
            if got != colors {
                let class = if got.len() < colors.len() {
                    "colours-lost"
                } else if got.len() > colors.len() {
                    "colours-added"
                } else {
                    "colours-changed"
                };
                let meta = if descr.is_empty() { "empty-description" } else { "nonempty-description" };
                ctx.violation(
                    format!("diff:palette-file:{}:{class}:{meta}", FORMATS[fmt].0),
                    json!({"input": input, "got_len": got.len(), "want_len": colors.len(), "file": String::from_utf8_lossy(&bytes).chars().take(300).collect::<String>()}),
                );
            }
        }
    }
}

// ---------------------------------------------------------------- engine

enum Case {
    Hist(usize, Vec<Op>),
    ParserHist(Vec<usize>),
    /// every extension of this history by one more token
    ParserHistExt(Vec<usize>),
    FileOne(usize, u8),        // format, r level index: all g,b levels x text combos, n = 1
    FileMany(usize, usize),    // format, n
    FileAll(usize, u8),        // thorough: format, r : all 65536 (g,b) in palettes of 256
    SixBit(u8),
    /// a 16 colour palette of six bit exact colours through the art formats that store it (xb, adf, idf): every entry, also the last one
    ArtFile(usize, u8),
}

struct C16 {
    cases: Vec<Case>,
}

fn build(tier: &str) -> C16 {
    let thorough = tier == "thorough";
    let o = ops();
    let mut cases = Vec::new();
    let depth = 4;
    for start in 0..4 {
        let mut stack: Vec<Vec<Op>> = vec![vec![]];
        for _ in 0..depth {
            let mut next = Vec::new();
            for h in &stack {
                for op in &o {
                    let mut n = h.clone();
                    n.push(*op);
                    next.push(n);
                }
            }
            for h in &next {
                cases.push(Case::Hist(start, h.clone()));
            }
            stack = next;
        }
    }
    let nt = parser_tokens().len();
    // depth 3 histories are kept as cases of their own; the thorough tier's depth 4 is enumerated inside one case per depth 3 prefix
    // (48^4 histories do not fit into the memory of 16 workers as a list)
    let pdepth = 3;
    let mut stack: Vec<Vec<usize>> = vec![vec![]];
    for _ in 0..pdepth {
        let mut next = Vec::new();
        for h in &stack {
            for t in 0..nt {
                let mut n = h.clone();
                n.push(t);
                next.push(n);
            }
        }
        for h in &next {
            cases.push(Case::ParserHist(h.clone()));
        }
        stack = next;
    }
    if thorough {
        for h in &stack {
            cases.push(Case::ParserHistExt(h.clone()));
        }
    }
    for f in 0..5 {
        for r in 0..LEVELS.len() as u8 {
            cases.push(Case::FileOne(f, r));
        }
        for n in [0usize, 2, 16, 17, 256, 300] {
            cases.push(Case::FileMany(f, n));
        }
        if thorough {
            for r in 0..=255u8 {
                cases.push(Case::FileAll(f, r));
            }
        }
    }
    for r in 0..64u8 {
        cases.push(Case::SixBit(r));
    }
    for f in 0..3 {
        for v in 0..6u8 {
            cases.push(Case::ArtFile(f, v));
        }
    }
    C16 { cases }
}

impl Engine for C16 {
    fn total(&self) -> u64 {
        self.cases.len() as u64
    }
    fn describe(&self, idx: u64) -> Value {
        let d = match &self.cases[idx as usize] {
            Case::Hist(s, h) => json!({"kind": "palette history", "start": (["empty", "dos16", "300 colours with a duplicate", "4 named colours"][*s]), "ops": h.iter().map(|o| format!("{o:?}")).collect::<Vec<_>>()}),
            Case::ParserHist(t) => {
                let all = parser_tokens();
                json!({"kind": "parser colour history", "sequences": t.iter().map(|i| String::from_utf8_lossy(&all[*i].0).replace('\x1b', "ESC")).collect::<Vec<_>>()})
            }
            Case::ParserHistExt(t) => {
                let all = parser_tokens();
                json!({"kind": "parser colour history, every extension by one more sequence", "sequences": t.iter().map(|i| String::from_utf8_lossy(&all[*i].0).replace('\x1b', "ESC")).collect::<Vec<_>>()})
            }
            Case::FileOne(f, r) => json!({"kind": "palette file, 1 colour", "format": FORMATS[*f].0, "r": LEVELS[*r as usize], "g,b": "all 7x7 levels", "texts": "all 8x8 title/description combos x 2 authors x names on/off"}),
            Case::FileMany(f, n) => json!({"kind": "palette file, n colours", "format": FORMATS[*f].0, "n": n, "texts": "6 description values x names on/off"}),
            Case::FileAll(f, r) => json!({"kind": "palette file, all colours with this red value (256 palettes of 256)", "format": FORMATS[*f].0, "r": r}),
            Case::ArtFile(f, v) => json!({"kind": "16 colour palette through an art file", "format": (["xb", "adf", "idf"][*f]), "variant": v}),
            Case::SixBit(r) => json!({"kind": "6-bit VGA palette idempotence", "r6": r, "g6,b6": "all 64x64"}),
        };
        json!({"engine": "palette", "idx": idx, "case": d, "key": "palette"})
    }
    fn replay(&mut self, case: &Value, ctx: &mut Ctx) {
        self.run(case["idx"].as_u64().unwrap_or(0), ctx)
    }
    fn meta(&self) -> Value {
        json!({"ops": ops().iter().map(|o| format!("{o:?}")).collect::<Vec<_>>(), "parser_tokens": parser_tokens().len(), "levels": LEVELS, "texts": TEXTS})
    }
    fn run(&mut self, idx: u64, ctx: &mut Ctx) {
        match &self.cases[idx as usize] {
            Case::Hist(s, h) => run_history(*s, h, ctx),
            Case::ParserHist(t) => run_parser_history(t, ctx),
            Case::ParserHistExt(t) => {
                for last in 0..parser_tokens().len() {
                    let mut h = t.clone();
                    h.push(last);
                    run_parser_history(&h, ctx);
                }
            }
            Case::FileOne(f, r) => {
                for g in LEVELS {
                    for b in LEVELS {
                        let c = [(LEVELS[*r as usize], g, b)];
                        for title in TEXTS {
                            for descr in TEXTS {
                                for author in ["", "me"] {
                                    for names in [false, true] {
                                        file_case(*f, &c, title, author, descr, names, ctx);
                                    }
                                }
                            }
                        }
                    }
                }
                ctx.count("nontrivial", 1);
            }
            Case::FileMany(f, n) => {
                let cols: Vec<Rgb> = (0..*n).map(|i| (LEVELS[i % 7], LEVELS[(i / 7) % 7], LEVELS[(i / 49) % 7])).collect();
                for descr in TEXTS {
                    for names in [false, true] {
                        file_case(*f, &cols, "t", "a", descr, names, ctx);
                    }
                }
                ctx.count("nontrivial", 1);
            }
            Case::FileAll(f, r) => {
                for g in 0..=255u8 {
                    let cols: Vec<Rgb> = (0..=255u8).map(|b| (*r, g, b)).collect();
                    file_case(*f, &cols, "", "", "d", false, ctx);
                }
                ctx.count("nontrivial", 1);
            }
            Case::ArtFile(f, v) => {
                let ext = ["xb", "adf", "idf"][*f];
                ctx.count("evaluations", 1);
                ctx.count("transitions", 2);
                ctx.count("nontrivial", 1);
                let mut buf = Buffer::new((80, 2));
                buf.ice_mode = icy_engine::IceMode::Ice;
                // six bit exact colours (c * 255 / 63 rounded as the engine's own table does): every entry differs from the DOS palette
                let lv = |i: u32| -> u8 { let c = (i * 13 + *v as u32 * 7 + 5) % 64; ((c << 2) | (c >> 4)) as u8 };
                let mut p = Palette::dos_default();
                for i in 0..16u32 {
                    if *v < 5 || i == 15 {
                        p.set_color_rgb(i, lv(i), lv(i + 16), lv(i + 32));
                    }
                }
                buf.palette = p;
                use icy_engine::{AttributedChar, TextAttribute};
                for x in 0..80 {
                    buf.layers[0].set_char((x, 0), AttributedChar::new('A', TextAttribute::new((x % 16) as u32, ((x / 16) % 8) as u32)));
                    buf.layers[0].set_char((x, 1), AttributedChar::new('B', TextAttribute::new(15 - (x % 16) as u32, 0)));
                }
                let mut o = icy_engine::SaveOptions::new();
                o.lossles_output = true;
                let want = snapshot(&buf.palette);
                match catch(|| buf.to_bytes(ext, &o).and_then(|b| Buffer::from_bytes(std::path::Path::new(&format!("x.{ext}")), false, &b))) {
                    Err(p) => ctx.panic(&p, json!({"format": ext, "variant": v})),
                    Ok(Err(e)) => ctx.violation(format!("diff:palette-art-file:{ext}:refused"), json!({"format": ext, "variant": v, "error": e.to_string()})),
                    Ok(Ok(got)) => {
                        let g = snapshot(&got.palette);
                        if g.len() < 16 || g[..16] != want[..16] {
                            let i = (0..16).find(|i| g.get(*i) != want.get(*i)).unwrap_or(0);
                            ctx.violation(format!("diff:palette-art-file:{ext}:colour-changed"), json!({"format": ext, "variant": v, "entry": i, "saved": want.get(i), "loaded": g.get(i)}));
                        }
                        let mut f = Fnv::new();
                        for c in &g {
                            f.u8(c.0);
                            f.u8(c.1);
                            f.u8(c.2);
                        }
                        ctx.state(f.finish());
                    }
                }
            }
            Case::SixBit(r) => {
                let mut f = Fnv::new();
                for g in 0..64u8 {
                    for b in 0..64u8 {
                        ctx.count("evaluations", 1);
                        ctx.count("transitions", 3);
                        let p1 = Palette::from_63(&[*r, g, b]);
                        let v = p1.as_vec_63();
                        let p2 = Palette::from_63(&v);
                        f.u8(p1.get_rgb(0).0);
                        if v != [*r, g, b] {
                            ctx.violation("diff:palette-6bit:as_vec_63-not-inverse", json!({"in": [r, g, b], "out": v}));
                        }
                        if snapshot(&p1) != snapshot(&p2) {
                            ctx.violation("diff:palette-6bit:not-idempotent", json!({"in": [r, g, b]}));
                        }
                        // 8-bit value is the 6-bit value expanded (top bits replicated)
                        let want = (*r << 2 | *r >> 4, g << 2 | g >> 4, b << 2 | b >> 4);
                        if p1.get_rgb(0) != want {
                            ctx.violation("diff:palette-6bit:expansion", json!({"in": [r, g, b], "got": p1.get_rgb(0)}));
                        }
                    }
                }
                ctx.state(f.finish() ^ *r as u64);
                ctx.count("nontrivial", 1);
            }
        }
    }
}

fn main() {
    worker_main(|_prop, tier| Box::new(build(tier)));
}
