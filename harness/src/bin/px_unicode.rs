//! C10: stored text is always valid Unicode. Complete value domains of every input-derived conversion:
//!  1. fill-rectangle character parameter (all 2^31 values in thorough, all < 2^22 + boundary values in quick)
//!  2. clipboard cell records (all 65536 16-bit values)
//!  3. IcyDraw long-form cells and strings (see icy container in vharness::doc)  [added with C07]
//!  5. font glyph tables built from PSF2/PSF1/raw data of up to 2^17 glyphs
//!  6. hex macros (all 256^2 hex digit pairs and non-hex characters)

use icy_engine::{ansi, BitFont, Buffer, BufferParser, Caret, Layer};
use vharness::{catch, json, worker_main, Ctx, Engine, Fnv, Value};

fn valid(c: u32) -> bool {
    c <= 0xD7FF || (0xE000..=0x10FFFF).contains(&c)
}

fn check_buffer(buf: &Buffer, what: &str, input: Value, ctx: &mut Ctx) -> bool {
    let mut ok = true;
    for (li, l) in buf.layers.iter().enumerate() {
        if std::str::from_utf8(l.properties.title.as_bytes()).is_err() {
            ctx.violation(format!("inv:utf8:{what}:layer-title"), json!({"input": input, "layer": li}));
            ok = false;
        }
        for (y, line) in l.lines.iter().enumerate() {
            for (x, c) in line.chars.iter().enumerate() {
                let v = c.ch as u32;
                if !valid(v) {
                    ctx.violation(format!("inv:scalar:{what}:{}", if v > 0x10FFFF { "above-10FFFF" } else { "surrogate" }), json!({"input": input, "layer": li, "x": x, "y": y, "value": v}));
                    ok = false;
                }
            }
        }
    }
    for (_, f) in buf.font_iter() {
        if !check_font(f, what, input.clone(), ctx) {
            ok = false;
        }
    }
    ok
}

fn check_font(f: &BitFont, what: &str, input: Value, ctx: &mut Ctx) -> bool {
    let mut ok = true;
    for k in f.glyphs.keys() {
        if !valid(*k as u32) {
            ctx.violation(format!("inv:scalar:{what}:font-glyph-key"), json!({"input": input, "value": *k as u32}));
            ok = false;
            break;
        }
    }
    if std::str::from_utf8(f.name.as_bytes()).is_err() {
        ctx.violation(format!("inv:utf8:{what}:font-name"), json!({"input": input}));
        ok = false;
    }
    ok
}

enum Batch {
    Fill(u32),      // values [k*65536, (k+1)*65536)
    FillBoundary,   // 2^k, 2^k +-1, saturation values
    Clipboard(u8),  // high byte of the 16 bit character value
    FontPsf2(u32),  // glyph count
    FontPsf1(u8),
    FontRaw(u32),
    HexMacro(u8),   // first hex character (all byte values), second: all byte values
    /// fill values [k*4096, (k+1)*4096) after a font with 2^17 glyphs was loaded through the DCS font sequence and selected
    FillWithBigFont(u32),
    /// every Unicode scalar value in block k (4096 values) as first and as second character of a hex macro pair (a UTF-8 file can carry them)
    HexMacroScalar(u32),
}

struct C10 {
    batches: Vec<Batch>,
}

fn build(tier: &str) -> C10 {
    let thorough = tier == "thorough";
    let mut b = Vec::new();
    b.push(Batch::FillBoundary);
    for hi in 0..=255u8 {
        b.push(Batch::Clipboard(hi));
        b.push(Batch::HexMacro(hi));
    }
    for n in [0u32, 1, 255, 256, 257, 512, 0xD7FF, 0xD800, 0xD801, 0xDFFF, 0xE000, 0xE001, 0x10000, 0x1FFFF, 0x20000] {
        b.push(Batch::FontPsf2(n));
        b.push(Batch::FontRaw(n));
    }
    for cs in [0u8, 1, 8, 16, 255] {
        b.push(Batch::FontPsf1(cs));
    }
    // the surrogate range and its surroundings, the end of the font table, the end of the Unicode range
    for k in [0u32, 13, 14, 31, 32, 33, 271, 272] {
        b.push(Batch::FillWithBigFont(k));
    }
    for k in 0..(0x110000u32 / 4096) {
        b.push(Batch::HexMacroScalar(k));
    }
    let fill_blocks: u32 = if thorough { 32768 } else { 64 };
    for k in 0..fill_blocks {
        b.push(Batch::Fill(k));
    }
    C10 { batches: b }
}

struct FillRig {
    buf: Buffer,
    caret: Caret,
    parser: ansi::Parser,
}

impl FillRig {
    fn new() -> Self {
        let mut buf = Buffer::new((1, 1));
        buf.is_terminal_buffer = true;
        FillRig { buf, caret: Caret::default(), parser: ansi::Parser::default() }
    }
    /// a rig in which a PSF2 font with 2^17 one byte glyphs sits in slot 5 and is the selected font
    fn with_big_font() -> Self {
        use base64::Engine as _;
        let mut r = FillRig::new();
        let font = psf2(0x20000, 1, 1, 8);
        let seq = format!("\x1bPCTerm:Font:5:{}\x1b\\\x1b[0;5 D", base64::engine::general_purpose::STANDARD.encode(font));
        for c in seq.chars() {
            let _ = catch(|| r.parser.print_char(&mut r.buf, 0, &mut r.caret, c));
        }
        r
    }
    /// returns the stored value of cell (0,0) after CSI v;1;1;1;1 $ x
    fn fill(&mut self, v: u64, ctx: &mut Ctx) -> Option<u32> {
        let s = format!("\x1b[{v};1;1;1;1$x");
        for c in s.chars() {
            let (p, b, ca) = (&mut self.parser, &mut self.buf, &mut self.caret);
            if let Err(pn) = catch(|| p.print_char(b, 0, ca, c)) {
                ctx.panic(&pn, json!({"value": v}));
                *self = FillRig::new();
                return None;
            }
        }
        self.buf.layers[0].lines.first().and_then(|l| l.chars.first()).map(|c| c.ch as u32)
    }
}

fn fill_values(vals: impl Iterator<Item = u64>, ctx: &mut Ctx) {
    fill_values_in(FillRig::new(), vals, ctx)
}

fn fill_values_in(mut rig: FillRig, vals: impl Iterator<Item = u64>, ctx: &mut Ctx) {
    let mut f = Fnv::new();
    for v in vals {
        ctx.count("evaluations", 1);
        ctx.count("transitions", 1);
        if let Some(stored) = rig.fill(v, ctx) {
            f.u32(stored);
            if !valid(stored) {
                ctx.violation(
                    format!("inv:scalar:fill-rect:{}", if stored > 0x10FFFF { "above-10FFFF" } else { "surrogate" }),
                    json!({"parameter": v, "stored": stored}),
                );
            } else if valid(v.min(u32::MAX as u64) as u32) && v < 0x11_0000 && stored != v as u32 {
                ctx.count("valid_value_not_stored", 1);
            }
        }
    }
    ctx.state(f.finish());
}

fn psf2(len: u32, charsize: u32, height: u32, width: u32) -> Vec<u8> {
    let mut d = Vec::new();
    for v in [0x864a_b572u32, 0, 32, 0, len, charsize, height, width] {
        d.extend(v.to_le_bytes());
    }
    d.extend((0..len as usize * charsize as usize).map(|i| i as u8));
    d
}

impl Engine for C10 {
    fn total(&self) -> u64 {
        self.batches.len() as u64
    }
    fn describe(&self, idx: u64) -> Value {
        let d = match &self.batches[idx as usize] {
            Batch::Fill(k) => format!("CSI Pc;1;1;1;1$x for Pc in [{}, {})", *k as u64 * 65536, (*k as u64 + 1) * 65536),
            Batch::FillBoundary => "CSI Pc;1;1;1;1$x for Pc in {2^k, 2^k+-1, surrogate bounds, 0x10FFFF+-1, saturation values}".into(),
            Batch::Clipboard(h) => format!("clipboard cell records with character values 0x{h:02x}00..=0x{h:02x}ff"),
            Batch::FontPsf2(n) => format!("PSF2 font with {n} glyphs of 1 byte"),
            Batch::FontPsf1(c) => format!("PSF1 fonts with charsize {c}, 256 and 512 glyph modes"),
            Batch::FontRaw(n) => format!("font glyph table built from {n} glyphs through create_8 / from_basic (1 byte each)"),
            Batch::HexMacro(a) => format!("hex macro digit pairs (0x{a:02x}, every second byte), macro invoked"),
            Batch::FillWithBigFont(k) => format!("CSI Pc;1;1;1;1$x for Pc in [{}, {}) with a 2^17 glyph font loaded by DCS and selected", k * 4096, (k + 1) * 4096),
            Batch::HexMacroScalar(k) => format!("hex macro pairs (c,'0') and ('1',c) for every scalar value c in [{:#x}, {:#x}), macro invoked", k * 4096, (k + 1) * 4096),
        };
        json!({"engine": "unicode", "idx": idx, "batch": d, "key": "unicode"})
    }
    fn replay(&mut self, case: &Value, ctx: &mut Ctx) {
        self.run(case["idx"].as_u64().unwrap_or(0), ctx)
    }
    fn meta(&self) -> Value {
        json!({"batches": self.batches.len(), "fill_rect_domain": "quick: [0, 2^22) + boundary values; thorough: [0, 2^31)"})
    }
    fn run(&mut self, idx: u64, ctx: &mut Ctx) {
        match &self.batches[idx as usize] {
            Batch::Fill(k) => {
                let lo = *k as u64 * 65536;
                fill_values(lo..lo + 65536, ctx);
                ctx.count("nontrivial", 1);
            }
            Batch::FillBoundary => {
                let mut v: Vec<u64> = Vec::new();
                for k in 0..=32u32 {
                    let p = 1u64 << k;
                    v.extend([p.saturating_sub(1), p, p + 1]);
                }
                v.extend([0xD7FF, 0xD800, 0xDBFF, 0xDC00, 0xDFFF, 0xE000, 0x10FFFF, 0x110000, 0x110001, 2147483599, 2147483600, 2147483647, 2147483648, 4294967295, 99999999999]);
                fill_values(v.into_iter(), ctx);
                ctx.count("nontrivial", 1);
            }
            Batch::Clipboard(hi) => {
                let mut f = Fnv::new();
                for lo in 0..=255u8 {
                    let v = (*hi as u16) << 8 | lo as u16;
                    // 1x2 layer: the value in both cells with different attributes
                    let mut d = vec![0u8];
                    d.extend(3i32.to_le_bytes());
                    d.extend((-2i32).to_le_bytes());
                    d.extend(2u32.to_le_bytes());
                    d.extend(1u32.to_le_bytes());
                    for attr in [0u16, 0x8001] {
                        d.extend(v.to_le_bytes());
                        d.extend(attr.to_le_bytes());
                        d.extend(1u16.to_le_bytes());
                        d.extend(1u32.to_le_bytes());
                        d.extend(7u32.to_le_bytes());
                    }
                    ctx.count("evaluations", 1);
                    ctx.count("transitions", 2);
                    match catch(|| Layer::from_clipboard_data(&d)) {
                        Err(p) => ctx.panic(&p, json!({"value": v})),
                        Ok(None) => {
                            ctx.count("clipboard_rejected", 1);
                        }
                        Ok(Some(layer)) => {
                            for line in &layer.lines {
                                for c in &line.chars {
                                    let s = c.ch as u32;
                                    f.u32(s);
                                    if !valid(s) {
                                        ctx.violation("inv:scalar:clipboard:surrogate", json!({"value": v, "stored": s}));
                                    }
                                }
                            }
                        }
                    }
                }
                ctx.state(f.finish());
                if (0xD8..=0xDF).contains(hi) {
                    ctx.count("nontrivial", 1);
                }
            }
            Batch::FontPsf2(n) => {
                let d = psf2(*n, 1, 1, 8);
                ctx.count("evaluations", 1);
                ctx.count("transitions", *n as u64);
                ctx.count("nontrivial", 1);
                match catch(|| BitFont::from_bytes("f", &d)) {
                    Err(p) => ctx.panic(&p, json!({"glyphs": n})),
                    Ok(Err(_)) => ctx.count("font_rejected", 1),
                    Ok(Ok(mut font)) => {
                        check_font(&font, "psf2", json!({"glyphs": n}), ctx);
                        // the conversions that walk 0..length
                        let r = catch(|| {
                            font.calculate_checksum();
                            let a = font.convert_to_u8_data().len();
                            let b = font.to_psf2_bytes().map(|v| v.len()).unwrap_or(0);
                            (a, b)
                        });
                        match r {
                            Err(p) => ctx.panic(&p, json!({"glyphs": n, "during": "checksum/convert/to_psf2"})),
                            Ok((a, b)) => {
                                let mut f = Fnv::new();
                                f.u64(a as u64);
                                f.u64(b as u64);
                                f.u64(font.glyphs.len() as u64);
                                ctx.state(f.finish());
                            }
                        }
                    }
                }
            }
            Batch::FontPsf1(cs) => {
                for mode in [0u8, 1] {
                    let n = if mode == 1 { 512usize } else { 256 };
                    let mut d = vec![0x36, 0x04, mode, *cs];
                    d.extend((0..n * *cs as usize).map(|i| i as u8));
                    ctx.count("evaluations", 1);
                    ctx.count("transitions", n as u64);
                    match catch(|| BitFont::from_bytes("f", &d)) {
                        Err(p) => ctx.panic(&p, json!({"charsize": cs, "mode": mode})),
                        Ok(Err(_)) => ctx.count("font_rejected", 1),
                        Ok(Ok(font)) => {
                            check_font(&font, "psf1", json!({"charsize": cs, "mode": mode}), ctx);
                            ctx.state(font.glyphs.len() as u64 ^ 0x5151);
                        }
                    }
                }
            }
            Batch::FontRaw(n) => {
                let d: Vec<u8> = (0..*n as usize).map(|i| i as u8).collect();
                ctx.count("evaluations", 2);
                ctx.count("transitions", *n as u64 * 2);
                match catch(|| (BitFont::create_8("x", 8, 1, &d), BitFont::from_basic(8, 1, &d))) {
                    Err(p) => ctx.panic(&p, json!({"glyphs": n})),
                    Ok((a, b)) => {
                        check_font(&a, "create_8", json!({"glyphs": n}), ctx);
                        check_font(&b, "from_basic", json!({"glyphs": n}), ctx);
                        ctx.state(a.glyphs.len() as u64 ^ 0x7171);
                    }
                }
            }
            Batch::FillWithBigFont(k) => {
                let lo = *k as u64 * 4096;
                fill_values_in(FillRig::with_big_font(), lo..lo + 4096, ctx);
                ctx.count("nontrivial", 1);
            }
            Batch::HexMacroScalar(k) => {
                let mut f = Fnv::new();
                for v in (*k * 4096)..((*k + 1) * 4096) {
                    let Some(c) = char::from_u32(v) else { continue };
                    if c == '\x1b' {
                        continue;
                    }
                    for pair in [[c, '0'], ['1', c]] {
                        let mut buf = Buffer::new((4, 2));
                        buf.is_terminal_buffer = true;
                        let mut caret = Caret::default();
                        let mut parser = ansi::Parser::default();
                        let s: String = format!("\x1bP1;0;1!z{}{}\x1b\\\x1b[1*z", pair[0], pair[1]);
                        ctx.count("evaluations", 1);
                        ctx.count("transitions", s.chars().count() as u64);
                        for ch in s.chars() {
                            if let Err(p) = catch(|| parser.print_char(&mut buf, 0, &mut caret, ch)) {
                                ctx.panic(&p, json!({"pair": [pair[0] as u32, pair[1] as u32]}));
                            }
                        }
                        check_buffer(&buf, "hex-macro", json!({"pair_scalars": [pair[0] as u32, pair[1] as u32]}), ctx);
                        if let Some(c) = buf.layers[0].lines.first().and_then(|l| l.chars.first()) {
                            f.u32(c.ch as u32);
                        }
                    }
                }
                ctx.state(f.finish());
                ctx.count("nontrivial", 1);
            }
            Batch::HexMacro(a) => {
                let mut f = Fnv::new();
                if *a == b'0' {
                    // repeat groups of bytes >= 0x80 (two bytes each in the stored macro) that overflow the macro space, starting at an even
                    // and at an odd offset: the stored macro must stay a valid string (observed by invoking it and by the checksum report)
                    for prefix in ["", "41", "4142"] {
                        for (n, unit) in [(20000u32, "E9"), (40000, "E9"), (20000, "C3A9"), (11000, "E9E9FF"), (65535, "80")] {
                            let mut buf = Buffer::new((80, 25));
                            buf.is_terminal_buffer = true;
                            let mut caret = Caret::default();
                            let mut parser = ansi::Parser::default();
                            let s = format!("\x1bP1;0;1!z{prefix}!{n};{unit};\x1b\\\x1b[1*z\x1b[?63;1n");
                            ctx.count("evaluations", 1);
                            ctx.count("transitions", s.len() as u64);
                            let mut report: Option<String> = None;
                            for c in s.bytes() {
                                match catch(|| parser.print_char(&mut buf, 0, &mut caret, c as char)) {
                                    Err(p) => {
                                        ctx.panic(&p, json!({"macro": s}));
                                        break;
                                    }
                                    Ok(Ok(icy_engine::CallbackAction::SendString(r))) => report = Some(r),
                                    Ok(_) => {}
                                }
                            }
                            check_buffer(&buf, "hex-macro-repeat-overflow", json!({"macro": s}), ctx);
                            // the stored macro is observed through the checksum report: it is the prefix and as many WHOLE repetitions of the
                            // unit as fit into the macro space of 32767 bytes - a valid string; a repetition cut inside a character is not
                            let bytes_of = |hex: &str| -> Vec<u8> {
                                let raw: Vec<u8> = (0..hex.len() / 2).map(|i| u8::from_str_radix(&hex[2 * i..2 * i + 2], 16).unwrap()).collect();
                                raw.iter().map(|b| *b as char).collect::<String>().into_bytes()
                            };
                            let mut body = bytes_of(prefix);
                            let u = bytes_of(unit);
                            let mut k = 0;
                            while k < n && body.len() + u.len() <= 0x7FFF {
                                body.extend(&u);
                                k += 1;
                            }
                            let mut crc = 0u16;
                            for i in 0..64 {
                                if i == 1 {
                                    for b in &body {
                                        crc = icy_engine::update_crc16(crc, *b);
                                    }
                                }
                                crc = icy_engine::update_crc16(crc, 0);
                            }
                            let want = format!("\x1bP1!~{crc:04X}\x1b\\");
                            if report.as_deref() != Some(want.as_str()) {
                                ctx.violation("diff:macro-body:checksum-of-whole-repetitions", json!({"macro": s, "report": report, "expected_for_a_body_of_whole_repetitions": want, "body_len": body.len()}));
                            }
                        }
                    }
                }
                for b in 0..=255u8 {
                    if *a == 0x1b || b == 0x1b {
                        continue;
                    }
                    let mut buf = Buffer::new((4, 2));
                    buf.is_terminal_buffer = true;
                    let mut caret = Caret::default();
                    let mut parser = ansi::Parser::default();
                    let mut s: Vec<u8> = b"\x1bP1;0;1!z".to_vec();
                    s.push(*a);
                    s.push(b);
                    s.extend(b"\x1b\\\x1b[1*z");
                    ctx.count("evaluations", 1);
                    ctx.count("transitions", s.len() as u64);
                    for c in s {
                        if let Err(p) = catch(|| parser.print_char(&mut buf, 0, &mut caret, c as char)) {
                            ctx.panic(&p, json!({"pair": [a, b]}));
                        }
                    }
                    check_buffer(&buf, "hex-macro", json!({"pair": [a, b]}), ctx);
                    if let Some(c) = buf.layers[0].lines.first().and_then(|l| l.chars.first()) {
                        f.u32(c.ch as u32);
                    }
                }
                ctx.state(f.finish());
                if (*a as char).is_ascii_hexdigit() {
                    ctx.count("nontrivial", 1);
                }
            }
        }
    }
}

fn main() {
    worker_main(|_prop, tier| Box::new(build(tier)));
}
