//! C05 (binary art formats reproduce what was saved; re-save stability) and
//! C06 (XBin compression is transparent and conforms to the specification).
//! Small-scope enumeration of documents, round trip through the real writers and loaders, plus
//! independent decoders written from the format specifications in /repo/doc/FileFormats.

use icy_engine::{BitFont, Buffer, IceMode, Palette, SaveOptions, TextPane, Color};
use std::path::PathBuf;
use vharness::doc::*;
use vharness::{catch, json, worker_main, Ctx, Engine, Fnv, Value};

#[derive(Clone, Copy, Debug, PartialEq, Eq)]
enum Fmt {
    Xb,
    Bin,
    Adf,
    Idf,
    Tnd,
}

impl Fmt {
    fn ext(self) -> &'static str {
        match self {
            Fmt::Xb => "xb",
            Fmt::Bin => "bin",
            Fmt::Adf => "adf",
            Fmt::Idf => "idf",
            Fmt::Tnd => "tnd",
        }
    }
}

#[derive(Clone, Copy, Debug, PartialEq)]
enum Fonts {
    Default,
    Custom(u8), // height
    Two(u8),
}

#[derive(Clone, Debug)]
enum Content {
    Pattern,
    PairSweep(u32),
    Rows(Vec<Vec<Cell>>), // one row per line, starting at column 0
}

#[derive(Clone, Debug)]
struct DocSpec {
    fmt: Fmt,
    w: i32,
    h: i32,
    ice: bool,
    compress: bool,
    fonts: Fonts,
    custom_palette: bool,
    content: Content,
}

fn attr_to_cell(ch: u32, b: u8, ice: bool, two_fonts: bool) -> Cell {
    let mut c = Cell::new(ch, (b & 15) as u32, ((b >> 4) & 7) as u32);
    if ice {
        c.bg = (b >> 4) as u32;
    } else {
        c.blink = b & 0x80 != 0;
    }
    if two_fonts {
        c.fg = (b & 7) as u32;
        c.page = ((b >> 3) & 1) as usize;
    }
    c
}

fn cell_attr_byte(c: &Cell, ice: bool, two_fonts: bool) -> u8 {
    let mut b = (c.fg & 15) as u8 | ((c.bg & 15) as u8) << 4;
    if !ice {
        b = (c.fg & 15) as u8 | ((c.bg & 7) as u8) << 4 | if c.blink { 0x80 } else { 0 };
    }
    if two_fonts {
        b = (b & 0xF7) | if c.page == 1 { 8 } else { 0 };
    }
    b
}

fn custom_palette() -> Palette {
    // 6-bit exact values so that every format that stores 6 bits can reproduce it
    let mut cols = Vec::new();
    for i in 0..16u8 {
        let v = |k: u8| {
            let s = (i.wrapping_mul(k).wrapping_add(k * 3)) & 63;
            s << 2 | s >> 4
        };
        cols.push(Color::new(v(5), v(11), v(23)));
    }
    Palette::from_slice(&cols)
}

impl DocSpec {
    fn two_fonts(&self) -> bool {
        matches!(self.fonts, Fonts::Two(_))
    }

    fn cells(&self) -> Vec<Cell> {
        let n = (self.w * self.h) as usize;
        let mut v = vec![Cell::new(32, 7, 0); n];
        let ice = self.ice;
        let tf = self.two_fonts();
        match &self.content {
            Content::Pattern => {
                for y in 0..self.h {
                    for x in 0..self.w {
                        let ch = ((x * 7 + y * 13 + 1) % 256) as u32;
                        let b = ((x + y * 3) * 5 % 256) as u8;
                        v[(y * self.w + x) as usize] = attr_to_cell(ch, b, ice, tf);
                    }
                }
            }
            Content::PairSweep(k) => {
                let per_doc = (n as u32 + 255) / 256;
                for i in 0..n {
                    let ch = (i % 256) as u32;
                    let b = ((i as u32 / 256 + k * per_doc) % 256) as u8;
                    v[i] = attr_to_cell(ch, b, ice, tf);
                }
            }
            Content::Rows(rows) => {
                for (y, r) in rows.iter().enumerate() {
                    for (x, c) in r.iter().enumerate() {
                        if (x as i32) < self.w && (y as i32) < self.h {
                            v[y * self.w as usize + x] = *c;
                        }
                    }
                }
            }
        }
        if self.fmt == Fmt::Tnd {
            // the format has no blink and stores colours, not attribute bytes
            for c in &mut v {
                c.blink = false;
            }
        }
        v
    }

    fn build(&self) -> Buffer {
        let mut buf = new_buffer(self.w, self.h, if self.ice { IceMode::Ice } else { IceMode::Blink });
        match self.fonts {
            Fonts::Default => {}
            Fonts::Custom(h) => buf.set_font(0, synth_font("custom", h, 3)),
            Fonts::Two(h) => {
                buf.set_font(0, synth_font("custom a", h, 3));
                buf.set_font(1, synth_font("custom b", h, 91));
            }
        }
        if self.custom_palette {
            buf.palette = custom_palette();
        }
        let cells = self.cells();
        for y in 0..self.h {
            for x in 0..self.w {
                put(&mut buf, x, y, &cells[(y * self.w + x) as usize]);
            }
        }
        buf
    }

    fn json(&self) -> Value {
        json!({"format": self.fmt.ext(), "width": self.w, "height": self.h, "ice": self.ice, "compress": self.compress, "fonts": format!("{:?}", self.fonts),
               "custom_palette": self.custom_palette,
               "content": match &self.content { Content::Pattern => json!("pattern"), Content::PairSweep(k) => json!(format!("pair sweep {k}")),
                   Content::Rows(r) => json!({"rows": r.len(), "first": r.first().map(|x| x.iter().map(|c| c.json()).collect::<Vec<_>>())}) }})
    }
}

fn save(buf: &Buffer, fmt: Fmt, compress: bool, sauce: bool) -> Result<Vec<u8>, String> {
    let mut o = SaveOptions::new();
    o.lossles_output = true;
    o.compress = compress;
    o.save_sauce = sauce;
    match catch(|| buf.to_bytes(fmt.ext(), &o)) {
        Ok(Ok(v)) => Ok(v),
        Ok(Err(e)) => Err(format!("save error: {e}")),
        Err(p) => Err(format!("PANIC {}", p.signature())),
    }
}

fn load(fmt: Fmt, bytes: &[u8]) -> Result<Buffer, String> {
    match catch(|| Buffer::from_bytes(&PathBuf::from(format!("x.{}", fmt.ext())), false, bytes)) {
        Ok(Ok(b)) => Ok(b),
        Ok(Err(e)) => Err(format!("load error: {e}")),
        Err(p) => Err(format!("PANIC {}", p.signature())),
    }
}

fn needs_sauce(d: &DocSpec) -> bool {
    match d.fmt {
        Fmt::Bin => true,
        Fmt::Tnd => d.w != 80,
        _ => false,
    }
}

/// the class of the input a difference occurred on (part of the signature)
fn input_class(d: &DocSpec) -> String {
    let mut v = Vec::new();
    if d.h < 25 {
        v.push("height<25");
    }
    if d.two_fonts() {
        v.push("two-fonts");
    }
    if d.compress && d.fmt == Fmt::Xb {
        v.push("compressed");
    }
    if v.is_empty() {
        "other".into()
    } else {
        v.join("+")
    }
}

fn compare_picture(d: &DocSpec, src: &Buffer, got: &Buffer, what: &str, ctx: &mut Ctx) -> bool {
    let fmt = d.fmt.ext();
    let cls = input_class(d);
    if got.get_width() != d.w || got.get_height() != d.h {
        ctx.violation(
            format!("diff:{fmt}:{what}:size:{cls}"),
            json!({"doc": d.json(), "got": [got.get_width(), got.get_height()], "want": [d.w, d.h]}),
        );
        return false;
    }
    for y in 0..d.h {
        for x in 0..d.w {
            let a = shown(src, x, y);
            let b = shown(got, x, y);
            let mut kind = None;
            if a.ch != b.ch {
                kind = Some("char");
            } else if a.fg != b.fg {
                kind = Some("fg");
            } else if a.bg != b.bg {
                kind = Some("bg");
            } else if a.blink != b.blink {
                kind = Some("blink");
            } else if d.two_fonts() && a.page != b.page {
                kind = Some("font-page");
            }
            if let Some(k) = kind {
                let ccls = if (1..=6).contains(&a.ch) { "char-in-1..6" } else if a.ch == 0 { "char-0" } else { "any-char" };
                ctx.violation(
                    format!("diff:{fmt}:{what}:{k}:{ccls}:{cls}"),
                    json!({"doc": d.json(), "x": x, "y": y, "source": shown_json(&a), "loaded": shown_json(&b)}),
                );
                return false;
            }
        }
    }
    true
}

// ------------------------------------------------------------------ spec decoders

struct Decoded {
    w: i32,
    h: i32,
    cells: Vec<(u8, u8)>,
    palette6: Option<Vec<u8>>,
    fonts: Vec<Vec<u8>>,
    flags: u8,
    /// bytes of the compressed stream that follow the last row
    trailing: usize,
    problems: Vec<String>,
}

/// XBin per doc/FileFormats/x_bin.htm
fn decode_xbin(b: &[u8]) -> Result<Decoded, String> {
    if b.len() < 11 || &b[0..4] != b"XBIN" || b[4] != 0x1A {
        return Err("bad header".into());
    }
    let w = b[5] as i32 | (b[6] as i32) << 8;
    let h = b[7] as i32 | (b[8] as i32) << 8;
    let fsize = if b[9] == 0 { 16 } else { b[9] as usize };
    let flags = b[10];
    let mut o = 11;
    let mut d = Decoded { w, h, cells: vec![], palette6: None, fonts: vec![], flags, trailing: 0, problems: vec![] };
    if flags & 1 != 0 {
        if o + 48 > b.len() {
            return Err("palette beyond EOF".into());
        }
        d.palette6 = Some(b[o..o + 48].to_vec());
        o += 48;
    }
    if flags & 2 != 0 {
        let n = if flags & 16 != 0 { 2 } else { 1 };
        for _ in 0..n {
            if o + 256 * fsize > b.len() {
                return Err("font beyond EOF".into());
            }
            d.fonts.push(b[o..o + 256 * fsize].to_vec());
            o += 256 * fsize;
        }
    } else if flags & 16 != 0 {
        d.problems.push("512 character mode without font flag".into());
    }
    if flags & 4 == 0 {
        let need = (w * h * 2) as usize;
        if o + need > b.len() {
            return Err(format!("uncompressed data short: need {need} have {}", b.len() - o));
        }
        for i in 0..(w * h) as usize {
            d.cells.push((b[o + 2 * i], b[o + 2 * i + 1]));
        }
        d.trailing = b.len() - o - need;
        return Ok(d);
    }
    for row in 0..h {
        let mut x = 0;
        while x < w {
            if o >= b.len() {
                return Err(format!("EOF inside row {row} at column {x}"));
            }
            let c = b[o];
            o += 1;
            let n = (c & 63) as i32 + 1; // 1..=64 by construction of the 6 bit field
            let typ = c >> 6;
            if x + n > w {
                d.problems.push(format!("run of {n} at column {x} of row {row} crosses the row end (width {w})"));
            }
            let need = match typ {
                0 => 2 * n as usize,
                1 | 2 => 1 + n as usize,
                _ => 2,
            };
            if o + need > b.len() {
                return Err(format!("EOF inside run in row {row}"));
            }
            match typ {
                0 => {
                    for i in 0..n as usize {
                        d.cells.push((b[o + 2 * i], b[o + 2 * i + 1]));
                    }
                }
                1 => {
                    for i in 0..n as usize {
                        d.cells.push((b[o], b[o + 1 + i]));
                    }
                }
                2 => {
                    for i in 0..n as usize {
                        d.cells.push((b[o + 1 + i], b[o]));
                    }
                }
                _ => {
                    for _ in 0..n {
                        d.cells.push((b[o], b[o + 1]));
                    }
                }
            }
            o += need;
            x += n;
        }
        if x != w {
            d.problems.push(format!("row {row} decodes to {x} cells, width is {w}"));
            // resynchronise like a row-by-row decoder would: drop the excess
            let excess = (x - w) as usize;
            let l = d.cells.len();
            d.cells.truncate(l - excess);
        }
    }
    d.trailing = b.len() - o;
    Ok(d)
}

/// BIN: char/attribute pairs, width from SAUCE
fn decode_bin(b: &[u8], w: i32, content_len: usize) -> Decoded {
    let mut d = Decoded { w, h: (content_len as i32 / 2) / w.max(1), cells: vec![], palette6: None, fonts: vec![], flags: 0, trailing: 0, problems: vec![] };
    for i in 0..content_len / 2 {
        d.cells.push((b[2 * i], b[2 * i + 1]));
    }
    d
}

/// ArtWorx ADF per doc/FileFormats/Adf/ArtworxDataFormat.txt: version, 64x3 palette, 4096 font, pairs
fn decode_adf(b: &[u8]) -> Result<Decoded, String> {
    if b.len() < 1 + 192 + 4096 {
        return Err("short".into());
    }
    let mut d = Decoded { w: 80, h: 0, cells: vec![], palette6: Some(b[1..193].to_vec()), fonts: vec![b[193..193 + 4096].to_vec()], flags: b[0], trailing: 0, problems: vec![] };
    let data = &b[193 + 4096..];
    for i in 0..data.len() / 2 {
        d.cells.push((data[2 * i], data[2 * i + 1]));
    }
    d.h = (d.cells.len() as i32 + 79) / 80;
    Ok(d)
}

/// iCE Draw IDF per doc/FileFormats/IceDraw/idv_103.pas: header, x1 y1 x2 y2, RLE data (1,0,count,char,attr), font 4096, palette 48
fn decode_idf(b: &[u8]) -> Result<Decoded, String> {
    if b.len() < 12 + 4096 + 48 || (&b[0..4] != b"\x041.4" && &b[0..4] != b"\x041.3") {
        return Err("bad header".into());
    }
    let rd = |o: usize| b[o] as i32 | (b[o + 1] as i32) << 8;
    let (x1, y1, x2, y2) = (rd(4), rd(6), rd(8), rd(10));
    let end = b.len() - 4096 - 48;
    let mut d = Decoded { w: x2 - x1 + 1, h: y2 - y1 + 1, cells: vec![], palette6: Some(b[end + 4096..].to_vec()), fonts: vec![b[end..end + 4096].to_vec()], flags: 0, trailing: 0, problems: vec![] };
    let mut o = 12;
    while o + 1 < end {
        let (c, a) = (b[o], b[o + 1]);
        o += 2;
        if c == 1 && a == 0 {
            if o + 3 >= end + 0 && o + 4 > end {
                d.problems.push("RLE record cut by the end of the data area".into());
                break;
            }
            let n = rd(o);
            let (c2, a2) = (b[o + 2], b[o + 3]);
            o += 4;
            for _ in 0..n {
                d.cells.push((c2, a2));
            }
        } else {
            d.cells.push((c, a));
        }
    }
    Ok(d)
}

// ------------------------------------------------------------------ the round trip of one document

fn roundtrip(d: &DocSpec, ctx: &mut Ctx) {
    ctx.count("evaluations", 1);
    let src = d.build();
    let sauce = needs_sauce(d);
    let bytes = match save(&src, d.fmt, d.compress, sauce) {
        Ok(b) => b,
        Err(e) => {
            if e.starts_with("PANIC") {
                ctx.violation(format!("{}:save", e.replace("PANIC ", "")), json!({"doc": d.json()}));
            } else {
                ctx.violation(format!("diff:{}:save-refused:{}", d.fmt.ext(), input_class(d)), json!({"doc": d.json(), "error": e}));
            }
            return;
        }
    };
    ctx.count("transitions", 2);
    let mut f = Fnv::new();
    f.bytes(&bytes[..bytes.len().min(4096)]);
    f.u64(bytes.len() as u64);
    ctx.state(f.finish());
    let got = match load(d.fmt, &bytes) {
        Ok(b) => b,
        Err(e) => {
            let sig = if e.starts_with("PANIC") { format!("{}:load-of-own-output", e.replace("PANIC ", "")) } else { format!("diff:{}:load-refused-own-output:{}", d.fmt.ext(), input_class(d)) };
            ctx.violation(sig, json!({"doc": d.json(), "error": e}));
            return;
        }
    };
    let ok = compare_picture(d, &src, &got, "roundtrip", ctx);
    // blink / ice is a property of the file: a blink document does not come back in the engine's third ("unlimited") mode
    if got.ice_mode != (if d.ice { IceMode::Ice } else { IceMode::Blink }) && d.fmt != Fmt::Tnd {
        ctx.violation(format!("diff:{}:roundtrip:ice-mode", d.fmt.ext()), json!({"doc": d.json(), "got": format!("{:?}", got.ice_mode)}));
    }
    // embedded fonts
    let embeds_font = match d.fmt {
        Fmt::Xb => d.fonts != Fonts::Default,
        Fmt::Adf | Fmt::Idf => true,
        _ => false,
    };
    if embeds_font {
        // the second font is embedded (512 character mode) only if a cell uses it: a document too small to hold a cell of page 1 keeps one font
        let uses_page1 = (0..src.get_height()).any(|y| (0..src.get_width()).any(|x| src.get_char((x, y)).get_font_page() == 1));
        let pages: &[usize] = if d.two_fonts() && uses_page1 { &[0, 1] } else { &[0] };
        for &p in pages {
            let a = src.get_font(p).map(font_glyph_bytes);
            let b = got.get_font(p).map(font_glyph_bytes);
            let sa = src.get_font(p).map(|f| (f.size.width, f.size.height, f.length));
            let sb = got.get_font(p).map(|f| (f.size.width, f.size.height, f.length));
            if a != b || sa != sb {
                ctx.violation(format!("diff:{}:roundtrip:font-glyphs", d.fmt.ext()), json!({"doc": d.json(), "page": p, "src_dims": sa, "got_dims": sb}));
            }
        }
    }
    let embeds_palette = match d.fmt {
        Fmt::Xb => d.custom_palette,
        Fmt::Adf | Fmt::Idf => true,
        _ => false,
    };
    if embeds_palette {
        for i in 0..16 {
            if src.palette.get_rgb(i) != got.palette.get_rgb(i) {
                ctx.violation(format!("diff:{}:roundtrip:palette", d.fmt.ext()), json!({"doc": d.json(), "index": i, "src": src.palette.get_rgb(i), "got": got.palette.get_rgb(i)}));
                break;
            }
        }
    }
    // independent decoder
    let cells = d.cells();
    let content_len = match icy_engine::SauceData::extract(&bytes) {
        Ok(Some(s)) => bytes.len() - s.sauce_header_len,
        _ => bytes.len(),
    };
    let dec = match d.fmt {
        Fmt::Xb => decode_xbin(&bytes[..content_len]),
        Fmt::Bin => Ok(decode_bin(&bytes, d.w, content_len)),
        Fmt::Adf => decode_adf(&bytes[..content_len]),
        Fmt::Idf => decode_idf(&bytes[..content_len]),
        Fmt::Tnd => return,
    };
    ctx.count("traces_validated", 1);
    match dec {
        Err(e) => ctx.violation(format!("diff:{}:spec-decoder:rejects", d.fmt.ext()), json!({"doc": d.json(), "error": e})),
        Ok(dec) => {
            for p in &dec.problems {
                let k = if p.contains("crosses") { "run-crosses-row" } else if p.contains("decodes to") { "row-length" } else { "other" };
                ctx.violation(format!("diff:{}:spec-decoder:{k}", d.fmt.ext()), json!({"doc": d.json(), "problem": p}));
                break;
            }
            if dec.trailing != 0 {
                ctx.violation(format!("diff:{}:spec-decoder:trailing-bytes", d.fmt.ext()), json!({"doc": d.json(), "trailing": dec.trailing}));
            }
            if dec.w != d.w || dec.h != d.h || dec.cells.len() != cells.len() {
                ctx.violation(format!("diff:{}:spec-decoder:size:{}", d.fmt.ext(), input_class(d)), json!({"doc": d.json(), "decoded": [dec.w, dec.h, dec.cells.len()]}));
            } else if ok {
                for (i, c) in cells.iter().enumerate() {
                    let want = (c.ch as u8, cell_attr_byte(c, d.ice, d.two_fonts()));
                    if dec.cells[i] != want {
                        let k = if dec.cells[i].0 != want.0 { "char" } else if d.two_fonts() && (dec.cells[i].1 ^ want.1) == 8 { "font-page-bit" } else { "attribute" };
                        ctx.violation(
                            format!("diff:{}:spec-decoder:{k}:{}", d.fmt.ext(), input_class(d)),
                            json!({"doc": d.json(), "cell": i, "x": i as i32 % d.w, "y": i as i32 / d.w, "decoded": [dec.cells[i].0, dec.cells[i].1], "want": [want.0, want.1]}),
                        );
                        break;
                    }
                }
            }
            if d.fmt == Fmt::Xb {
                let f = dec.flags;
                let uses_page1 = (0..src.get_height()).any(|y| (0..src.get_width()).any(|x| src.get_char((x, y)).get_font_page() == 1));
                if (f & 8 != 0) != d.ice || (f & 4 != 0) != d.compress || (f & 16 != 0) != (d.two_fonts() && uses_page1) {
                    ctx.violation("diff:xb:spec-decoder:flags", json!({"doc": d.json(), "flags": f}));
                }
            }
        }
    }
}

// ------------------------------------------------------------------ C06

const C6_CHARS: [u32; 3] = [b'a' as u32, b'b' as u32, 0xDB];
// (fg, bg, blink) with fg < 8 because bit 3 selects the font page in 512 character mode
const C6_ATTRS: [(u32, u32, bool); 3] = [(7, 0, false), (4, 2, false), (1, 7, true)];

fn c6_cell(v: usize, small: bool) -> Cell {
    if small {
        let mut c = Cell::new(C6_CHARS[v & 1], C6_ATTRS[(v >> 1) & 1].0, C6_ATTRS[(v >> 1) & 1].1);
        c.page = (v >> 2) & 1;
        c
    } else {
        let a = C6_ATTRS[(v / 3) % 3];
        let mut c = Cell::new(C6_CHARS[v % 3], a.0, a.1);
        c.blink = a.2;
        c.page = v / 9;
        c
    }
}

fn c6_rows_batch(width: u32, base: u64, count: u64, small: bool) -> Vec<Vec<Cell>> {
    let n: u64 = if small { 8 } else { 18 };
    let mut rows = Vec::with_capacity(count as usize + 1);
    for r in 0..count {
        let mut v = base + r;
        let mut row = Vec::with_capacity(width as usize);
        for _ in 0..width {
            row.push(c6_cell((v % n) as usize, small));
            v /= n;
        }
        rows.push(row);
    }
    // sentinel row: keeps both font pages in use whatever the batch contains
    let mut s: Vec<Cell> = (0..width).map(|i| c6_cell(if i % 2 == 0 { 0 } else { if small { 4 } else { 9 } }, small)).collect();
    if width == 1 {
        s[0] = c6_cell(if small { 4 } else { 9 }, small);
    }
    rows.push(s);
    rows
}

fn long_rows(width: i32) -> Vec<Vec<Cell>> {
    // concatenations of <= 3 runs, each run one of {constant cell, constant char, constant attr, all different}, every split point
    let kinds = 4;
    let mut rows = Vec::new();
    let gen = |kind: usize, i: usize, seed: usize| -> Cell {
        let chars = [b'x' as u32, b'y' as u32, b'z' as u32, 0xB0, 0xB1, 0xB2, b'1' as u32];
        let attrs: [(u32, u32); 7] = [(1, 0), (2, 1), (3, 2), (4, 3), (5, 4), (6, 5), (7, 6)];
        let (ci, ai) = match kind {
            0 => (seed % 7, seed % 7),
            1 => (seed % 7, (seed + i) % 7),
            2 => ((seed + i) % 7, seed % 7),
            _ => ((seed + i) % 7, (seed + 2 * i + 1) % 7),
        };
        let mut c = Cell::new(chars[ci], attrs[ai].0, attrs[ai].1);
        c.page = (seed / 2) % 2;
        c
    };
    let w = width as usize;
    for k1 in 0..kinds {
        for k2 in 0..kinds {
            for s1 in [0usize, 1, 2, 62, 63, 64, 65, 66, w / 2, w - 1, w] {
                if s1 > w {
                    continue;
                }
                for k3 in [0usize, 3] {
                    for s2 in [s1, (s1 + 64).min(w), (s1 + 65).min(w), w] {
                        let mut row = Vec::with_capacity(w);
                        for i in 0..w {
                            let c = if i < s1 { gen(k1, i, 1) } else if i < s2 { gen(k2, i - s1, 2) } else { gen(k3, i - s2, 3) };
                            row.push(c);
                        }
                        rows.push(row);
                    }
                }
            }
        }
    }
    rows
}

fn c06_doc(rows: Vec<Vec<Cell>>, width: i32, ice: bool) -> DocSpec {
    DocSpec { fmt: Fmt::Xb, w: width, h: rows.len() as i32, ice, compress: true, fonts: Fonts::Two(16), custom_palette: false, content: Content::Rows(rows) }
}

fn run_c06_doc(d: &DocSpec, ctx: &mut Ctx) {
    let src = d.build();
    let rows = d.h as u64;
    ctx.count("evaluations", rows);
    ctx.count("nontrivial", rows);
    let comp = match save(&src, Fmt::Xb, true, false) {
        Ok(b) => b,
        Err(e) => {
            ctx.violation(format!("diff:xb:c06:save:{}", if e.starts_with("PANIC") { e.clone() } else { "refused".into() }), json!({"doc": d.json(), "error": e}));
            return;
        }
    };
    let raw = match save(&src, Fmt::Xb, false, false) {
        Ok(b) => b,
        Err(e) => {
            ctx.violation("diff:xb:c06:save-uncompressed", json!({"doc": d.json(), "error": e}));
            return;
        }
    };
    ctx.count("transitions", 4 * rows);
    let (lc, lr) = match (load(Fmt::Xb, &comp), load(Fmt::Xb, &raw)) {
        (Ok(a), Ok(b)) => (a, b),
        (a, b) => {
            ctx.violation("diff:xb:c06:load-refused-own-output", json!({"doc": d.json(), "compressed": a.err(), "uncompressed": b.err()}));
            return;
        }
    };
    let mut f = Fnv::new();
    f.bytes(&comp[comp.len().min(11 + 8192)..]);
    ctx.state(f.finish());
    // (i) compressed and uncompressed decode to identical pictures, and to the source
    for (which, got) in [("compressed", &lc), ("uncompressed", &lr)] {
        if got.get_width() != d.w || got.get_height() != d.h {
            ctx.violation(format!("diff:xb:c06:{which}:size:{}", input_class(d)), json!({"doc": d.json(), "got": [got.get_width(), got.get_height()]}));
            return;
        }
    }
    for y in 0..d.h {
        for x in 0..d.w {
            let s = shown(&src, x, y);
            let a = shown(&lc, x, y);
            let b = shown(&lr, x, y);
            if a != b || a.ch != s.ch || a.fg != s.fg || a.bg != s.bg || a.blink != s.blink || a.page != s.page {
                let k = if a.page != b.page || a.page != s.page { "font-page" } else if a.ch != s.ch { "char" } else { "colour" };
                let row: Vec<Value> = (0..d.w).map(|xx| shown_json(&shown(&src, xx, y))).collect();
                ctx.violation(
                    format!("diff:xb:c06:compressed-vs-uncompressed:{k}"),
                    json!({"width": d.w, "row_index": y, "x": x, "row": row, "compressed": shown_json(&a), "uncompressed": shown_json(&b)}),
                );
                return;
            }
        }
    }
    // (ii)+(iii) the independent decoder accepts the stream and decodes the source
    ctx.count("traces_validated", rows);
    match decode_xbin(&comp) {
        Err(e) => ctx.violation("diff:xb:c06:spec-decoder:rejects", json!({"doc": d.json(), "error": e})),
        Ok(dec) => {
            if let Some(p) = dec.problems.first() {
                let k = if p.contains("crosses") { "run-crosses-row" } else { "row-length" };
                ctx.violation(format!("diff:xb:c06:spec-decoder:{k}"), json!({"width": d.w, "problem": p, "doc": d.json()}));
                return;
            }
            if dec.trailing != 0 {
                ctx.violation("diff:xb:c06:spec-decoder:trailing-bytes", json!({"doc": d.json(), "trailing": dec.trailing}));
                return;
            }
            let cells = d.cells();
            if dec.cells.len() != cells.len() {
                ctx.violation("diff:xb:c06:spec-decoder:cell-count", json!({"doc": d.json(), "decoded": dec.cells.len(), "want": cells.len()}));
                return;
            }
            for (i, c) in cells.iter().enumerate() {
                let want = (c.ch as u8, cell_attr_byte(c, d.ice, true));
                if dec.cells[i] != want {
                    let k = if dec.cells[i].0 != want.0 { "char" } else if (dec.cells[i].1 ^ want.1) == 8 { "font-page-bit" } else { "attribute" };
                    let y = i as i32 / d.w;
                    let row: Vec<Value> = (0..d.w).map(|xx| cells[(y * d.w + xx) as usize].json()).collect();
                    ctx.violation(format!("diff:xb:c06:spec-decoder:{k}"), json!({"width": d.w, "row_index": y, "x": i as i32 % d.w, "row": row, "decoded": [dec.cells[i].0, dec.cells[i].1], "want": [want.0, want.1]}));
                    return;
                }
            }
        }
    }
    // second generation: the loaded picture saved compressed again is a conforming stream for the same cells
    // (a loaded buffer differs from a built one in what is stored behind the picture: rows of the 80x25 start buffer, lazily stored lines)
    for (which, loaded) in [("compressed", &lc), ("uncompressed", &lr)] {
        ctx.count("transitions", rows);
        match save(loaded, Fmt::Xb, true, false) {
            Err(e) => {
                ctx.violation(format!("diff:xb:c06:second-generation:save:{}", if e.starts_with("PANIC") { e.clone() } else { "refused".into() }), json!({"doc": d.json(), "first_generation": which, "error": e}));
                return;
            }
            Ok(again) => match decode_xbin(&again) {
                Err(e) => {
                    ctx.violation("diff:xb:c06:second-generation:spec-decoder:rejects", json!({"doc": d.json(), "first_generation": which, "error": e}));
                    return;
                }
                Ok(dec) => {
                    let cells = d.cells();
                    let bad = if let Some(p) = dec.problems.first() {
                        Some(format!("problem: {p}"))
                    } else if dec.trailing != 0 {
                        Some(format!("{} bytes follow the last row", dec.trailing))
                    } else if dec.w != d.w || dec.h != d.h {
                        Some(format!("size {}x{}", dec.w, dec.h))
                    } else if dec.cells.len() != cells.len() || cells.iter().enumerate().any(|(i, c)| dec.cells[i] != (c.ch as u8, cell_attr_byte(c, d.ice, true))) {
                        Some("cells differ from the source".to_string())
                    } else {
                        None
                    };
                    if let Some(b) = bad {
                        ctx.violation(format!("diff:xb:c06:second-generation:{}", b.split(':').next().unwrap_or("").split(' ').last().unwrap_or("")), json!({"doc": d.json(), "first_generation": which, "what": b}));
                        return;
                    }
                }
            },
        }
    }
}

const C06_LAYER_VARIANTS: usize = 24;

/// a document built in several steps: background rows with runs, then (variant) a second layer on top / a moved base layer / a hidden layer.
/// compressed and uncompressed files must both show the merged picture, and the compressed stream must conform.
fn run_c06_layers(variant: usize, ctx: &mut Ctx) {
    let (w, h) = ([5, 16, 80][variant % 3], 3);
    let kind = (variant / 3) % 4; // 0 second opaque layer, 1 second alpha layer, 2 base layer moved, 3 hidden layer on top
    let ice = variant / 12 == 1;
    let mut buf = new_buffer(w, h, if ice { IceMode::Ice } else { IceMode::Blink });
    for y in 0..h {
        for x in 0..w {
            // runs of equal cells, equal characters and equal attributes
            let c = Cell::new((b'a' as i32 + (x / 3 + y) % 3) as u32, (1 + (x / 2) % 3) as u32, ((x / 4 + y) % 2) as u32);
            put(&mut buf, x, y, &c);
        }
    }
    match kind {
        0 | 1 | 3 => {
            let mut l = icy_engine::Layer::new("top", (w.min(4), 2));
            l.properties.has_alpha_channel = kind == 1;
            l.set_offset((1.min(w - 1), 1));
            for y in 0..2 {
                for x in 0..w.min(4) {
                    if kind == 1 && (x + y) % 2 == 0 {
                        continue;
                    }
                    l.set_char((x, y), Cell::new(b'Z' as u32, 14, 4).to_char());
                }
            }
            l.properties.is_visible = kind != 3;
            buf.layers.push(l);
        }
        _ => buf.layers[0].set_offset((1, 0)),
    }
    ctx.count("evaluations", 1);
    ctx.count("nontrivial", 1);
    ctx.count("transitions", 4);
    let what = json!({"width": w, "height": h, "ice": ice, "variant": (["second opaque layer", "second alpha layer", "base layer moved by (1,0)", "hidden layer on top"][kind])});
    let (comp, raw) = match (save(&buf, Fmt::Xb, true, false), save(&buf, Fmt::Xb, false, false)) {
        (Ok(a), Ok(b)) => (a, b),
        (a, b) => {
            ctx.violation("diff:xb:c06:layers:save", json!({"doc": what, "compressed": a.err(), "uncompressed": b.err()}));
            return;
        }
    };
    let (lc, lr) = match (load(Fmt::Xb, &comp), load(Fmt::Xb, &raw)) {
        (Ok(a), Ok(b)) => (a, b),
        (a, b) => {
            ctx.violation("diff:xb:c06:layers:load-refused-own-output", json!({"doc": what, "compressed": a.err(), "uncompressed": b.err()}));
            return;
        }
    };
    let mut f = Fnv::new();
    f.bytes(&comp);
    ctx.state(f.finish());
    for y in 0..h {
        for x in 0..w {
            let s0 = shown(&buf, x, y);
            let (a, b) = (shown(&lc, x, y), shown(&lr, x, y));
            // cells no layer covers are invisible in the source and blank in a file
            let same = |p: &Shown, q: &Shown| if !q.visible { matches!(p.ch, 0 | 32) } else { p.ch == q.ch && p.fg == q.fg && p.bg == q.bg };
            if a.ch != b.ch || a.fg != b.fg || a.bg != b.bg || !same(&a, &s0) {
                ctx.violation("diff:xb:c06:layers:compressed-vs-uncompressed-vs-merged-picture", json!({"doc": what, "x": x, "y": y, "merged_source": shown_json(&s0), "compressed": shown_json(&a), "uncompressed": shown_json(&b)}));
                return;
            }
        }
    }
    match decode_xbin(&comp) {
        Err(e) => ctx.violation("diff:xb:c06:layers:spec-decoder:rejects", json!({"doc": what, "error": e})),
        Ok(dec) => {
            if !dec.problems.is_empty() || dec.trailing != 0 || dec.w != w || dec.h != h {
                ctx.violation("diff:xb:c06:layers:spec-decoder", json!({"doc": what, "problems": dec.problems, "trailing": dec.trailing, "size": [dec.w, dec.h]}));
            }
        }
    }
}

// ------------------------------------------------------------------ re-save stability (C05, second sentence)

const SPECIALS: usize = 5 * 3 + 2 + 2;

fn run_special(v: usize, ctx: &mut Ctx) {
    ctx.count("evaluations", 1);
    ctx.count("transitions", 2);
    ctx.count("nontrivial", 1);
    let fmts = [Fmt::Xb, Fmt::Bin, Fmt::Adf, Fmt::Idf, Fmt::Tnd];
    let (fmt, kind) = if v < 15 { (fmts[v % 5], v / 5) } else if v < 17 { (Fmt::Xb, 3 + (v - 15)) } else { (Fmt::Tnd, 5) };
    // the width of a Tundra file lives in its SAUCE record only: the two widths around the limit the SAUCE reader trusts
    let w = if kind == 5 { 1000 + (v - 17) as i32 } else if fmt == Fmt::Adf { 80 } else { 16 };
    let mut buf = new_buffer(w, 2, IceMode::Ice);
    for y in 0..2 {
        for x in 0..w {
            put(&mut buf, x, y, &Cell::new((b'A' as i32 + (x + 7 * y) % 26) as u32, (1 + (x + y) % 7) as u32, ((x / 2 + y) % 8) as u32));
        }
    }
    let what = match kind {
        0 => {
            // the canvas is wider than the only layer: the last two columns are covered by nothing
            buf.layers[0].set_size((w - 2, 2));
            "canvas two columns wider than its layer"
        }
        1 => {
            // bold flag on dark and on bright foreground colours
            for x in 0..w.min(16) {
                put(&mut buf, x, 1, &Cell::new(b'b' as u32, x as u32 % 16, 1).bold());
            }
            "bold flag on every foreground colour"
        }
        2 => {
            // the layer is moved up: its first row is above the canvas, the last row of the canvas is covered by nothing
            buf.layers[0].set_offset((0, -1));
            "layer moved up by one row"
        }
        3 => {
            // the default font, still under its own name, with an edited glyph
            let mut f = BitFont::default();
            if let Some(g) = f.get_glyph_mut('A') {
                g.data[1] = 0xFF;
                g.data[8] ^= 0x66;
            }
            buf.set_font(0, f);
            "default font edited in place under its own name"
        }
        5 => "width at the limit of what a SAUCE record is trusted with",
        _ => {
            let mut f = BitFont::default();
            if let Some(g) = f.get_glyph_mut('z') {
                g.data[15] = 0x81;
            }
            f.calculate_checksum();
            buf.set_font(0, f);
            "font named like the default font with another glyph table"
        }
    };
    let desc = json!({"format": fmt.ext(), "document": what, "width": w});
    let bytes = match save(&buf, fmt, false, matches!(fmt, Fmt::Bin | Fmt::Tnd)) {
        Ok(b) => b,
        Err(e) => {
            if e.starts_with("PANIC") {
                ctx.violation(format!("{}:special-save:{}", e.replace("PANIC ", ""), fmt.ext()), desc);
            } else {
                ctx.count("special_refused", 1);
            }
            return;
        }
    };
    let got = match load(fmt, &bytes) {
        Ok(b) => b,
        Err(e) => {
            ctx.violation(format!("diff:{}:special:load-refused-own-output", fmt.ext()), json!({"doc": desc, "error": e}));
            return;
        }
    };
    let mut f = Fnv::new();
    f.bytes(&bytes);
    ctx.state(f.finish());
    if got.get_width() != w || got.get_height() != 2 {
        ctx.violation(format!("diff:{}:special:size", fmt.ext()), json!({"doc": desc, "got": [got.get_width(), got.get_height()]}));
        return;
    }
    for y in 0..2 {
        for x in 0..w {
            let (a, b) = (shown(&buf, x, y), shown(&got, x, y));
            let same = if !a.visible { matches!(b.ch, 0 | 32) && b.bg == (0, 0, 0) } else { a.ch == b.ch && a.fg == b.fg && a.bg == b.bg };
            if !same {
                ctx.violation(format!("diff:{}:special:cell:{}", fmt.ext(), what.split(' ').next().unwrap_or("")), json!({"doc": desc, "x": x, "y": y, "source": shown_json(&a), "loaded": shown_json(&b)}));
                return;
            }
        }
    }
    if kind == 3 || kind == 4 {
        let (a, b) = (buf.get_font(0).map(font_glyph_bytes), got.get_font(0).map(font_glyph_bytes));
        if a != b {
            ctx.violation(format!("diff:{}:special:font-glyphs", fmt.ext()), json!({"doc": desc}));
        }
    }
}

fn resave(fmt: Fmt, desc: &str, bytes: &[u8], ctx: &mut Ctx) {
    ctx.count("evaluations", 1);
    ctx.count("transitions", 1);
    let first = match load(fmt, bytes) {
        Ok(b) => b,
        Err(_) => {
            ctx.count("resave_not_accepted", 1);
            return;
        }
    };
    // the default save path (colour optimiser in front of the writer) must not panic on an accepted file either
    if let Err(p) = catch(|| first.to_bytes(fmt.ext(), &SaveOptions::default())) {
        ctx.violation(format!("{}:resave-default-options", p.signature()), json!({"file": desc}));
        return;
    }
    ctx.count("resave_accepted", 1);
    let has_sauce = first.has_sauce();
    let again = match save(&first, fmt, true, has_sauce || matches!(fmt, Fmt::Bin)) {
        Ok(b) => b,
        Err(e) => {
            if e.starts_with("PANIC") {
                ctx.violation(format!("{}:resave", e.replace("PANIC ", "")), json!({"file": desc}));
            } else {
                // the statement's second sentence: a file the loader accepts can be saved again in the same format
                ctx.count("resave_writer_refused", 1);
                let class: String = e.chars().filter(|c| !c.is_ascii_digit()).take(60).collect();
                ctx.violation(format!("diff:{}:resave:writer-refuses-what-the-loader-accepted:{}", fmt.ext(), class.trim()), json!({"file": desc, "error": e}));
            }
            return;
        }
    };
    ctx.count("transitions", 2);
    let second = match load(fmt, &again) {
        Ok(b) => b,
        Err(e) => {
            ctx.violation(format!("diff:{}:resave:second-load-refused", fmt.ext()), json!({"file": desc, "error": e}));
            return;
        }
    };
    ctx.count("nontrivial", 1);
    let mut f = Fnv::new();
    f.i32(first.get_width());
    f.i32(first.get_height());
    ctx.outcome(f.finish());
    if first.get_width() != second.get_width() || first.get_height() != second.get_height() {
        let cls = if first.get_height() < 25 { "height<25" } else if first.get_height() == 0 || first.get_width() == 0 { "empty" } else { "other" };
        ctx.violation(
            format!("diff:{}:resave:size:{cls}", fmt.ext()),
            json!({"file": desc, "first": [first.get_width(), first.get_height()], "second": [second.get_width(), second.get_height()]}),
        );
        return;
    }
    for y in 0..first.get_height() {
        for x in 0..first.get_width() {
            let a = shown(&first, x, y);
            let b = shown(&second, x, y);
            let same = a.ch == b.ch && a.fg == b.fg && a.bg == b.bg && a.blink == b.blink && a.visible == b.visible;
            if !same {
                let k = if a.ch != b.ch { "char" } else if a.visible != b.visible { "visibility" } else if a.blink != b.blink { "blink" } else { "colour" };
                let ccls = if (1..=6).contains(&a.ch) { "char-in-1..6" } else if a.ch > 255 { "char>255" } else { "any-char" };
                ctx.violation(format!("diff:{}:resave:{k}:{ccls}", fmt.ext()), json!({"file": desc, "x": x, "y": y, "first": shown_json(&a), "second": shown_json(&b)}));
                return;
            }
        }
    }
}

// ------------------------------------------------------------------ engines

enum Job {
    Doc(DocSpec),
    C06(DocSpec),
    /// documents that were built in several steps: a second layer on top, a moved base layer (the writers see the merged picture)
    C06Layers(usize),
    /// a batch of enumerated rows, generated when the job runs (36 M rows do not fit into every worker's memory)
    C06Rows { width: u32, base: u64, n: u64, small: bool, ice: bool },
    Resave(Fmt, String, Vec<u8>),
    /// documents outside the plain "one full layer" shape: a canvas larger than its layer, bold flags on bright colours, the default
    /// font edited in place under its own name
    Special(usize),
}

struct BinFmt {
    jobs: Vec<Job>,
    c06_meta: Value,
}

fn alphabet8(ice: bool, two: bool) -> Vec<Cell> {
    let mut v = vec![
        Cell::new(32, 7, 0),
        Cell::new(b'A' as u32, 7, 0),
        Cell::new(b'A' as u32, 15, 0),
        Cell::new(b'A' as u32, 7, 1),
        Cell::new(0xDB, 4, 2),
        Cell::new(32, 7, 1),
        if ice { Cell::new(b'A' as u32, 7, 9) } else { Cell::new(b'A' as u32, 7, 0).blink() },
        Cell::new(0, 3, 5),
    ];
    if two {
        for c in &mut v {
            c.fg &= 7;
        }
        v[2] = Cell::new(b'A' as u32, 7, 0).page(1);
    }
    v
}

fn rows_upto3(alpha: &[Cell]) -> Vec<Vec<Cell>> {
    let mut rows = Vec::new();
    for a in alpha {
        rows.push(vec![*a]);
        for b in alpha {
            rows.push(vec![*a, *b]);
            for c in alpha {
                rows.push(vec![*a, *b, *c]);
            }
        }
    }
    rows
}

fn build_c05(tier: &str) -> Vec<Job> {
    let thorough = tier == "thorough";
    let mut jobs = Vec::new();
    for v in 0..SPECIALS {
        jobs.push(Job::Special(v));
    }
    // ---- XBin: dimension menu with <= 2 deviations from the base document
    let ws = [80, 1, 2, 79, 81, 160, 4096];
    let hs = [25, 1, 2, 24, 26, 200];
    let fonts = [Fonts::Default, Fonts::Custom(1), Fonts::Custom(8), Fonts::Custom(16), Fonts::Custom(32), Fonts::Two(16), Fonts::Two(8)];
    let mut xb_docs: Vec<DocSpec> = Vec::new();
    let dims: Vec<[usize; 6]> = {
        // indices into (w, h, font, palette, ice, compress)
        let sizes = [ws.len(), hs.len(), fonts.len(), 2, 2, 2];
        let mut out = vec![[0usize; 6]];
        let k = if thorough { 3 } else { 2 };
        fn rec(pos: usize, left: usize, cur: &mut [usize; 6], sizes: &[usize; 6], out: &mut Vec<[usize; 6]>) {
            if pos == 6 {
                if cur.iter().any(|x| *x != 0) {
                    out.push(*cur);
                }
                return;
            }
            cur[pos] = 0;
            rec(pos + 1, left, cur, sizes, out);
            if left > 0 {
                for v in 1..sizes[pos] {
                    cur[pos] = v;
                    rec(pos + 1, left - 1, cur, sizes, out);
                }
                cur[pos] = 0;
            }
        }
        rec(0, k, &mut [0; 6], &sizes, &mut out);
        out
    };
    for d in &dims {
        let (w, h) = (ws[d[0]], hs[d[1]]);
        if w as i64 * h as i64 > 200_000 && !thorough {
            // 4096 x 200 is kept for the thorough tier
            if !(w == 4096 && h <= 26) {
                continue;
            }
        }
        xb_docs.push(DocSpec { fmt: Fmt::Xb, w, h, ice: d[4] == 1, compress: d[5] == 1, fonts: fonts[d[2]], custom_palette: d[3] == 1, content: Content::Pattern });
    }
    jobs.extend(xb_docs.into_iter().map(Job::Doc));
    // ---- pair sweeps: every (character, attribute byte) pair
    for (fmt, w, h) in [(Fmt::Xb, 160, 200), (Fmt::Bin, 160, 200), (Fmt::Adf, 80, 200), (Fmt::Idf, 80, 200), (Fmt::Tnd, 80, 200)] {
        let docs = (65536 + (w * h) as u32 - 1) / (w * h) as u32;
        for k in 0..docs {
            for ice in [true, false] {
                if !ice && matches!(fmt, Fmt::Adf | Fmt::Idf | Fmt::Tnd) {
                    continue; // these formats are ice only (quantifier)
                }
                for compress in [false, true] {
                    if compress && !matches!(fmt, Fmt::Xb | Fmt::Idf) {
                        continue;
                    }
                    jobs.push(Job::Doc(DocSpec { fmt, w, h, ice, compress, fonts: Fonts::Default, custom_palette: false, content: Content::PairSweep(k) }));
                    if fmt == Fmt::Xb {
                        jobs.push(Job::Doc(DocSpec { fmt, w, h, ice, compress, fonts: Fonts::Two(16), custom_palette: true, content: Content::PairSweep(k) }));
                    }
                }
            }
        }
    }
    // ---- all rows of width <= 3 over the 8 cell alphabet
    for (fmt, w) in [(Fmt::Xb, 3), (Fmt::Xb, 80), (Fmt::Bin, 4), (Fmt::Bin, 80), (Fmt::Adf, 80), (Fmt::Idf, 3), (Fmt::Idf, 80), (Fmt::Tnd, 3), (Fmt::Tnd, 80)] {
        for ice in [true, false] {
            if !ice && matches!(fmt, Fmt::Adf | Fmt::Idf | Fmt::Tnd) {
                continue;
            }
            for two in [false, true] {
                if two && fmt != Fmt::Xb {
                    continue;
                }
                let rows = rows_upto3(&alphabet8(ice, two));
                for chunk in rows.chunks(195) {
                    for compress in [false, true] {
                        if compress && !matches!(fmt, Fmt::Xb | Fmt::Idf) {
                            continue;
                        }
                        jobs.push(Job::Doc(DocSpec {
                            fmt,
                            w,
                            h: chunk.len() as i32,
                            ice,
                            compress,
                            fonts: if two { Fonts::Two(16) } else { Fonts::Default },
                            custom_palette: false,
                            content: Content::Rows(chunk.to_vec()),
                        }));
                    }
                }
            }
        }
    }
    // ---- other formats: dimension menus
    for w in [2, 80, 160, 510] {
        for h in [1, 2, 24, 25, 26, 60] {
            for ice in [true, false] {
                jobs.push(Job::Doc(DocSpec { fmt: Fmt::Bin, w, h, ice, compress: false, fonts: Fonts::Default, custom_palette: false, content: Content::Pattern }));
            }
        }
    }
    for h in [1, 2, 24, 25, 26, 200] {
        for pal in [false, true] {
            for font in [Fonts::Default, Fonts::Custom(16)] {
                jobs.push(Job::Doc(DocSpec { fmt: Fmt::Adf, w: 80, h, ice: true, compress: false, fonts: font, custom_palette: pal, content: Content::Pattern }));
                for w in [80, 1, 2, 40, 79] {
                    for compress in [false, true] {
                        jobs.push(Job::Doc(DocSpec { fmt: Fmt::Idf, w, h, ice: true, compress, fonts: font, custom_palette: pal, content: Content::Pattern }));
                    }
                }
            }
        }
        for w in [80, 1, 2, 79, 81, 132] {
            for pal in [false, true] {
                jobs.push(Job::Doc(DocSpec { fmt: Fmt::Tnd, w, h, ice: true, compress: false, fonts: Fonts::Default, custom_palette: pal, content: Content::Pattern }));
            }
        }
    }
    // ---- hand-made files at the limits of what the loaders accept: iCE Draw pictures of 200, 201 and 300 rows, 1 and 80 columns
    for (x2, rows) in [(79u16, 200u16), (79, 201), (79, 300), (0, 201)] {
        let mut b = b"\x041.4".to_vec();
        for v in [0u16, 0, x2, rows - 1] {
            b.extend(v.to_le_bytes());
        }
        for i in 0..(x2 as usize + 1) * rows as usize {
            b.extend([b'a' + (i % 23) as u8, 0x17]);
        }
        b.extend(font_glyph_bytes(&BitFont::default()));
        b.extend((0..48).map(|i| (i * 5 % 64) as u8));
        jobs.push(Job::Resave(Fmt::Idf, format!("hand-made iCE Draw file, {} x {rows}", x2 + 1), b));
    }
    // ---- re-save stability over faulted files
    for (fmt, name, seed) in resave_seeds() {
        for (desc, bytes) in vharness_faults(&seed, thorough) {
            jobs.push(Job::Resave(fmt, format!("{name}: {desc}"), bytes));
        }
    }
    jobs
}

fn resave_seeds() -> Vec<(Fmt, String, Vec<u8>)> {
    let mut v = Vec::new();
    for fmt in [Fmt::Xb, Fmt::Bin, Fmt::Adf, Fmt::Idf, Fmt::Tnd] {
        for (w, h) in [(80, 3), (if fmt == Fmt::Adf { 80 } else { 7 }, 30)] {
            for compress in [false, true] {
                if compress && !matches!(fmt, Fmt::Xb | Fmt::Idf) {
                    continue;
                }
                for two in [false, true] {
                    if two && fmt != Fmt::Xb {
                        continue;
                    }
                    let d = DocSpec { fmt, w, h, ice: true, compress, fonts: if two { Fonts::Two(8) } else { Fonts::Default }, custom_palette: two, content: Content::Pattern };
                    let sauce = needs_sauce(&d) || w != 80;
                    if let Ok(b) = save(&d.build(), fmt, compress, sauce) {
                        v.push((fmt, format!("{} {}x{} compress={} two_fonts={}", fmt.ext(), w, h, compress, two), b));
                    }
                }
            }
        }
    }
    v
}

/// fault menu for the re-save stratum: truncations, single byte corruptions in the header region, 16 bit field extremes
fn vharness_faults(seed: &[u8], thorough: bool) -> Vec<(String, Vec<u8>)> {
    let mut v: Vec<(String, Vec<u8>)> = vec![("unchanged".into(), seed.to_vec())];
    let n = seed.len();
    let step = if thorough { 1 } else { 7 };
    let mut cuts: Vec<usize> = (0..n.min(96)).collect();
    cuts.extend((96..n).step_by(step.max(1) * if n > 6000 { 64 } else { 1 }));
    cuts.extend(n.saturating_sub(140)..n);
    cuts.sort_unstable();
    cuts.dedup();
    for c in cuts {
        v.push((format!("truncated to {c} bytes"), seed[..c].to_vec()));
    }
    let hdr = n.min(48);
    for pos in 0..hdr {
        for val in [0u8, 1, 0x7F, 0x80, 0xFF, seed[pos].wrapping_add(1), seed[pos].wrapping_sub(1)] {
            if val != seed[pos] {
                let mut b = seed.to_vec();
                b[pos] = val;
                v.push((format!("byte {pos} = 0x{val:02x}"), b));
            }
        }
    }
    for pos in 0..hdr.saturating_sub(1) {
        for val in [0u16, 1, 2, 24, 26, 0x7FFF, 0x8000, 0xFFFF] {
            let mut b = seed.to_vec();
            b[pos] = val as u8;
            b[pos + 1] = (val >> 8) as u8;
            v.push((format!("u16le at {pos} = {val}"), b));
        }
    }
    // data region: a value menu at every 5th position of the first 400 data bytes
    for pos in (hdr..n.min(hdr + 400)).step_by(5) {
        for val in [0u8, 1, 0x3F, 0x40, 0x7F, 0x80, 0xBF, 0xC0, 0xFF] {
            if val != seed[pos] {
                let mut b = seed.to_vec();
                b[pos] = val;
                v.push((format!("byte {pos} = 0x{val:02x}"), b));
            }
        }
    }
    v
}

fn build_c06(tier: &str) -> (Vec<Job>, Value) {
    let thorough = tier == "thorough";
    let mut jobs = Vec::new();
    let per_doc = 190u64;
    let mut widths18 = vec![];
    let mut rows18 = 0u64;
    for w in 1..=(if thorough { 6 } else { 5 }) {
        let total = 18u64.pow(w);
        widths18.push(w);
        rows18 += total;
        let mut base = 0;
        while base < total {
            let n = per_doc.min(total - base);
            for ice in [false] {
                jobs.push(Job::C06Rows { width: w, base, n, small: false, ice });
            }
            base += n;
        }
    }
    let mut rows8 = 0u64;
    let maxw8 = if thorough { 9 } else { 7 };
    for w in 6..=maxw8 {
        let total = 8u64.pow(w);
        rows8 += total;
        let mut base = 0;
        while base < total {
            let n = per_doc.min(total - base);
            jobs.push(Job::C06Rows { width: w, base, n, small: true, ice: true });
            base += n;
        }
    }
    let mut long = 0u64;
    for w in (60..=70).chain(124..=135) {
        let rows = long_rows(w);
        long += rows.len() as u64;
        for chunk in rows.chunks(190) {
            for ice in [false, true] {
                jobs.push(Job::C06(c06_doc(chunk.to_vec(), w, ice)));
            }
        }
    }
    for v in 0..C06_LAYER_VARIANTS {
        jobs.push(Job::C06Layers(v));
    }
    // identical adjacent rows, heights 1..3 (a run must not continue into the next row)
    for w in [1, 2, 3, 5, 64, 65] {
        for v in [0usize, 4, 10] {
            for h in 1..=3 {
                let row: Vec<Cell> = (0..w).map(|_| c6_cell(v, false)).collect();
                let mut rows = vec![row; h];
                rows.push((0..w).map(|i| c6_cell(if i % 2 == 0 { 0 } else { 9 }, false)).collect());
                if w == 1 {
                    rows.push(vec![c6_cell(9, false)]);
                }
                jobs.push(Job::C06(c06_doc(rows, w, false)));
            }
        }
    }
    let meta = json!({"alphabet18": "3 chars x 3 attributes x 2 font pages", "rows_alphabet18": rows18, "widths_alphabet18": widths18, "alphabet8": "2x2x2", "rows_alphabet8": rows8,
                      "widths_alphabet8": format!("6..={maxw8}"), "long_rows(widths 60..=70,124..=135, <=3 runs of 4 kinds, every listed split)": long});
    (jobs, meta)
}

impl Engine for BinFmt {
    fn total(&self) -> u64 {
        self.jobs.len() as u64
    }
    fn run(&mut self, idx: u64, ctx: &mut Ctx) {
        match &self.jobs[idx as usize] {
            Job::Doc(d) => {
                roundtrip(d, ctx);
                ctx.count("nontrivial", 1);
            }
            Job::C06(d) => run_c06_doc(d, ctx),
            Job::C06Layers(v) => run_c06_layers(*v, ctx),
            Job::C06Rows { width, base, n, small, ice } => run_c06_doc(&c06_doc(c6_rows_batch(*width, *base, *n, *small), *width as i32, *ice), ctx),
            Job::Special(v) => run_special(*v, ctx),
            Job::Resave(f, desc, bytes) => resave(*f, desc, bytes, ctx),
        }
    }
    fn describe(&self, idx: u64) -> Value {
        match &self.jobs[idx as usize] {
            Job::Doc(d) => json!({"engine": "binfmt", "idx": idx, "doc": d.json(), "key": format!("binfmt:{}", d.fmt.ext())}),
            Job::C06(d) => json!({"engine": "xbin-compression", "idx": idx, "doc": d.json(), "key": "xbin-compression"}),
            Job::C06Layers(v) => json!({"engine": "xbin-compression", "idx": idx, "layered_document_variant": v, "key": "xbin-compression"}),
            Job::C06Rows { width, base, n, small, ice } => json!({"engine": "xbin-compression", "idx": idx, "rows": format!("rows {base}..{} of width {width} over the {} value alphabet", base + n, if *small { 8 } else { 18 }), "ice": ice, "key": "xbin-compression"}),
            Job::Special(v) => json!({"engine": "special-documents", "idx": idx, "variant": v, "key": "special"}),
            Job::Resave(f, desc, bytes) => json!({"engine": "resave", "idx": idx, "format": f.ext(), "file": desc, "bytes": vharness::bytes_to_json(&bytes[..bytes.len().min(6000)]), "len": bytes.len(), "key": format!("resave:{}", f.ext())}),
        }
    }
    fn replay(&mut self, case: &Value, ctx: &mut Ctx) {
        if case["engine"] == "resave" && case["len"].as_u64().unwrap_or(0) <= 6000 {
            let fmt = [Fmt::Xb, Fmt::Bin, Fmt::Adf, Fmt::Idf, Fmt::Tnd].into_iter().find(|f| f.ext() == case["format"].as_str().unwrap_or("")).unwrap_or(Fmt::Xb);
            resave(fmt, case["file"].as_str().unwrap_or("?"), &vharness::json_bytes(&case["bytes"]), ctx);
        } else {
            self.run(case["idx"].as_u64().unwrap_or(0), ctx)
        }
    }
    fn meta(&self) -> Value {
        let (mut docs, mut c6, mut rs) = (0, 0, 0);
        for j in &self.jobs {
            match j {
                Job::Doc(_) => docs += 1,
                Job::C06(_) | Job::C06Rows { .. } | Job::C06Layers(_) => c6 += 1,
                Job::Resave(..) | Job::Special(_) => rs += 1,
            }
        }
        json!({"documents": docs, "c06_batches": c6, "resave_files": rs, "c06": self.c06_meta})
    }
}

fn main() {
    worker_main(|prop, tier| {
        if prop == "C06" {
            let (jobs, meta) = build_c06(tier);
            Box::new(BinFmt { jobs, c06_meta: meta })
        } else {
            Box::new(BinFmt { jobs: build_c05(tier), c06_meta: Value::Null })
        }
    });
}
