//! C08: undo restores the document and redo the edit, for every edit history.
//! Explicit history search: every history of editing operations up to depth d on 5 start documents, every
//! undo/redo walk inside the history compared with observational snapshots recorded on the way up.

use icy_engine::editor::{EditState, UndoState};
use icy_engine::{
    AddType, AttributedChar, BitFont, Buffer, Color, EngineResult, IceMode, Layer, Mode, Palette, PaletteMode, Position, Properties, Rectangle, SauceData, SauceString, Selection, Shape, TextAttribute, TextPane,
};
use vharness::doc::*;
use vharness::{catch, json, worker_main, Ctx, Engine, Fnv, Value};

// ------------------------------------------------------------------ start documents

fn fill(l: &mut Layer, seed: u32) {
    for y in 0..l.get_height() {
        for x in 0..l.get_width() {
            let k = (x as u32 * 3 + y as u32 * 7 + seed) % 11;
            if k < 7 {
                let ch = [b'a', b'B', 0xDB, b'-', b' ', b'/', b'9'][k as usize] as u32;
                l.set_char((x, y), Cell::new(ch, (k + seed) % 16, (k * 3 + seed) % 8).to_char());
            }
        }
    }
}

fn start_doc(k: usize) -> Buffer {
    let mut b = Buffer::new((8, 4));
    b.layers[0].properties.title = "base".into();
    fill(&mut b.layers[0], 1);
    match k {
        0 => {}
        1 => {
            let mut l = Layer::new("alpha", (5, 3));
            l.properties.has_alpha_channel = true;
            l.set_offset((2, 1));
            fill(&mut l, 4);
            b.layers.push(l);
        }
        2 => {
            let mut l = Layer::new("hidden", (8, 4));
            l.properties.has_alpha_channel = true;
            fill(&mut l, 2);
            l.properties.is_visible = false;
            b.layers.push(l);
            let mut l = Layer::new("locked", (4, 2));
            l.properties.has_alpha_channel = true;
            l.set_offset((-1, 0));
            fill(&mut l, 6);
            l.properties.is_locked = true;
            l.properties.color = Some(Color::new(1, 2, 3));
            b.layers.push(l);
        }
        5 => {
            // rows are stored lazily: the layer is 8x6 but only its first two rows exist in memory
            let mut l = Layer::new("lazy", (8, 6));
            l.properties.has_alpha_channel = true;
            l.set_char((1, 0), Cell::new(b'x' as u32, 2, 0).to_char());
            l.set_char((2, 1), Cell::new(b'y' as u32, 3, 0).to_char());
            b.set_size((8, 6));
            b.layers.push(l);
        }
        6 => {
            // the current layer is alpha locked (a write over an invisible cell is refused), three fonts, and a SAUCE record
            // whose size fields differ from the size of the buffer (what a file with an empty record gives)
            let mut l = Layer::new("alpha locked", (8, 4));
            l.properties.has_alpha_channel = true;
            fill(&mut l, 3);
            l.properties.is_alpha_channel_locked = true;
            b.layers.push(l);
            b.set_font(1, synth_font("slot one", 16, 21));
            b.set_font(2, synth_font("slot two", 16, 22));
            b.font_mode = icy_engine::FontMode::Unlimited;
            let mut s = SauceData::default();
            s.title = SauceString::from("record without size");
            b.set_sauce(Some(s), false);
        }
        3 => {
            // the top layer was shrunk: it still holds content outside its size
            let mut l = Layer::new("shrunk", (6, 4));
            l.properties.has_alpha_channel = true;
            fill(&mut l, 9);
            l.set_size((3, 2));
            b.layers.push(l);
        }
        _ => {
            b.palette = {
                let mut p = Palette::dos_default();
                p.set_color_rgb(3, 200, 100, 50);
                p.insert_color_rgb(9, 9, 9);
                p
            };
            b.set_font(1, synth_font("second", 16, 5));
            b.font_mode = icy_engine::FontMode::Unlimited;
            b.palette_mode = PaletteMode::RGB;
            let mut l = Layer::new("chars", (8, 4));
            l.properties.mode = Mode::Chars;
            l.properties.has_alpha_channel = true;
            l.set_char((1, 1), Cell::new(b'Z' as u32, 16, 3).page(1).to_char());
            b.layers.push(l);
            let mut s = SauceData::default();
            s.title = SauceString::from("t");
            s.comments.push(SauceString::from("c"));
            b.set_sauce(Some(s), false);
        }
    }
    b
}

const DOCS: [&str; 7] = [
    "1 layer 8x4",
    "base + offset alpha layer",
    "base + hidden + locked layer",
    "base + shrunk layer with hidden content",
    "custom palette, 2 fonts, chars layer, sauce",
    "base + tall layer with lazily stored rows, caret on its last row",
    "base + alpha locked current layer, 3 fonts, sauce record without size",
];

// ------------------------------------------------------------------ operations

type OpFn = fn(&mut EditState) -> EngineResult<()>;

struct Op {
    name: &'static str,
    /// false: set-up step that is not an edit (current layer, caret)
    edit: bool,
    f: OpFn,
}

fn top(s: &EditState) -> usize {
    s.get_buffer().layers.len().saturating_sub(1)
}

fn clip() -> Vec<u8> {
    let mut d = vec![0u8];
    d.extend(1i32.to_le_bytes());
    d.extend(1i32.to_le_bytes());
    d.extend(2u32.to_le_bytes());
    d.extend(1u32.to_le_bytes());
    for c in [b'p', b'q'] {
        d.extend([c, 0, 0, 0, 0, 0, 2, 0, 0, 0, 14, 0, 0, 0]);
    }
    d
}

fn ch(c: char, fg: u32, bg: u32) -> AttributedChar {
    AttributedChar::new(c, TextAttribute::new(fg, bg))
}

fn ops() -> Vec<Op> {
    macro_rules! op {
        ($n:expr, $f:expr) => {
            Op { name: $n, edit: true, f: $f }
        };
    }
    macro_rules! setup {
        ($n:expr, $f:expr) => {
            Op { name: $n, edit: false, f: $f }
        };
    }
    vec![
        setup!("cur_layer=0", |s| {
            s.set_current_layer(0);
            Ok(())
        }),
        setup!("cur_layer=top", |s| {
            let t = top(s);
            s.set_current_layer(t);
            Ok(())
        }),
        setup!("caret=(2,1)", |s| {
            s.get_caret_mut().set_position(Position::new(2, 1));
            Ok(())
        }),
        setup!("caret=(0,3)", |s| {
            s.get_caret_mut().set_position(Position::new(0, 3));
            Ok(())
        }),
        op!("set_char(0,0)", |s| s.set_char((0, 0), ch('X', 12, 1))),
        op!("set_char(7,3)", |s| s.set_char((7, 3), ch('Y', 2, 9))),
        op!("set_char(-1,0)", |s| s.set_char((-1, 0), ch('N', 2, 9))),
        op!("set_char(8,4)", |s| s.set_char((8, 4), ch('O', 2, 9))),
        op!("set_char(1,1) invisible", |s| s.set_char((1, 1), AttributedChar::invisible())),
        op!("swap_char", |s| s.swap_char((0, 0), (1, 1))),
        op!("add_new_layer(0)", |s| s.add_new_layer(0)),
        op!("add_new_layer(top)", |s| {
            let t = top(s);
            s.add_new_layer(t)
        }),
        op!("remove_layer(0)", |s| s.remove_layer(0)),
        op!("remove_layer(top)", |s| {
            let t = top(s);
            s.remove_layer(t)
        }),
        op!("remove_layer(top+1)", |s| {
            let t = top(s);
            s.remove_layer(t + 1)
        }),
        op!("raise_layer(0)", |s| s.raise_layer(0)),
        op!("lower_layer(top)", |s| {
            let t = top(s);
            s.lower_layer(t)
        }),
        op!("lower_layer(0)", |s| s.lower_layer(0)),
        op!("duplicate_layer(0)", |s| s.duplicate_layer(0)),
        op!("duplicate_layer(top)", |s| {
            let t = top(s);
            s.duplicate_layer(t)
        }),
        op!("clear_layer(0)", |s| s.clear_layer(0)),
        op!("clear_layer(top)", |s| {
            let t = top(s);
            s.clear_layer(t)
        }),
        op!("merge_layer_down(1)", |s| s.merge_layer_down(1)),
        op!("merge_layer_down(top)", |s| {
            let t = top(s);
            s.merge_layer_down(t)
        }),
        op!("toggle_layer_visibility(0)", |s| s.toggle_layer_visibility(0)),
        op!("toggle_layer_visibility(top)", |s| {
            let t = top(s);
            s.toggle_layer_visibility(t)
        }),
        op!("move_layer(2,1)", |s| s.move_layer(Position::new(2, 1))),
        op!("move_layer(-3,-1)", |s| s.move_layer(Position::new(-3, -1))),
        op!("set_layer_size(cur,2x2)", |s| {
            let c = s.get_current_layer()?;
            s.set_layer_size(c, (2, 2))
        }),
        op!("set_layer_size(cur,12x6)", |s| {
            let c = s.get_current_layer()?;
            s.set_layer_size(c, (12, 6))
        }),
        op!("set_layer_size(0,0x0)", |s| s.set_layer_size(0, (0, 0))),
        op!("resize_buffer(false,4x2)", |s| s.resize_buffer(false, (4, 2))),
        op!("resize_buffer(false,20x10)", |s| s.resize_buffer(false, (20, 10))),
        op!("resize_buffer(true,4x2)", |s| s.resize_buffer(true, (4, 2))),
        op!("resize_buffer(true,20x10)", |s| s.resize_buffer(true, (20, 10))),
        op!("crop_rect(1,1,3,2)", |s| s.crop_rect(Rectangle::from(1, 1, 3, 2))),
        op!("crop", |s| s.crop()),
        op!("select rect(1,1)-(4,3)", |s| s.set_selection(Rectangle::from(1, 1, 3, 2))),
        op!("select lines", |s| s.set_selection(Selection { anchor: Position::new(2, 0), lead: Position::new(5, 2), locked: false, shape: Shape::Lines, add_type: AddType::Default })),
        op!("select add", |s| s.set_selection(Selection { anchor: Position::new(0, 0), lead: Position::new(2, 2), locked: false, shape: Shape::Rectangle, add_type: AddType::Add })),
        op!("select subtract", |s| s.set_selection(Selection { anchor: Position::new(1, 1), lead: Position::new(2, 2), locked: false, shape: Shape::Rectangle, add_type: AddType::Subtract })),
        op!("select outside", |s| s.set_selection(Rectangle::from(6, 2, 10, 10))),
        op!("clear_selection", |s| s.clear_selection()),
        op!("deselect", |s| s.deselect()),
        op!("add_selection_to_mask", |s| s.add_selection_to_mask()),
        op!("inverse_selection", |s| s.inverse_selection()),
        op!("erase_selection", |s| s.erase_selection()),
        op!("flip_x", |s| s.flip_x()),
        op!("flip_y", |s| s.flip_y()),
        op!("justify_left", |s| s.justify_left()),
        op!("justify_right", |s| s.justify_right()),
        op!("center", |s| s.center()),
        op!("insert_row", |s| s.insert_row()),
        op!("delete_row", |s| s.delete_row()),
        op!("insert_column", |s| s.insert_column()),
        op!("delete_column", |s| s.delete_column()),
        op!("erase_row", |s| s.erase_row()),
        op!("erase_row_to_start", |s| s.erase_row_to_start()),
        op!("erase_row_to_end", |s| s.erase_row_to_end()),
        op!("erase_column", |s| s.erase_column()),
        op!("erase_column_to_start", |s| s.erase_column_to_start()),
        op!("erase_column_to_end", |s| s.erase_column_to_end()),
        op!("center_line", |s| s.center_line()),
        op!("justify_line_left", |s| s.justify_line_left()),
        op!("justify_line_right", |s| s.justify_line_right()),
        op!("scroll_area_up", |s| s.scroll_area_up()),
        op!("scroll_area_down", |s| s.scroll_area_down()),
        op!("scroll_area_left", |s| s.scroll_area_left()),
        op!("scroll_area_right", |s| s.scroll_area_right()),
        op!("rotate_layer", |s| s.rotate_layer()),
        op!("make_layer_transparent", |s| s.make_layer_transparent()),
        op!("stamp_layer_down", |s| s.stamp_layer_down()),
        op!("paste_clipboard_data", |s| s.paste_clipboard_data(&clip())),
        op!("anchor_layer", |s| s.anchor_layer()),
        op!("add_floating_layer", |s| s.add_floating_layer()),
        op!("set_ice_mode(Ice)", |s| s.set_ice_mode(IceMode::Ice)),
        op!("set_ice_mode(Blink)", |s| s.set_ice_mode(IceMode::Blink)),
        op!("set_ice_mode(Unlimited)", |s| s.set_ice_mode(IceMode::Unlimited)),
        op!("set_palette_mode(Free16)", |s| s.set_palette_mode(PaletteMode::Free16)),
        op!("set_palette_mode(Free8)", |s| s.set_palette_mode(PaletteMode::Free8)),
        op!("set_palette_mode(Fixed16)", |s| s.set_palette_mode(PaletteMode::Fixed16)),
        op!("set_palette_mode(RGB)", |s| s.set_palette_mode(PaletteMode::RGB)),
        op!("switch_to_palette", |s| {
            let mut p = Palette::dos_default();
            p.set_color_rgb(1, 11, 22, 33);
            s.switch_to_palette(p)
        }),
        op!("update_sauce_data(Some)", |s| {
            let mut d = SauceData::default();
            d.title = SauceString::from("new title");
            d.use_ice = true;
            s.update_sauce_data(Some(d))
        }),
        op!("update_sauce_data(None)", |s| s.update_sauce_data(None)),
        op!("switch_to_font_page(1)", |s| s.switch_to_font_page(1)),
        op!("add_ansi_font(2)", |s| s.add_ansi_font(2)),
        op!("set_ansi_font(3)", |s| s.set_ansi_font(3)),
        op!("set_sauce_font", |s| s.set_sauce_font("IBM VGA50")),
        op!("add_font(custom)", |s| s.add_font(synth_font("added", 16, 77))),
        op!("set_font(custom)", |s| s.set_font(synth_font("set", 16, 78))),
        op!("replace_font_usage(0,1)", |s| s.replace_font_usage(0, 1)),
        op!("change_font_slot(0,5)", |s| s.change_font_slot(0, 5)),
        op!("change_font_slot(2,1)", |s| s.change_font_slot(2, 1)),
        op!("remove_font(1)", |s| s.remove_font(1)),
        op!("update_layer_properties(cur)", |s| {
            let c = s.get_current_layer()?;
            let mut p: Properties = s.get_buffer().layers[c].properties.clone();
            p.title = "renamed".into();
            p.is_position_locked = !p.is_position_locked;
            p.color = Some(Color::new(9, 8, 7));
            s.update_layer_properties(c, p)
        }),
        op!("update_layer_properties(cur) lock+hide", |s| {
            let c = s.get_current_layer()?;
            let mut p: Properties = s.get_buffer().layers[c].properties.clone();
            p.is_locked = !p.is_locked;
            p.is_visible = !p.is_visible;
            p.has_alpha_channel = !p.has_alpha_channel;
            p.mode = Mode::Attributes;
            s.update_layer_properties(c, p)
        }),
        op!("atomic{set_char; flip_x}", |s| {
            let _g = s.begin_atomic_undo("group");
            s.set_char((2, 2), ch('g', 1, 2))?;
            s.flip_x()
        }),
        op!("atomic{add_layer; move_layer; set_char}", |s| {
            let _g = s.begin_atomic_undo("group");
            let t = top(s);
            s.add_new_layer(t)?;
            s.move_layer(Position::new(1, 1))?;
            s.set_char((0, 0), ch('h', 3, 4))
        }),
        op!("atomic{nested}", |s| {
            let _g = s.begin_atomic_undo("outer");
            s.set_char((3, 0), ch('i', 5, 6))?;
            {
                let _h = s.begin_atomic_undo("inner");
                s.insert_row()?;
                s.set_char((3, 1), ch('j', 5, 6))?;
            }
            s.delete_column()
        }),
    ]
}

// ------------------------------------------------------------------ snapshots

#[derive(Clone, PartialEq)]
struct Snap {
    comps: Vec<(String, u64)>,
}

fn snapshot(b: &Buffer) -> Snap {
    let mut comps = Vec::new();
    let h = |f: &dyn Fn(&mut Fnv)| {
        let mut x = Fnv::new();
        f(&mut x);
        x.finish()
    };
    comps.push(("buffer-size".to_string(), h(&|f| {
        f.i32(b.get_width());
        f.i32(b.get_height());
    })));
    comps.push(("modes".to_string(), h(&|f| {
        f.u8(b.buffer_type.to_byte());
        f.u8(b.ice_mode.to_byte());
        f.u8(b.palette_mode.to_byte());
        f.u8(b.font_mode.to_byte());
    })));
    comps.push(("palette".to_string(), h(&|f| {
        f.u64(b.palette.len() as u64);
        for i in 0..b.palette.len() as u32 {
            let c = b.palette.get_rgb(i);
            f.u8(c.0);
            f.u8(c.1);
            f.u8(c.2);
        }
    })));
    comps.push(("fonts".to_string(), h(&|f| {
        let mut slots: Vec<(&usize, &BitFont)> = b.font_iter().collect();
        slots.sort_by_key(|s| *s.0);
        for (k, font) in slots {
            f.u64(*k as u64);
            f.i32(font.size.width);
            f.i32(font.size.height);
            f.i32(font.length);
            f.bytes(&font_glyph_bytes(font));
        }
    })));
    comps.push(("sauce".to_string(), h(&|f| match b.get_sauce() {
        None => f.u8(0),
        Some(s) => {
            f.str(&s.title.to_string());
            f.str(&s.author.to_string());
            f.str(&s.group.to_string());
            for c in &s.comments {
                f.str(&c.to_string());
            }
            f.u8(s.use_ice as u8);
            f.u8(s.use_letter_spacing as u8);
            f.u8(s.use_aspect_ratio as u8);
            f.str(s.font_opt.as_deref().unwrap_or("-"));
            f.i32(s.buffer_size.width);
            f.i32(s.buffer_size.height);
        }
    })));
    comps.push(("layer-count".to_string(), b.layers.len() as u64));
    for (i, l) in b.layers.iter().enumerate() {
        comps.push((format!("layer[{i}].properties"), h(&|f| {
            f.str(&l.properties.title);
            f.u8(l.role as u8);
            f.u8(l.properties.mode as u8);
            match &l.properties.color {
                None => f.u8(0),
                Some(c) => {
                    let (r, g, bl) = c.get_rgb();
                    f.u8(1);
                    f.u8(r);
                    f.u8(g);
                    f.u8(bl);
                }
            }
            f.u8(l.properties.is_visible as u8);
            f.u8(l.properties.is_locked as u8);
            f.u8(l.properties.is_position_locked as u8);
            f.u8(l.properties.is_alpha_channel_locked as u8);
            f.u8(l.properties.has_alpha_channel as u8);
            f.u8(l.transparency);
            f.i32(l.get_base_offset().x);
            f.i32(l.get_base_offset().y);
            f.i32(l.get_width());
            f.i32(l.get_height());
            f.u64(l.default_font_page as u64);
        })));
        comps.push((format!("layer[{i}].cells"), h(&|f| {
            for y in 0..l.get_height() {
                for x in 0..l.get_width() {
                    let c = l.get_char((x, y));
                    if c.is_visible() {
                        f.u32(c.ch as u32);
                        f.u32(c.attribute.get_foreground());
                        f.u32(c.attribute.get_background());
                        f.u32(c.attribute.attr as u32);
                        f.u64(c.attribute.get_font_page() as u64);
                    } else {
                        f.u8(0xEE);
                    }
                }
            }
        })));
    }
    Snap { comps }
}

fn first_diff(a: &Snap, b: &Snap) -> Option<String> {
    for (x, y) in a.comps.iter().zip(b.comps.iter()) {
        if x != y {
            let name = if x.0 == y.0 { x.0.clone() } else { "layer-structure".to_string() };
            // strip the layer index for the signature
            let n = match name.find('[') {
                Some(p) => format!("layer{}", &name[name.find(']').unwrap_or(p) + 1..]),
                None => name,
            };
            return Some(n);
        }
    }
    if a.comps.len() != b.comps.len() {
        return Some("layer-count".into());
    }
    None
}

fn fp(s: &Snap) -> u64 {
    let mut f = Fnv::new();
    for c in &s.comps {
        f.u64(c.1);
    }
    f.finish()
}

// ------------------------------------------------------------------ one history

struct Editor {
    ops: Vec<Op>,
    depth: u32,
    per_doc: u64,
    explicit: Vec<(usize, Vec<usize>)>,
}

fn apply(s: &mut EditState, op: &Op) -> Result<bool, vharness::PanicRec> {
    catch(|| (op.f)(s).is_ok())
}

fn new_state(doc: usize) -> EditState {
    let mut s = EditState::from_buffer(start_doc(doc));
    if doc == 5 {
        let _ = s.set_current_layer(1);
        s.get_caret_mut().set_position((0, 5).into());
    }
    if doc == 6 {
        let _ = s.set_current_layer(1);
    }
    s
}

/// every operation as the "new edit after an undo": history h1..hn-1, undo, hn - if hn recorded an edit the redo history is gone
fn new_edit_discards_redo(ops: &[Op], doc: usize, hist: &[usize], ctx: &mut Ctx) {
    let n = hist.len();
    if n < 2 || !ops[hist[n - 2]].edit {
        return;
    }
    let mut s = new_state(doc);
    for &oi in &hist[..n - 1] {
        if !matches!(apply(&mut s, &ops[oi]), Ok(true)) {
            return;
        }
    }
    if !s.can_undo() || !matches!(catch(|| s.undo()), Ok(Ok(()))) || !s.can_redo() {
        return;
    }
    let len = s.undo_stack_len();
    if !matches!(apply(&mut s, &ops[hist[n - 1]]), Ok(true)) || s.undo_stack_len() <= len {
        return; // the last step failed or is not an edit
    }
    ctx.count("transitions", n as u64 + 2);
    ctx.count("new_edit_after_undo_checks", 1);
    let before = snapshot(s.get_buffer());
    let can = s.can_redo();
    let _ = catch(|| s.redo());
    let after = snapshot(s.get_buffer());
    if can || before != after {
        ctx.violation(
            format!("diff:redo:new-edit-keeps-redo-history:{}", ops[hist[n - 1]].name),
            json!({"document": DOCS[doc], "history": hist.iter().take(n - 1).map(|i| ops[*i].name).collect::<Vec<_>>(), "then": "undo", "new_edit": ops[hist[n - 1]].name, "can_redo_after_edit": can, "redo_changed_the_document": before != after}),
        );
    }
}

fn run_history(ops: &[Op], doc: usize, hist: &[usize], ctx: &mut Ctx) {
    ctx.count("evaluations", 1);
    new_edit_discards_redo(ops, doc, hist, ctx);
    let mut s = new_state(doc);
    let mut snaps: Vec<(usize, Snap)> = vec![(s.undo_stack_len(), snapshot(s.get_buffer()))];
    let mut applied: Vec<usize> = Vec::new();
    let hist_json = |n: usize| json!({"document": DOCS[doc], "history": hist.iter().take(n).map(|i| ops[*i].name).collect::<Vec<_>>()});
    for &oi in hist {
        let op = &ops[oi];
        ctx.count("transitions", 1);
        match apply(&mut s, op) {
            Err(_p) => {
                // the operation itself panicked: outside C08 (which quantifies over operations that report success).
                // The failed operation may have left partial entries on the undo stack, so the whole history is dropped;
                // its successful prefix is a history of its own.
                ctx.count("history_dropped:op_panicked(out of scope)", 1);
                return;
            }
            Ok(false) => {
                ctx.count("history_dropped:op_returned_err", 1);
                return;
            }
            Ok(true) => {
                applied.push(oi);
                snaps.push((s.undo_stack_len(), snapshot(s.get_buffer())));
            }
        }
    }
    let n = applied.len();
    ctx.state(fp(&snaps[n].1));
    if n == 0 {
        return;
    }
    if snaps[n].0 > snaps[0].0 {
        ctx.count("nontrivial", 1);
    }
    let mut out = Fnv::new();
    out.u64(snaps[n].0 as u64);
    out.u64(fp(&snaps[n].1));
    ctx.outcome(out.finish());
    // undo stack lengths must be monotone for the walk below to be meaningful
    for w in snaps.windows(2) {
        if w[1].0 < w[0].0 {
            ctx.violation("diff:undo:undo-stack-shrank-during-edit", hist_json(n));
            return;
        }
    }
    // ---- walk down: undo step by step, compare at every operation boundary
    let mut level = n;
    while level > 0 {
        while s.undo_stack_len() > snaps[level - 1].0 {
            ctx.count("transitions", 1);
            match catch(|| s.undo()) {
                Err(p) => {
                    let mut o = p.to_json();
                    o["history"] = hist_json(n);
                    o["undoing"] = json!(ops[applied[level - 1]].name);
                    ctx.violation(format!("{}:during-undo", p.signature()), o);
                    return;
                }
                Ok(Err(e)) => {
                    ctx.violation(format!("diff:undo:undo-returned-error:{}", ops[applied[level - 1]].name), json!({"case": hist_json(n), "error": e.to_string(), "undoing": ops[applied[level - 1]].name}));
                    return;
                }
                Ok(Ok(())) => {}
            }
            if s.undo_stack_len() >= snaps[level].0 && snaps[level].0 > snaps[level - 1].0 {
                // undo() did not pop anything
                ctx.violation("diff:undo:undo-did-not-pop", hist_json(n));
                return;
            }
        }
        level -= 1;
        let now = snapshot(s.get_buffer());
        if let Some(d) = first_diff(&snaps[level].1, &now) {
            ctx.violation(
                format!("diff:undo:{d}:{}", ops[applied[level]].name),
                json!({"case": hist_json(n), "undone_operation": ops[applied[level]].name, "restored_state_should_equal_state_after_step": level, "differs_in": d}),
            );
            return;
        }
    }
    // ---- walk up: redo everything, compare at every boundary
    for level in 1..=n {
        while s.undo_stack_len() < snaps[level].0 {
            let before = s.undo_stack_len();
            ctx.count("transitions", 1);
            match catch(|| s.redo()) {
                Err(p) => {
                    let mut o = p.to_json();
                    o["history"] = hist_json(n);
                    o["redoing"] = json!(ops[applied[level - 1]].name);
                    ctx.violation(format!("{}:during-redo", p.signature()), o);
                    return;
                }
                Ok(Err(e)) => {
                    ctx.violation(format!("diff:redo:redo-returned-error:{}", ops[applied[level - 1]].name), json!({"case": hist_json(n), "error": e.to_string()}));
                    return;
                }
                Ok(Ok(())) => {}
            }
            if s.undo_stack_len() == before {
                ctx.violation(format!("diff:redo:redo-history-lost:{}", ops[applied[level - 1]].name), json!({"case": hist_json(n), "redoing": ops[applied[level - 1]].name}));
                return;
            }
        }
        let now = snapshot(s.get_buffer());
        if let Some(d) = first_diff(&snaps[level].1, &now) {
            ctx.violation(
                format!("diff:redo:{d}:{}", ops[applied[level - 1]].name),
                json!({"case": hist_json(n), "redone_operation": ops[applied[level - 1]].name, "state_should_equal_state_after_step": level, "differs_in": d}),
            );
            return;
        }
    }
    // ---- undo/redo interleavings of length <= 4 from the top (positions measured in whole operations)
    let last_single = snaps[n].0 == snaps[n - 1].0 + 1 && (n < 2 || snaps[n - 1].0 == snaps[n - 2].0 + 1);
    if last_single {
        for walk in ["uru", "uur", "uuru", "urur", "uurr"] {
            let mut pos = n as i32;
            let mut ok = true;
            for c in walk.chars() {
                let r = catch(|| if c == 'u' { s.undo() } else { s.redo() });
                ctx.count("transitions", 1);
                if c == 'u' && pos > 0 {
                    pos -= 1;
                } else if c == 'r' && pos < n as i32 {
                    pos += 1;
                }
                if !matches!(r, Ok(Ok(()))) {
                    let opn = if c == 'u' { applied.get(pos.max(0) as usize) } else { applied.get((pos - 1).max(0) as usize) }.map(|i| ops[*i].name).unwrap_or("?");
                    let how = match &r {
                        Err(p) => p.signature(),
                        _ => "returned-error".to_string(),
                    };
                    ctx.violation(format!("diff:undo:interleaved-walk-failed:{}:{opn}:{how}", if c == 'u' { "undo" } else { "redo" }), json!({"case": hist_json(n), "walk": walk}));
                    ok = false;
                    break;
                }
                if pos >= 0 && (n as i32 - pos) <= 2 {
                    let now = snapshot(s.get_buffer());
                    if let Some(d) = first_diff(&snaps[pos as usize].1, &now) {
                        ctx.violation(format!("diff:undo:interleaved-walk:{d}"), json!({"case": hist_json(n), "walk": walk, "at_step": pos}));
                        ok = false;
                        break;
                    }
                }
            }
            if !ok {
                return;
            }
            // back to the top
            while pos < n as i32 {
                let _ = catch(|| s.redo());
                pos += 1;
            }
        }
    }
    // ---- a new edit after an undo discards the redo history
    let _ = catch(|| s.undo());
    if s.can_redo() {
        let r = catch(|| s.set_char((0, 0), ch('#', 1, 1)));
        if matches!(r, Ok(Ok(()))) {
            ctx.count("transitions", 2);
            let before = snapshot(s.get_buffer());
            let can = s.can_redo();
            let _ = catch(|| s.redo());
            let after = snapshot(s.get_buffer());
            if can || before != after {
                ctx.violation("diff:redo:new-edit-keeps-redo-history", json!({"case": hist_json(n), "can_redo_after_edit": can}));
            }
        }
    }
}

/// Histories one step longer than the depth of the search, built from three roles: an operation whose undo stores every row of the
/// layer (the layer-snapshot records), a row / column operation that records per stored row, and an operation whose redo puts back
/// whole layers cloned when it first ran. The physical rows a record sees at undo time are then not the rows it saw at redo time.
fn explicit_histories(ops: &[Op]) -> Vec<(usize, Vec<usize>)> {
    let id = |n: &str| ops.iter().position(|o| o.name == n).unwrap_or_else(|| panic!("no operation {n}"));
    let mut v = Vec::new();
    for doc in [0usize, 5, 6] {
        for pre in [vec![], vec!["clear_layer(0)"], vec!["cur_layer=0", "clear_layer(0)"], vec!["clear_layer(top)"]] {
            for snap in ["justify_left", "flip_x", "scroll_area_up", "erase_row"] {
                for rec in ["delete_column", "delete_row", "insert_column", "insert_row"] {
                    for swap in ["set_ice_mode(Ice)", "switch_to_palette", "replace_font_usage(0,1)"] {
                        let mut h: Vec<usize> = pre.iter().map(|n| id(n)).collect();
                        h.extend([id(snap), id(rec), id(swap)]);
                        v.push((doc, h));
                    }
                }
            }
        }
    }
    // histories of three operations that the depth 3 search (thorough tier) found defects with: kept in the quick tier as well
    for (doc, names) in [
        (0usize, vec!["set_layer_size(cur,12x6)", "scroll_area_down", "erase_row_to_start"]),
        (1, vec!["set_layer_size(cur,12x6)", "scroll_area_down", "erase_row_to_start"]),
        (0, vec!["set_layer_size(cur,12x6)", "scroll_area_up", "erase_row_to_start"]),
        (0, vec!["set_layer_size(0,0x0)", "resize_buffer(true,4x2)", "make_layer_transparent"]),
        (1, vec!["set_layer_size(0,0x0)", "resize_buffer(true,4x2)", "make_layer_transparent"]),
        (1, vec!["set_layer_size(0,0x0)", "resize_buffer(true,4x2)", "move_layer(2,1)"]),
        (1, vec!["set_layer_size(0,0x0)", "resize_buffer(true,4x2)", "rotate_layer"]),
        (1, vec!["cur_layer=top", "set_layer_size(0,0x0)", "resize_buffer(true,4x2)", "make_layer_transparent"]),
        (1, vec!["cur_layer=top", "set_layer_size(0,0x0)", "resize_buffer(true,4x2)", "move_layer(2,1)"]),
        (1, vec!["cur_layer=top", "set_layer_size(0,0x0)", "resize_buffer(true,4x2)", "rotate_layer"]),
        (1, vec!["cur_layer=top", "set_layer_size(0,0x0)", "resize_buffer(true,4x2)", "stamp_layer_down"]),
        (2, vec!["cur_layer=top", "set_layer_size(0,0x0)", "resize_buffer(true,4x2)", "make_layer_transparent"]),
        (3, vec!["cur_layer=top", "set_layer_size(0,0x0)", "resize_buffer(true,4x2)", "make_layer_transparent"]),
    ] {
        v.push((doc, names.iter().map(|n| id(n)).collect()));
    }
    v
}

impl Editor {
    fn decode(&self, idx: u64) -> (usize, Vec<usize>) {
        let searched = self.per_doc * DOCS.len() as u64;
        if idx >= searched {
            return self.explicit[(idx - searched) as usize].clone();
        }
        let doc = (idx / self.per_doc) as usize;
        let mut k = idx % self.per_doc;
        // histories of every length 1..=depth: lengths are laid out one after another
        let n = self.ops.len() as u64;
        let mut len = 1;
        loop {
            let c = n.pow(len);
            if k < c {
                break;
            }
            k -= c;
            len += 1;
        }
        let mut h = vec![0usize; len as usize];
        for i in (0..len as usize).rev() {
            h[i] = (k % n) as usize;
            k /= n;
        }
        (doc, h)
    }
}

impl Engine for Editor {
    fn total(&self) -> u64 {
        self.per_doc * DOCS.len() as u64 + self.explicit.len() as u64
    }
    fn run(&mut self, idx: u64, ctx: &mut Ctx) {
        let (doc, h) = self.decode(idx);
        run_history(&self.ops, doc, &h, ctx);
    }
    fn describe(&self, idx: u64) -> Value {
        let (doc, h) = self.decode(idx);
        json!({"engine": "editor-history", "idx": idx, "document": DOCS[doc], "doc_index": doc, "history": h.iter().map(|i| self.ops[*i].name).collect::<Vec<_>>(), "key": "editor-history"})
    }
    fn replay(&mut self, case: &Value, ctx: &mut Ctx) {
        let doc = case["doc_index"].as_u64().unwrap_or(0) as usize;
        let h: Vec<usize> = case["history"].as_array().map(|a| a.iter().filter_map(|n| self.ops.iter().position(|o| Some(o.name) == n.as_str())).collect()).unwrap_or_default();
        run_history(&self.ops, doc, &h, ctx);
    }
    fn meta(&self) -> Value {
        json!({"operations": self.ops.iter().map(|o| o.name).collect::<Vec<_>>(), "set_up_steps(not edits)": self.ops.iter().filter(|o| !o.edit).count(), "depth": self.depth, "documents": DOCS,
               "histories_per_document": self.per_doc, "explicit_longer_histories": self.explicit.len()})
    }
}

fn main() {
    worker_main(|_prop, tier| {
        let ops = ops();
        let depth = if tier == "thorough" { 3 } else { 2 };
        let n = ops.len() as u64;
        let per_doc: u64 = (1..=depth).map(|d| n.pow(d)).sum();
        let explicit = explicit_histories(&ops);
        Box::new(Editor { ops, depth, per_doc, explicit })
    });
}
