//! C18 (attribute / code page codecs) and C19 (CRC tables): finite domains enumerated completely.
//! A "case" is a batch (one high byte, one table row, one string length, ...).

use icy_engine::{ascii, atascii, get_crc16, get_crc32, petscii, update_crc16, update_crc32, viewdata, AttributedChar, IceMode, TextAttribute, UnicodeConverter, CRC32_TABLE};
use vharness::{json, worker_main, Ctx, Engine, Fnv, Value};

// ---------------------------------------------------------------- C19

fn crc16_bitwise_step(mut crc: u16, b: u8) -> u16 {
    crc ^= (b as u16) << 8;
    for _ in 0..8 {
        crc = if crc & 0x8000 != 0 { (crc << 1) ^ 0x1021 } else { crc << 1 };
    }
    crc
}
fn crc16_bitwise(s: &[u8]) -> u16 {
    s.iter().fold(0, |c, b| crc16_bitwise_step(c, *b))
}
fn crc32_bitwise_raw(mut crc: u32, s: &[u8]) -> u32 {
    for &b in s {
        crc ^= b as u32;
        for _ in 0..8 {
            crc = if crc & 1 != 0 { (crc >> 1) ^ 0xEDB8_8320 } else { crc >> 1 };
        }
    }
    crc
}
fn crc32_bitwise(s: &[u8]) -> u32 {
    !crc32_bitwise_raw(0xFFFF_FFFF, s)
}

const C19_LENGTHS: [usize; 57] = {
    let mut a = [0usize; 57];
    let mut i = 0;
    while i <= 48 {
        a[i] = i;
        i += 1;
    }
    a[49] = 63;
    a[50] = 64;
    a[51] = 65;
    a[52] = 79;
    a[53] = 80;
    a[54] = 81;
    a[55] = 96;
    a[56] = 255;
    a
};

struct C19 {
    thorough: bool,
}

#[derive(Debug)]
enum C19Case {
    Crc16State(u8),     // all 256 low bytes x 256 inputs for this high byte
    TableRow(usize),    // 256 entries of CRC32_TABLE[row]
    TwoByte(u8),        // all second bytes
    Basis(usize, u8),   // every position x every value for strings of this length over a background byte
    ThreeByte(u8, u8),  // thorough: all third bytes for (a,b)
    /// the incremental CRC-32 step on register values the strings from the initial value rarely reach: every 16 bit pattern x in the low
    /// and in the high half of the register, and the complements of both (this includes 0 and 0xFFFFFFFF), x all 256 input bytes
    Crc32State(u8),
}

impl C19 {
    fn case(&self, idx: u64) -> C19Case {
        let mut i = idx as usize;
        if i < 256 {
            return C19Case::Crc16State(i as u8);
        }
        i -= 256;
        if i < 16 {
            return C19Case::TableRow(i);
        }
        i -= 16;
        if i < 256 {
            return C19Case::TwoByte(i as u8);
        }
        i -= 256;
        let nb = C19_LENGTHS.len() * 3;
        if i < nb {
            return C19Case::Basis(C19_LENGTHS[i / 3], [0u8, 0xFF, 0xA5][i % 3]);
        }
        i -= nb;
        if i < 256 {
            return C19Case::Crc32State(i as u8);
        }
        i -= 256;
        C19Case::ThreeByte((i >> 8) as u8, i as u8)
    }
}

fn check_string(s: &[u8], ctx: &mut Ctx) {
    ctx.count("evaluations", 1);
    let want32 = crc32_bitwise(s);
    let got32 = get_crc32(s);
    let inc32 = !s.iter().fold(0xFFFF_FFFFu32, |c, b| update_crc32(c, *b));
    let want16 = crc16_bitwise(s);
    let got16 = get_crc16(s);
    let inc16 = s.iter().fold(0u16, |c, b| update_crc16(c, *b));
    ctx.count("transitions", 4 * s.len() as u64 + 4);
    if got32 != want32 {
        ctx.violation(format!("diff:crc32:oneshot:len{}", len_class(s.len())), json!({"string": vharness::bytes_to_json(s), "got": got32, "want": want32}));
    }
    if inc32 != want32 {
        ctx.violation(format!("diff:crc32:incremental:len{}", len_class(s.len())), json!({"string": vharness::bytes_to_json(s), "got": inc32, "want": want32}));
    }
    if got16 != want16 {
        ctx.violation("diff:crc16:oneshot", json!({"string": vharness::bytes_to_json(s), "got": got16, "want": want16}));
    }
    if inc16 != want16 {
        ctx.violation("diff:crc16:incremental", json!({"string": vharness::bytes_to_json(s), "got": inc16, "want": want16}));
    }
    let mut f = Fnv::new();
    f.u32(got32);
    f.u32(got16 as u32);
    ctx.state(f.finish());
}

fn len_class(l: usize) -> &'static str {
    match l {
        0..=15 => "<16",
        16 => "=16",
        17..=31 => "17..31",
        32 => "=32",
        _ => ">32",
    }
}

impl Engine for C19 {
    fn total(&self) -> u64 {
        let base = 256 + 16 + 256 + (C19_LENGTHS.len() * 3) as u64 + 256;
        if self.thorough {
            base + 65536
        } else {
            base
        }
    }
    fn describe(&self, idx: u64) -> Value {
        json!({"engine":"C19","batch": format!("{:?}", self.case(idx)), "idx": idx})
    }
    fn replay(&mut self, case: &Value, ctx: &mut Ctx) {
        self.run(case["idx"].as_u64().unwrap_or(0), ctx)
    }
    fn meta(&self) -> Value {
        json!({"batches": "256 crc16 state rows (x256 low bytes x256 inputs) + 16 crc32 table rows + 256 two-byte rows + 57 lengths x 3 backgrounds (every position x every value) [+ 65536 three-byte rows in thorough]",
               "lengths": C19_LENGTHS.to_vec()})
    }
    fn run(&mut self, idx: u64, ctx: &mut Ctx) {
        match self.case(idx) {
            C19Case::Crc16State(h) => {
                let mut bad = 0u64;
                let mut first = None;
                let mut f = Fnv::new();
                for lo in 0..=255u16 {
                    let st = (h as u16) << 8 | lo;
                    for b in 0..=255u8 {
                        let got = update_crc16(st, b);
                        let want = crc16_bitwise_step(st, b);
                        f.u32(got as u32);
                        if got != want {
                            bad += 1;
                            first.get_or_insert((st, b, got, want));
                        }
                    }
                }
                ctx.count("evaluations", 65536);
                ctx.count("transitions", 65536);
                ctx.state(f.finish());
                if let Some((st, b, got, want)) = first {
                    ctx.violation("diff:crc16:update-step", json!({"state": st, "byte": b, "got": got, "want": want, "bad_in_row": bad}));
                }
            }
            C19Case::TableRow(k) => {
                for i in 0..256usize {
                    let want = if k == 0 {
                        crc32_bitwise_raw(i as u32, &[0])
                    } else {
                        let p = CRC32_TABLE[k - 1][i];
                        (p >> 8) ^ crc32_bitwise_raw(p & 0xFF, &[0])
                    };
                    // defining recurrence: T[k][i] = crc of byte i followed by k zero bytes (raw, no init / inversion)
                    let direct = {
                        let z = vec![0u8; k + 1];
                        crc32_bitwise_raw(i as u32, &z)
                    };
                    ctx.count("evaluations", 1);
                    ctx.count("transitions", 2);
                    let got = CRC32_TABLE[k][i];
                    let mut f = Fnv::new();
                    f.u32(got);
                    ctx.state(f.finish());
                    if got != want || got != direct {
                        ctx.violation(format!("diff:crc32:table-row{}", if k == 0 { "0" } else { "1..15" }), json!({"row": k, "entry": i, "got": got, "want": direct}));
                    }
                }
            }
            C19Case::TwoByte(a) => {
                check_string(&[a], ctx);
                for b in 0..=255u8 {
                    check_string(&[a, b], ctx);
                }
                if a == 0 {
                    check_string(&[], ctx);
                }
            }
            C19Case::Basis(len, bg) => {
                let mut s = vec![bg; len];
                check_string(&s, ctx);
                for p in 0..len {
                    for v in 0..=255u8 {
                        if v == bg {
                            continue;
                        }
                        s[p] = v;
                        check_string(&s, ctx);
                    }
                    s[p] = bg;
                }
                // pairs of adjacent positions around every 16-byte block boundary (value menu)
                for p in 0..len.saturating_sub(1) {
                    if p % 16 == 15 || p % 16 == 0 || p % 16 == 3 || p % 16 == 11 {
                        for v in [1u8, 0x80, 0xFF, 0x5A] {
                            for w in [1u8, 0x80, 0xFF, 0x3C] {
                                s[p] = v;
                                s[p + 1] = w;
                                check_string(&s, ctx);
                            }
                        }
                        s[p] = bg;
                        s[p + 1] = bg;
                    }
                }
            }
            C19Case::Crc32State(h) => {
                let mut first = None;
                let mut bad = 0u64;
                let mut f = Fnv::new();
                for lo in 0..=255u32 {
                    let x = (h as u32) << 8 | lo;
                    for st in [x, x << 16, !x, !(x << 16)] {
                        for b in 0..=255u8 {
                            let got = update_crc32(st, b);
                            let want = crc32_bitwise_raw(st, &[b]);
                            f.u32(got);
                            if got != want {
                                bad += 1;
                                first.get_or_insert((st, b, got, want));
                            }
                        }
                    }
                }
                ctx.count("evaluations", 4 * 65536);
                ctx.count("transitions", 4 * 65536);
                ctx.state(f.finish());
                if let Some((st, b, got, want)) = first {
                    ctx.violation("diff:crc32:update-step", json!({"register": st, "byte": b, "got": got, "want": want, "bad_in_batch": bad}));
                }
            }
            C19Case::ThreeByte(a, b) => {
                for c in 0..=255u8 {
                    check_string(&[a, b, c], ctx);
                }
            }
        }
    }
}

// ---------------------------------------------------------------- C18

struct C18;

const MODES: [IceMode; 3] = [IceMode::Blink, IceMode::Ice, IceMode::Unlimited];

fn converters() -> Vec<(&'static str, Box<dyn UnicodeConverter>, u32)> {
    // name, converter, size of the code range whose round trip is claimed by the statement
    vec![
        ("cp437", Box::<ascii::CP437Converter>::default(), 256),
        ("atascii", Box::<atascii::CharConverter>::default(), 128),
        ("petscii", Box::<petscii::CharConverter>::default(), 0),
        // the printable codes of the Viewdata / Mode 7 table (0x21..=0x7E): one character each
        ("viewdata", Box::<viewdata::CharConverter>::default(), 0x7F),
    ]
}

impl Engine for C18 {
    fn total(&self) -> u64 {
        // 3 byte batches (one per mode) + 3 tuple batches + 4 converter code batches + 4 alnum batches + 4 batches of interleaved calls
        18
    }
    fn describe(&self, idx: u64) -> Value {
        let what = match idx {
            0..=2 => format!("all 256 attribute bytes decode->encode in mode {:?}", MODES[idx as usize]),
            3..=5 => format!("all (fg,bg,blink,bold) tuples expressible in mode {:?} encode->decode", MODES[idx as usize - 3]),
            6..=9 => format!("all 256 codes through converter {}", converters()[idx as usize - 6].0),
            14..=17 => format!("round trips of converter {} with every other conversion call interleaved (all ordered pairs)", converters()[idx as usize - 14].0),
            _ => format!("63 alphanumerics+space through converter {}", converters()[idx as usize - 10].0),
        };
        json!({"engine":"C18","idx":idx,"batch":what})
    }
    fn replay(&mut self, case: &Value, ctx: &mut Ctx) {
        self.run(case["idx"].as_u64().unwrap_or(0), ctx)
    }
    fn run(&mut self, idx: u64, ctx: &mut Ctx) {
        match idx {
            0..=2 => {
                let m = MODES[idx as usize];
                for b in 0..=255u8 {
                    let a = TextAttribute::from_u8(b, m);
                    let back = a.as_u8(m);
                    ctx.count("evaluations", 1);
                    ctx.count("transitions", 2);
                    let mut f = Fnv::new();
                    f.u32(a.get_foreground());
                    f.u32(a.get_background());
                    f.u8(a.is_blinking() as u8);
                    f.u8(idx as u8);
                    ctx.state(f.finish());
                    if back != b {
                        ctx.violation(
                            format!("diff:attr-byte:{m:?}:{}", if b & 0x80 != 0 { "bit7-set" } else { "bit7-clear" }),
                            json!({"mode": format!("{m:?}"), "byte": b, "reencoded": back}),
                        );
                    }
                    // decoded fields are what the byte says
                    let want_fg = (b & 15) as u32;
                    let (want_bg, want_blink) = if m == IceMode::Ice { ((b >> 4) as u32, false) } else { (((b >> 4) & 7) as u32, b & 0x80 != 0) };
                    if a.get_foreground() != want_fg || a.get_background() != want_bg || a.is_blinking() != want_blink {
                        ctx.violation(format!("diff:attr-decode:{m:?}"), json!({"byte": b, "fg": a.get_foreground(), "bg": a.get_background(), "blink": a.is_blinking()}));
                    }
                }
            }
            3..=5 => {
                let m = MODES[idx as usize - 3];
                for fg in 0..16u32 {
                    for bg in 0..16u32 {
                        for blink in [false, true] {
                            for bold in [false, true] {
                                // expressible: Ice has no blink; Blink/Unlimited bytes carry bg 0..7 + blink (from_u8 semantics)
                                let expressible = match m {
                                    IceMode::Ice => !blink,
                                    IceMode::Blink | IceMode::Unlimited => bg < 8,
                                };
                                if !expressible {
                                    ctx.count("skipped_not_expressible", 1);
                                    continue;
                                }
                                let mut a = TextAttribute::new(fg, bg);
                                a.set_is_blinking(blink);
                                a.set_is_bold(bold);
                                let byte = a.as_u8(m);
                                let d = TextAttribute::from_u8(byte, m);
                                ctx.count("evaluations", 1);
                                ctx.count("transitions", 2);
                                let mut f = Fnv::new();
                                f.u8(byte);
                                f.u8(idx as u8);
                                ctx.state(f.finish());
                                let shown_fg = if bold { fg | 8 } else { fg };
                                if d.get_foreground() != shown_fg || d.get_background() != bg || d.is_blinking() != blink {
                                    let cls = if d.get_foreground() != shown_fg {
                                        "fg"
                                    } else if d.get_background() != bg {
                                        "bg"
                                    } else {
                                        "blink"
                                    };
                                    ctx.violation(
                                        format!("diff:attr-tuple:{m:?}:{cls}"),
                                        json!({"mode": format!("{m:?}"), "fg": fg, "bg": bg, "blink": blink, "bold": bold, "byte": byte,
                                               "decoded": {"fg": d.get_foreground(), "bg": d.get_background(), "blink": d.is_blinking()}}),
                                    );
                                }
                            }
                        }
                    }
                }
            }
            6..=9 => {
                let (name, conv, claimed) = converters().swap_remove(idx as usize - 6);
                let mut ok = 0;
                for code in 0..256u32 {
                    let ch = char::from_u32(code).unwrap();
                    let uni = conv.convert_to_unicode(AttributedChar::new(ch, TextAttribute::default()));
                    let back = conv.convert_from_unicode(uni, 0);
                    ctx.count("evaluations", 1);
                    ctx.count("transitions", 2);
                    let mut f = Fnv::new();
                    f.u32(uni as u32);
                    f.u32(back as u32);
                    f.u8(idx as u8);
                    ctx.state(f.finish());
                    if back == ch {
                        ok += 1;
                    } else if code < claimed && (name != "viewdata" || code > 0x20) {
                        ctx.violation(format!("diff:codepage:{name}:code-roundtrip"), json!({"code": code, "unicode": uni as u32, "back": back as u32}));
                    }
                }
                ctx.count(&format!("roundtrip_ok_{name}"), ok);
            }
            14..=17 => {
                // the converters are used as pure functions: a round trip must not depend on which conversion was asked for in between
                let (name, conv, claimed) = converters().swap_remove(idx as usize - 14);
                let typed: Vec<char> = ('a'..='z').chain('A'..='Z').chain('0'..='9').chain([' ']).collect();
                let at = |c: u32| AttributedChar::new(char::from_u32(c).unwrap(), TextAttribute::default());
                let images: Vec<char> = (0..256u32).map(|c| conv.convert_to_unicode(at(c))).collect();
                let mut f = Fnv::new();
                // code -> unicode, [other code -> unicode], unicode -> code
                for b in (if name == "viewdata" { 0x21 } else { 0 })..claimed {
                    for a in 0..256u32 {
                        let u = conv.convert_to_unicode(at(b));
                        let _ = conv.convert_to_unicode(at(a));
                        let back = conv.convert_from_unicode(u, 0);
                        ctx.count("evaluations", 1);
                        ctx.count("transitions", 3);
                        if back as u32 != b {
                            ctx.violation(format!("diff:codepage:{name}:code-roundtrip-with-interleaved-call"), json!({"code": b, "interleaved_code": a, "unicode": u as u32, "back": back as u32}));
                            return;
                        }
                    }
                }
                // typed char -> code, with another unicode -> code call directly before it
                for x in images.iter().chain(typed.iter()) {
                    for y in &typed {
                        let _ = conv.convert_from_unicode(*x, 0);
                        let code = conv.convert_from_unicode(*y, 0);
                        let back = conv.convert_to_unicode(AttributedChar::new(code, TextAttribute::default()));
                        f.u32(code as u32);
                        ctx.count("evaluations", 1);
                        ctx.count("transitions", 3);
                        if back != *y {
                            ctx.violation(format!("diff:codepage:{name}:typed-char-after-another-lookup"), json!({"previous_lookup": *x as u32, "typed": y.to_string(), "code": code as u32, "back": back as u32}));
                            return;
                        }
                        // and the code -> unicode direction after a unicode -> code call
                        let _ = conv.convert_to_unicode(at(*x as u32 & 0xFF));
                        let code2 = conv.convert_from_unicode(*y, 0);
                        if code2 != code {
                            ctx.violation(format!("diff:codepage:{name}:typed-char-depends-on-history"), json!({"typed": y.to_string(), "code": code as u32, "code_after_other_call": code2 as u32}));
                            return;
                        }
                    }
                }
                f.u8(idx as u8);
                ctx.state(f.finish());
                ctx.count("nontrivial", 1);
            }
            _ => {
                let (name, conv, _) = converters().swap_remove(idx as usize - 10);
                let typed: Vec<char> = ('a'..='z').chain('A'..='Z').chain('0'..='9').chain([' ']).collect();
                for ch in typed {
                    let code = conv.convert_from_unicode(ch, 0);
                    let back = conv.convert_to_unicode(AttributedChar::new(code, TextAttribute::default()));
                    ctx.count("evaluations", 1);
                    ctx.count("transitions", 2);
                    let mut f = Fnv::new();
                    f.u32(code as u32);
                    f.u32(back as u32);
                    f.u8(idx as u8);
                    ctx.state(f.finish());
                    if back != ch {
                        ctx.violation(format!("diff:codepage:{name}:typed-char"), json!({"typed": ch.to_string(), "code": code as u32, "back": back.to_string()}));
                    }
                }
            }
        }
    }
}

fn main() {
    worker_main(|prop, tier| match prop {
        "C19" => Box::new(C19 { thorough: tier == "thorough" }),
        "C18" => Box::new(C18),
        _ => panic!("px_finite serves C18 C19"),
    });
}
