//! One-off / regression aid (not a registered check): `CSI n S` == n x `CSI 1 S` and `CSI n T` == n x `CSI 1 T` for every n in
//! 0..=H+3, every start context and several screen sizes, compared by the full observable fingerprint.
use vharness::emu::{contexts, Emu, Term};

fn main() {
    vharness::panics::install_hook();
    let mut n_cases = 0u64;
    let mut bad = 0u64;
    for (w, h) in [(80, 25), (10, 5), (3, 3), (2, 2), (1, 1), (132, 60)] {
        let mut fill: Vec<u8> = Vec::new();
        for y in 0..h + 4 {
            for x in 0..(w - 1).max(1) {
                fill.push(b'a' + ((x + 3 * y) % 26) as u8);
            }
            fill.extend(b"\r\n");
        }
        fill.extend(format!("\x1b[{};{}H", (h / 2).max(1), (w / 2).max(1)).as_bytes());
        for (name, ctx) in contexts(Emu::Ansi(0), w, h) {
            for order in 0..2 {
                for f in ['S', 'T'] {
                    for n in 0..=h + 3 {
                        let run = |seq: Vec<u8>| {
                            let mut t = Term::new(Emu::Ansi(0), w, h);
                            if order == 0 {
                                t.feed_quiet(&fill);
                                t.feed_quiet(&ctx);
                            } else {
                                t.feed_quiet(&ctx);
                                t.feed_quiet(&fill);
                            }
                            t.feed_quiet(&seq);
                            t.fingerprint()
                        };
                        let a = run(format!("\x1b[{n}{f}").into_bytes());
                        let b = run(format!("\x1b[1{f}").repeat(n as usize).into_bytes());
                        n_cases += 1;
                        if a != b {
                            bad += 1;
                            if bad < 10 {
                                println!("DIFFERENT: {w}x{h} context {name} order {order} CSI {n} {f}");
                            }
                        }
                    }
                }
            }
        }
    }
    println!("cases {n_cases} different {bad}");
    std::process::exit(if bad == 0 { 0 } else { 1 });
}
