//! C07 (the native IcyDraw format is lossless) and the IcyDraw part of C10 (long-form cells and strings
//! in layer chunks never materialise invalid chars / invalid UTF-8).

use icy_engine::{AttributedChar, BitFont, Buffer, BufferType, Color, FontMode, IceMode, Layer, Mode, Palette, PaletteMode, SauceData, SauceString, SaveOptions, TextAttribute, TextPane};
use std::path::PathBuf;
use vharness::doc::*;
use vharness::icy;
use vharness::{catch, json, worker_main, Ctx, Engine, Fnv, Value};

const TRANSPARENT: u32 = 1 << 31;

#[derive(Clone, Copy, Debug, PartialEq)]
enum CK {
    Short,
    LongChar(u32),
    LongColour,
    LongPage,
    Invisible,
    /// an invisible cell that still carries a character, colours and other attribute flags (what is left of an erased cell)
    InvisibleFlags,
    TranspFg,
    TranspBg,
    Attr(u16, bool),
}

fn ck_char(k: CK) -> AttributedChar {
    let mk = |ch: u32, fg: u32, bg: u32, page: usize, attr: u16| {
        let mut a = TextAttribute::new(fg, bg);
        a.attr = attr;
        a.set_font_page(page);
        AttributedChar::new(char::from_u32(ch).unwrap(), a)
    };
    match k {
        CK::Short => mk(b'A' as u32, 14, 1, 0, 0b1001),
        CK::LongChar(c) => mk(c, 7, 0, 0, 0),
        CK::LongColour => mk(b'B' as u32, 256, 299, 0, 0),
        CK::LongPage => mk(b'C' as u32, 1, 2, 300, 0b10_0001_0000),
        CK::Invisible => AttributedChar::invisible(),
        CK::InvisibleFlags => mk(b'Z' as u32, 9, 4, 0, icy_engine::attribute::INVISIBLE | 0b1_0001),
        CK::TranspFg => mk(220, TRANSPARENT, 3, 0, 0),
        CK::TranspBg => mk(223, 4, TRANSPARENT, 0, 0),
        CK::Attr(a, long) => mk(if long { 0x2591 } else { 0xB0 }, 5, 6, 0, a),
    }
}

const KINDS: [CK; 11] = [CK::InvisibleFlags, CK::Short, CK::LongChar(0x100), CK::LongChar(0xD7FF), CK::LongChar(0xE000), CK::LongChar(0x10FFFF), CK::LongColour, CK::LongPage, CK::Invisible, CK::TranspFg, CK::TranspBg];

#[derive(Clone, Debug)]
struct LSpec {
    title: String,
    w: i32,
    h: i32,
    ox: i32,
    oy: i32,
    flags: u8, // visible, locked, pos locked, alpha, alpha locked
    mode: u8,
    color: bool,
    transparency: u8,
    font_page: usize,
    rows: Vec<Vec<CK>>,
    /// 0 a normal layer, 1 an image layer (role Image, one 8x16 RGBA picture), 2 an image layer whose picture was removed (a cell was
    /// written on its first row), 3 an image layer that holds its picture and visible cells (a cell written on its second row)
    image: u8,
}

impl LSpec {
    fn base() -> LSpec {
        LSpec { title: "layer".into(), w: 3, h: 2, ox: 0, oy: 0, flags: 1, mode: 0, color: false, transparency: 0, font_page: 0, rows: vec![vec![CK::Short, CK::Invisible, CK::Short], vec![CK::LongChar(0x2588)]], image: 0 }
    }
    fn build(&self) -> Layer {
        let mut l = Layer::new(self.title.clone(), (self.w, self.h));
        for (y, r) in self.rows.iter().enumerate() {
            for (x, k) in r.iter().enumerate() {
                if (x as i32) < self.w && (y as i32) < self.h {
                    l.set_char((x as i32, y as i32), ck_char(*k));
                }
            }
        }
        l.set_offset((self.ox, self.oy));
        l.properties.mode = [Mode::Normal, Mode::Chars, Mode::Attributes][self.mode as usize];
        if self.color {
            l.properties.color = Some(Color::new(10, 20, 30));
        }
        l.transparency = self.transparency;
        l.default_font_page = self.font_page;
        l.properties.is_visible = self.flags & 1 != 0;
        l.properties.is_locked = self.flags & 2 != 0;
        l.properties.is_position_locked = self.flags & 4 != 0;
        l.properties.has_alpha_channel = self.flags & 8 != 0;
        l.properties.is_alpha_channel_locked = self.flags & 16 != 0;
        if self.image != 0 {
            l.role = icy_engine::Role::Image;
            if self.image == 1 || self.image == 3 {
                // an image layer holds its picture only (the format stores RGBA data for it); variant 3 keeps the cells next to it
                if self.image == 1 {
                    l.lines.clear();
                }
                let data: Vec<u8> = (0..8 * 16 * 4).map(|i| (i * 7 % 251) as u8).collect();
                l.sixels.push(icy_engine::Sixel::from_data((8, 16), 1, 1, data));
            }
        }
        l
    }
    fn json(&self) -> Value {
        json!({"title": self.title, "size": [self.w, self.h], "offset": [self.ox, self.oy], "flags(visible,locked,pos-locked,alpha,alpha-locked)": self.flags, "mode": self.mode, "color_tag": self.color,
               "transparency": self.transparency, "default_font_page": self.font_page, "image_layer": (["no", "picture 8x16", "role image, picture removed", "picture 8x16 and visible cells"][self.image as usize]), "rows": self.rows.iter().map(|r| r.iter().map(|k| format!("{k:?}")).collect::<Vec<_>>()).collect::<Vec<_>>()})
    }
}

#[derive(Clone, Debug)]
struct DSpec {
    w: i32,
    h: i32,
    buffer_type: u8,
    ice: u8,
    palette_mode: u8,
    font_mode: u8,
    palette: u8, // 0 default, 1 one colour, 2 17 colours, 3 300 colours
    fonts: u8,   // 0 {0}, 1 {0,1}, 2 {0,255,300}
    sauce: u8,   // 0 none, 1 plain, 2 with comments
    layers: Vec<LSpec>,
}

impl DSpec {
    fn base() -> DSpec {
        let mut l2 = LSpec::base();
        l2.title = "second".into();
        l2.flags = 1 | 8;
        l2.ox = 1;
        DSpec { w: 4, h: 3, buffer_type: 1, ice: 0, palette_mode: 1, font_mode: 1, palette: 3, fonts: 2, sauce: 0, layers: vec![LSpec::base(), l2] }
    }
    fn build(&self) -> Buffer {
        let mut b = Buffer::new((self.w, self.h));
        b.buffer_type = BufferType::from_byte(self.buffer_type);
        b.ice_mode = IceMode::from_byte(self.ice);
        b.palette_mode = PaletteMode::from_byte(self.palette_mode);
        b.font_mode = FontMode::from_byte(self.font_mode);
        b.palette = match self.palette {
            0 => Palette::dos_default(),
            1 => Palette::from_slice(&[Color::new(9, 8, 7)]),
            2 => {
                let mut p = Palette::dos_default();
                p.push(Color::new(1, 2, 3));
                p
            }
            5 => {
                // a strict prefix of the DOS palette: its first 8 colours
                let mut p = Palette::dos_default();
                p.resize(8);
                p
            }
            6 => Palette::from_slice(&[Color::new(0, 0, 0)]),
            4 => {
                // equal neighbours: a colour set far behind the end pads the gap with equal entries
                let mut p = Palette::dos_default();
                p.set_color(20, Color::new(9, 9, 9));
                p.push(Color::new(9, 9, 9));
                p.push(Color::new(9, 9, 9));
                p
            }
            _ => {
                let mut p = Palette::dos_default();
                for i in 0..284u32 {
                    p.push(Color::new((i * 5) as u8, (i / 2) as u8, (255 - i / 3) as u8));
                }
                p
            }
        };
        match self.fonts {
            0 => {}
            3 => {
                // the default font edited in place (its cached checksum is stale)
                let mut f = BitFont::default();
                if let Some(g) = f.get_glyph_mut('A') {
                    g.data[3] ^= 0x5A;
                    g.data[7] = 0xFF;
                }
                b.set_font(0, f);
            }
            1 => b.set_font(1, synth_font("one", 16, 3)),
            4 => {
                // no font in slot 0: the only font sits in slot 5 (every cell is moved to that page after the layers are built)
                b.clear_font_table();
                b.set_font(5, synth_font("five only", 16, 9));
            }
            5 => {
                // the font in slot 0 declares a width of 9 pixels (PSF2 header; one byte per glyph row as the loader reads it)
                let mut d: Vec<u8> = Vec::new();
                for x in [0x864a_b572u32, 0, 32, 0, 256, 16, 16, 9] {
                    d.extend(x.to_le_bytes());
                }
                d.extend((0..256 * 16).map(|i| (i * 31 % 255) as u8));
                if let Ok(f) = BitFont::from_bytes("nine wide", &d) {
                    b.set_font(0, f);
                }
            }
            _ => {
                b.set_font(255, synth_font("two five five", 16, 5));
                b.set_font(300, synth_font("three hundred \u{fc}", 8, 7));
            }
        }
        match self.sauce {
            0 => {}
            s => {
                let mut d = SauceData::default();
                d.title = SauceString::from("a title");
                d.author = SauceString::from("author");
                d.group = SauceString::from("grp");
                d.buffer_size = b.get_size();
                if s == 2 {
                    // a record of an old file
                    d.creation_time = chrono::NaiveDate::from_ymd_opt(1996, 4, 1).unwrap().and_hms_opt(0, 0, 0).unwrap();
                    d.comments.push(SauceString::from("first comment"));
                    d.comments.push(SauceString::from("second"));
                }
                b.set_sauce(Some(d), false);
            }
        }
        b.layers = self.layers.iter().map(|l| l.build()).collect();
        if self.fonts == 4 {
            for l in b.layers.iter_mut() {
                l.default_font_page = 5;
                for line in l.lines.iter_mut() {
                    for c in line.chars.iter_mut() {
                        if c.is_visible() {
                            c.attribute.set_font_page(5);
                        }
                    }
                }
            }
        }
        b
    }
    fn uses_page_300(&self) -> bool {
        self.layers.iter().any(|l| l.rows.iter().any(|r| r.contains(&CK::LongPage)))
    }
    fn json(&self) -> Value {
        json!({"size": [self.w, self.h], "buffer_type": self.buffer_type, "ice_mode": self.ice, "palette_mode": self.palette_mode, "font_mode": self.font_mode,
               "palette": (["default 16", "1 colour", "17 colours", "300 colours", "23 colours with equal neighbours", "the first 8 DOS colours", "black only"][self.palette as usize]), "fonts": (["{0}", "{0,1}", "{0,255,300}", "{0: default font edited in place}", "{5} only, every cell on page 5", "{0: a font declaring 9 pixels width}"][self.fonts as usize]),
               "sauce": (["none", "plain", "with comments"][self.sauce as usize]), "layers": self.layers.iter().map(|l| l.json()).collect::<Vec<_>>()})
    }
}

fn save_icy(b: &Buffer) -> Result<Vec<u8>, String> {
    let mut o = SaveOptions::new();
    o.lossles_output = true;
    match catch(|| b.to_bytes("icy", &o)) {
        Ok(Ok(v)) => Ok(v),
        Ok(Err(e)) => Err(format!("save error: {e}")),
        Err(p) => Err(format!("PANIC {}", p.signature())),
    }
}

fn load_icy(bytes: &[u8]) -> Result<Buffer, String> {
    match catch(|| Buffer::from_bytes(&PathBuf::from("x.icy"), false, bytes)) {
        Ok(Ok(v)) => Ok(v),
        Ok(Err(e)) => Err(format!("load error: {e}")),
        Err(p) => Err(format!("PANIC {}", p.signature())),
    }
}

fn compare(a: &Buffer, b: &Buffer) -> Option<(String, Value)> {
    if a.get_size() != b.get_size() {
        return Some(("buffer-size".into(), json!({"saved": [a.get_width(), a.get_height()], "loaded": [b.get_width(), b.get_height()]})));
    }
    if a.buffer_type != b.buffer_type || a.ice_mode != b.ice_mode || a.palette_mode != b.palette_mode || a.font_mode != b.font_mode {
        return Some(("modes".into(), json!({"saved": format!("{:?} {:?} {:?} {:?}", a.buffer_type, a.ice_mode, a.palette_mode, a.font_mode), "loaded": format!("{:?} {:?} {:?} {:?}", b.buffer_type, b.ice_mode, b.palette_mode, b.font_mode)})));
    }
    if a.palette.len() != b.palette.len() || (0..a.palette.len() as u32).any(|i| a.palette.get_rgb(i) != b.palette.get_rgb(i)) {
        return Some(("palette".into(), json!({"saved_len": a.palette.len(), "loaded_len": b.palette.len()})));
    }
    let mut fa: Vec<usize> = a.font_iter().map(|f| *f.0).collect();
    let mut fb: Vec<usize> = b.font_iter().map(|f| *f.0).collect();
    fa.sort_unstable();
    fb.sort_unstable();
    if fa != fb {
        return Some(("font-slots".into(), json!({"saved": fa, "loaded": fb})));
    }
    for s in fa {
        let (x, y) = (a.get_font(s).unwrap(), b.get_font(s).unwrap());
        if x.name != y.name || x.size != y.size || x.length != y.length || font_glyph_bytes(x) != font_glyph_bytes(y) {
            return Some(("font".into(), json!({"slot": s, "saved": [x.name.clone(), format!("{:?}", x.size)], "loaded": [y.name.clone(), format!("{:?}", y.size)]})));
        }
    }
    match (a.get_sauce(), b.get_sauce()) {
        (None, None) => {}
        (Some(x), Some(y)) => {
            let cx: Vec<String> = x.comments.iter().map(|c| c.to_string()).collect();
            let cy: Vec<String> = y.comments.iter().map(|c| c.to_string()).collect();
            // (a record that has no date yet - the default value - is dated on save)
            if x.creation_time != chrono::NaiveDateTime::default() && x.creation_time.format("%Y%m%d").to_string() != y.creation_time.format("%Y%m%d").to_string() {
                return Some(("sauce-date".into(), json!({"saved": x.creation_time.format("%Y%m%d").to_string(), "loaded": y.creation_time.format("%Y%m%d").to_string()})));
            }
            if x.title.to_string() != y.title.to_string() || x.author.to_string() != y.author.to_string() || x.group.to_string() != y.group.to_string() || cx != cy {
                return Some(("sauce".into(), json!({"saved": [x.title.to_string(), x.author.to_string(), x.group.to_string()], "loaded": [y.title.to_string(), y.author.to_string(), y.group.to_string()], "comments": [cx, cy]})));
            }
        }
        (x, y) => return Some(("sauce-presence".into(), json!({"saved": x.is_some(), "loaded": y.is_some()}))),
    }
    if a.layers.len() != b.layers.len() {
        return Some(("layer-count".into(), json!({"saved": a.layers.len(), "loaded": b.layers.len()})));
    }
    for (i, (x, y)) in a.layers.iter().zip(b.layers.iter()).enumerate() {
        let props = |l: &Layer| {
            json!({"title": l.properties.title, "role": format!("{:?}", l.role), "mode": format!("{:?}", l.properties.mode), "color": l.properties.color.as_ref().map(|c| c.get_rgb()),
                   "visible": l.properties.is_visible, "locked": l.properties.is_locked, "pos_locked": l.properties.is_position_locked, "alpha": l.properties.has_alpha_channel,
                   "alpha_locked": l.properties.is_alpha_channel_locked, "transparency": l.transparency, "offset": [l.get_base_offset().x, l.get_base_offset().y],
                   "size": [l.get_width(), l.get_height()], "default_font_page": l.default_font_page})
        };
        let (mut px, mut py) = (props(x), props(y));
        if x.role == icy_engine::Role::Image && x.sixels.is_empty() {
            // role Image without a picture is not a state the format knows: the cells are what has to survive
            px["role"] = json!("-");
            py["role"] = json!("-");
        }
        let pics = |l: &Layer| l.sixels.iter().map(|s| (s.position, s.get_width(), s.get_height(), s.picture_data.clone())).collect::<Vec<_>>();
        if pics(x) != pics(y) {
            return Some(("layer-picture".into(), json!({"layer": i, "saved": x.sixels.len(), "loaded": y.sixels.len()})));
        }
        if px != py {
            let field = px.as_object().unwrap().keys().find(|k| px[*k] != py[*k]).cloned().unwrap_or_default();
            return Some((format!("layer-property:{field}"), json!({"layer": i, "saved": px, "loaded": py})));
        }
        for yy in 0..x.get_height() {
            for xx in 0..x.get_width() {
                let (c, d) = (x.get_char((xx, yy)), y.get_char((xx, yy)));
                if c.is_visible() != d.is_visible() && x.role == icy_engine::Role::Image && !x.sixels.is_empty() {
                    return Some(("image-layer-cell".into(), json!({"layer": i, "x": xx, "y": yy, "saved_visible": c.is_visible()})));
                }
                if c.is_visible() != d.is_visible() {
                    return Some(("cell-visibility".into(), json!({"layer": i, "x": xx, "y": yy, "saved_visible": c.is_visible()})));
                }
                if c.is_visible() && (c.ch != d.ch || c.attribute.get_foreground() != d.attribute.get_foreground() || c.attribute.get_background() != d.attribute.get_background() || (c.attribute.attr & !icy_engine::attribute::SHORT_DATA) != (d.attribute.attr & !icy_engine::attribute::SHORT_DATA) || c.get_font_page() != d.get_font_page()) {
                    let k = if c.ch != d.ch { "char" } else if (c.attribute.attr & !icy_engine::attribute::SHORT_DATA) != (d.attribute.attr & !icy_engine::attribute::SHORT_DATA) { "attribute-flags" } else if c.get_font_page() != d.get_font_page() { "font-page" } else { "colour" };
                    return Some((format!("cell-{k}"), json!({"layer": i, "x": xx, "y": yy, "saved": format!("{c}"), "loaded": format!("{d}")})));
                }
            }
        }
    }
    None
}

fn run_doc(d: &DSpec, what: &str, ctx: &mut Ctx) {
    ctx.count("evaluations", 1);
    ctx.count("transitions", 2);
    ctx.count("nontrivial", 1);
    let src = d.build();
    let bytes = match save_icy(&src) {
        Ok(b) => b,
        Err(e) => {
            let sig = if e.starts_with("PANIC") { format!("{}:save", e.replace("PANIC ", "")) } else { format!("diff:icy:save-refused:{what}") };
            ctx.violation(sig, json!({"doc": d.json(), "error": e}));
            return;
        }
    };
    let got = match load_icy(&bytes) {
        Ok(b) => b,
        Err(e) => {
            let sig = if e.starts_with("PANIC") { format!("{}:load-own-output", e.replace("PANIC ", "")) } else { format!("diff:icy:load-refused-own-output:{what}") };
            ctx.violation(sig, json!({"doc": d.json(), "error": e}));
            return;
        }
    };
    let mut f = Fnv::new();
    f.u64(bytes.len() as u64);
    f.u64(got.layers.len() as u64);
    for c in icy::parse_chunks(&bytes) {
        f.str(&c.0);
        f.bytes(&c.1[..c.1.len().min(256)]);
    }
    ctx.state(f.finish());
    if let Some((field, detail)) = compare(&src, &got) {
        ctx.violation(format!("diff:icy:{field}"), json!({"varied": what, "doc": d.json(), "difference": detail}));
        return;
    }
    // second generation: the loaded document is saved and loaded again (what a user does with a file)
    ctx.count("transitions", 2);
    match save_icy(&got).and_then(|b| load_icy(&b)) {
        Ok(again) => {
            if let Some((field, detail)) = compare(&src, &again) {
                ctx.violation(format!("diff:icy:second-generation:{field}"), json!({"varied": what, "doc": d.json(), "difference": detail}));
            }
        }
        Err(e) => {
            let sig = if e.starts_with("PANIC") { format!("{}:second-generation", e.replace("PANIC ", "")) } else { "diff:icy:second-generation:refused".to_string() };
            ctx.violation(sig, json!({"varied": what, "doc": d.json(), "error": e}));
        }
    }
}

// ------------------------------------------------------------------ dimension menus

struct Dim {
    name: &'static str,
    n: usize,
    apply: fn(&mut DSpec, usize),
}

fn t(d: &mut DSpec) -> &mut LSpec {
    let i = d.layers.len().min(2) - 1;
    &mut d.layers[i]
}

fn dims() -> Vec<Dim> {
    vec![
        Dim { name: "layer count", n: 6, apply: |d, v| {
            let base = d.layers[1].clone();
            d.layers.truncate(1);
            for i in 0..v {
                let mut l = base.clone();
                l.title = format!("extra {i}");
                l.ox = i as i32;
                d.layers.push(l);
            }
        } },
        Dim { name: "layer size", n: 9, apply: |d, v| {
            let (w, h) = [(0, 0), (1, 1), (2, 2), (3, 1), (200, 2), (1, 120), (0, 2), (2, 0), (200, 120)][v];
            t(d).w = w;
            t(d).h = h;
            if w > 3 {
                t(d).rows = vec![(0..w).map(|x| if x % 7 == 3 { CK::Invisible } else if x % 5 == 0 { CK::LongColour } else { CK::Short }).collect()];
            }
        } },
        Dim { name: "layer offset", n: 6, apply: |d, v| {
            let (x, y) = [(-50, -50), (-1, 0), (0, -1), (2, 2), (50, 50), (-50, 50)][v];
            t(d).ox = x;
            t(d).oy = y;
        } },
        Dim { name: "layer flags", n: 32, apply: |d, v| t(d).flags = v as u8 },
        Dim { name: "base layer flags", n: 32, apply: |d, v| d.layers[0].flags = v as u8 },
        Dim { name: "layer mode", n: 3, apply: |d, v| t(d).mode = v as u8 },
        Dim { name: "colour tag", n: 2, apply: |d, v| t(d).color = v == 1 },
        Dim { name: "transparency", n: 3, apply: |d, v| t(d).transparency = [0, 1, 255][v] },
        Dim { name: "default font page", n: 3, apply: |d, v| t(d).font_page = [0, 255, 300][v] },
        Dim { name: "image layer", n: 7, apply: |d, v| {
            let (img, ox, oy) = [(1u8, 0, 0), (1, 1, 1), (1, -1, 0), (1, 3, 2), (1, 0, -1), (2, 0, 0), (3, 0, 0)][v];
            t(d).image = img;
            t(d).ox = ox;
            t(d).oy = oy;
        } },
        Dim { name: "title", n: 5, apply: |d, v| t(d).title = ["".to_string(), "a".to_string(), "\u{fc}\u{20ac}\u{1d11e}".to_string(), "x".repeat(300), "nul\0inside".to_string()][v].clone() },
        Dim { name: "buffer type", n: 5, apply: |d, v| d.buffer_type = v as u8 },
        Dim { name: "ice mode", n: 3, apply: |d, v| d.ice = v as u8 },
        Dim { name: "palette mode", n: 4, apply: |d, v| d.palette_mode = v as u8 },
        Dim { name: "font mode", n: 4, apply: |d, v| d.font_mode = v as u8 },
        Dim { name: "palette", n: 7, apply: |d, v| d.palette = v as u8 },
        Dim { name: "fonts", n: 6, apply: |d, v| d.fonts = v as u8 },
        Dim { name: "sauce", n: 3, apply: |d, v| d.sauce = v as u8 },
        Dim { name: "buffer size", n: 6, apply: |d, v| {
            let (w, h) = [(4, 3), (1, 1), (0, 0), (80, 25), (200, 120), (3, 200)][v];
            d.w = w;
            d.h = h;
        } },
    ]
}

fn valid(d: &DSpec) -> bool {
    // every font page referenced by a cell has a font (the preview image is rendered from them)
    if d.uses_page_300() && d.fonts != 2 {
        return false;
    }
    // (a layer's default font page is the page of the cells it does not hold: no cell references it, it needs no font)
    // the preview renderer resolves colours through the palette; long colour cells need the 300 colour palette
    if d.palette != 3 && d.layers.iter().any(|l| l.rows.iter().any(|r| r.contains(&CK::LongColour))) {
        return false;
    }
    true
}

enum Job {
    Doc(DSpec, String),
    Rows(usize, usize), // layer width extra, batch index
    Chunk(usize),       // C10: index into the chunk fault list
    Attrs,              // all 2^10 combinations of the defined attribute flags on a short and on a long cell
}

struct Icy {
    prop: String,
    jobs: Vec<Job>,
    rows: Vec<Vec<CK>>,
    c10: Vec<(String, Vec<icy::Chunk>)>,
}

fn all_rows() -> Vec<Vec<CK>> {
    let kinds: Vec<CK> = vec![CK::Short, CK::LongChar(0x100), CK::LongColour, CK::LongPage, CK::Invisible, CK::InvisibleFlags, CK::TranspFg, CK::TranspBg];
    let mut out: Vec<Vec<CK>> = vec![vec![]];
    let mut cur: Vec<Vec<CK>> = vec![vec![]];
    for _ in 0..4 {
        let mut next = Vec::new();
        for r in &cur {
            for k in &kinds {
                let mut n = r.clone();
                n.push(*k);
                next.push(n);
            }
        }
        out.extend(next.iter().cloned());
        cur = next;
    }
    out
}

fn c10_chunk_cases() -> Vec<(String, Vec<icy::Chunk>)> {
    let mut v = Vec::new();
    let hdr = ("ICED".to_string(), icy::iced_header(4, 2));
    let end = ("END".to_string(), vec![]);
    // character field values: surrogate boundaries, every 2^k +- 1, beyond U+10FFFF
    let mut vals: Vec<u32> = vec![0xD7FF, 0xD800, 0xD801, 0xDBFF, 0xDC00, 0xDFFE, 0xDFFF, 0xE000, 0x10FFFF, 0x110000, 0x110001, 0xFFFF_FFFF, 0x7FFF_FFFF, 0x8000_0000];
    for k in 8..32 {
        vals.extend([(1u32 << k) - 1, 1u32 << k, (1u32 << k) + 1]);
    }
    for (ch, bt) in vals.iter().flat_map(|v| (0..5u16).map(move |t| (*v, t))) {
        // the header (which comes first) declares the buffer type: every type
        let hdr = ("ICED".to_string(), icy::iced_header_typed(4, 2, bt));
        // first chunk
        let mut cells = icy::long_cell(0, ch, 7, 0, 0);
        cells.extend(icy::short_cell(0, b'z', 7, 0, 0));
        let l = icy::LayerRec { w: 2, h: 2, data: cells.clone(), ..Default::default() };
        v.push((format!("long cell char 0x{ch:X} in first chunk, buffer type {bt}"), vec![hdr.clone(), ("LAYER_0".into(), l.bytes()), end.clone()]));
        // continuation chunk
        let first = icy::LayerRec { w: 2, h: 2, data: { let mut d = icy::short_cell(0, b'a', 7, 0, 0); d.extend(icy::short_cell(0, b'b', 7, 0, 0)); d }, ..Default::default() };
        v.push((format!("long cell char 0x{ch:X} in continuation chunk, buffer type {bt}"), vec![hdr.clone(), ("LAYER_0".into(), first.bytes()), ("LAYER_0~1".into(), cells), end.clone()]));
    }
    // strings: every 1 and 2 byte string as layer title and as font name
    for a in 0..=255u16 {
        let mut titles: Vec<Vec<u8>> = vec![vec![a as u8]];
        for b in [0x00u8, 0x41, 0x80, 0xBF, 0xC0, 0xC3, 0xE2, 0xF0, 0xFF] {
            titles.push(vec![a as u8, b]);
        }
        if (0xC0..=0xFF).contains(&a) || a < 2 {
            for b in 0..=255u8 {
                titles.push(vec![a as u8, b]);
            }
        }
        let mut chunks: Vec<icy::Chunk> = vec![hdr.clone()];
        for (i, t) in titles.iter().enumerate() {
            let l = icy::LayerRec { title: t.clone(), w: 1, h: 1, data: icy::short_cell(0, b'q', 7, 0, 0), ..Default::default() };
            chunks.push((format!("LAYER_{i}"), l.bytes()));
            let mut f: Vec<u8> = (t.len() as u32).to_le_bytes().to_vec();
            f.extend(t);
            f.extend(BitFont::default().to_psf2_bytes().unwrap());
            chunks.push((format!("FONT_{}", 400 + i), f));
        }
        chunks.push(end.clone());
        v.push((format!("titles and font names starting with byte 0x{a:02X} ({} strings)", titles.len()), chunks));
    }
    v
}

fn check_valid_unicode(b: &Buffer, what: &str, ctx: &mut Ctx) {
    let ok = |c: u32| c <= 0xD7FF || (0xE000..=0x10FFFF).contains(&c);
    for (li, l) in b.layers.iter().enumerate() {
        if std::str::from_utf8(l.properties.title.as_bytes()).is_err() {
            ctx.violation("inv:utf8:icy:layer-title", json!({"case": what, "layer": li, "bytes": l.properties.title.as_bytes().iter().take(8).collect::<Vec<_>>()}));
            return;
        }
        for line in &l.lines {
            for c in &line.chars {
                if !ok(c.ch as u32) {
                    ctx.violation(format!("inv:scalar:icy:{}", if c.ch as u32 > 0x10FFFF { "above-10FFFF" } else { "surrogate" }), json!({"case": what, "layer": li, "value": c.ch as u32}));
                    return;
                }
            }
        }
    }
    for (slot, f) in b.font_iter() {
        if std::str::from_utf8(f.name.as_bytes()).is_err() {
            ctx.violation("inv:utf8:icy:font-name", json!({"case": what, "slot": slot}));
            return;
        }
    }
}

fn build(prop: &str, tier: &str) -> Icy {
    let thorough = tier == "thorough";
    let mut jobs = Vec::new();
    let rows = all_rows();
    let c10 = if prop == "C10" { c10_chunk_cases() } else { vec![] };
    if prop == "C10" {
        for i in 0..c10.len() {
            jobs.push(Job::Chunk(i));
        }
        return Icy { prop: prop.into(), jobs, rows, c10 };
    }
    let ds = dims();
    jobs.push(Job::Doc(DSpec::base(), "base document".into()));
    for (i, a) in ds.iter().enumerate() {
        for va in 0..a.n {
            let mut d = DSpec::base();
            (a.apply)(&mut d, va);
            if valid(&d) {
                jobs.push(Job::Doc(d, a.name.to_string()));
            }
            for (j, b) in ds.iter().enumerate().skip(i + 1) {
                for vb in 0..b.n {
                    let mut d = DSpec::base();
                    (a.apply)(&mut d, va);
                    (b.apply)(&mut d, vb);
                    if valid(&d) && !(d.w * d.h > 5000 && d.layers.iter().any(|l| l.w * l.h > 5000)) {
                        jobs.push(Job::Doc(d, format!("{} x {}", a.name, b.name)));
                    }
                    // triples: all of them in the thorough tier, those with <= 100 combinations in the quick tier
                    for c in ds.iter().skip(j + 1) {
                        if !thorough && a.n * b.n * c.n > 100 {
                            continue;
                        }
                        for vc in 0..c.n {
                            let mut d = DSpec::base();
                            (a.apply)(&mut d, va);
                            (b.apply)(&mut d, vb);
                            (c.apply)(&mut d, vc);
                            if valid(&d) && d.w * d.h <= 5000 && d.layers.iter().all(|l| l.w * l.h <= 5000) {
                                jobs.push(Job::Doc(d, format!("{} x {} x {}", a.name, b.name, c.name)));
                            }
                        }
                    }
                }
            }
        }
    }
    // cell rows: every row of width <= 4 over 7 cell kinds, in layers of width len, len+1, len+3
    for extra in [0usize, 1, 3] {
        for b in 0..(rows.len() + 63) / 64 {
            jobs.push(Job::Rows(extra, b));
        }
    }
    jobs.push(Job::Attrs);
    Icy { prop: prop.into(), jobs, rows, c10 }
}

impl Engine for Icy {
    fn total(&self) -> u64 {
        self.jobs.len() as u64
    }
    fn run(&mut self, idx: u64, ctx: &mut Ctx) {
        match &self.jobs[idx as usize] {
            Job::Doc(d, what) => run_doc(d, what, ctx),
            Job::Rows(extra, b) => {
                // 64 rows become 64 single-row layers of one document (layer width = row length + extra)
                let rows: Vec<Vec<CK>> = self.rows.iter().skip(b * 64).take(64).cloned().collect();
                let mut d = DSpec::base();
                d.layers.truncate(1);
                for (i, r) in rows.iter().enumerate() {
                    let mut l = LSpec::base();
                    l.title = format!("row {i}");
                    l.w = (r.len() + extra) as i32;
                    l.h = 2;
                    l.flags = 1 | 8;
                    l.rows = vec![r.clone(), r.iter().rev().cloned().collect()];
                    d.layers.push(l);
                }
                ctx.count("rows", rows.len() as u64);
                run_doc(&d, "cell rows", ctx);
            }
            Job::Attrs => {
                let mut d = DSpec::base();
                d.layers.truncate(1);
                let mut l = LSpec::base();
                l.w = 64;
                l.h = 32;
                l.rows = (0..32u16).map(|y| (0..64u16).map(|x| CK::Attr((y * 64 + x) & 0x3FF, (y * 64 + x) >= 1024)).collect()).collect();
                d.layers.push(l);
                run_doc(&d, "attribute flags", ctx);
                // bit 14 of the attribute word is the format's own record marker ("for loading & saving only"): a cell that carries it
                // (long and short form) must not take the cells behind it along
                let mut d = DSpec::base();
                d.layers.truncate(1);
                let mut l = LSpec::base();
                l.w = 8;
                l.h = 2;
                l.rows = vec![vec![CK::Attr(0x4001, true), CK::Short, CK::LongChar(0x2588), CK::Attr(0x4000, false), CK::Short], vec![CK::Attr(0x4010, false), CK::Attr(0x4010, true), CK::LongColour]];
                d.layers.push(l);
                run_doc(&d, "attribute word with the record marker bit", ctx);
            }
            Job::Chunk(i) => {
                let (what, chunks) = &self.c10[*i];
                let png = icy::build_png(chunks);
                ctx.count("evaluations", 1);
                ctx.count("transitions", chunks.len() as u64);
                ctx.count("nontrivial", 1);
                match load_icy(&png) {
                    Ok(b) => {
                        ctx.outcome(1);
                        check_valid_unicode(&b, what, ctx);
                        let mut f = Fnv::new();
                        f.u64(b.layers.len() as u64);
                        f.str(what);
                        ctx.state(f.finish());
                    }
                    Err(e) => {
                        ctx.outcome(2);
                        if e.starts_with("PANIC") {
                            ctx.violation(e.replace("PANIC ", ""), json!({"case": what}));
                        }
                        let mut f = Fnv::new();
                        f.str(what);
                        ctx.state(f.finish());
                    }
                }
            }
        }
    }
    fn describe(&self, idx: u64) -> Value {
        match &self.jobs[idx as usize] {
            Job::Doc(d, what) => json!({"engine": "icy-roundtrip", "idx": idx, "varied": what, "doc": d.json(), "key": "icy-roundtrip"}),
            Job::Rows(extra, b) => json!({"engine": "icy-rows", "idx": idx, "layer_width": format!("row length + {extra}"), "rows": [b * 64, (b * 64 + 64).min(self.rows.len())], "key": "icy-rows"}),
            Job::Attrs => json!({"engine": "icy-attrs", "idx": idx, "key": "icy-attrs"}),
            Job::Chunk(i) => json!({"engine": "icy-chunks", "idx": idx, "case": self.c10[*i].0, "key": "icy-chunks"}),
        }
    }
    fn replay(&mut self, case: &Value, ctx: &mut Ctx) {
        self.run(case["idx"].as_u64().unwrap_or(0), ctx)
    }
    fn meta(&self) -> Value {
        let ds = dims();
        json!({"property": self.prop, "dimensions": ds.iter().map(|d| json!([d.name, d.n])).collect::<Vec<_>>(), "cell_rows": self.rows.len(), "cell_kinds": KINDS.iter().map(|k| format!("{k:?}")).collect::<Vec<_>>(),
               "jobs": self.jobs.len()})
    }
}

fn main() {
    worker_main(|prop, tier| Box::new(build(prop, tier)));
}
