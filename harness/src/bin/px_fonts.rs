//! C17: bitmap fonts survive PSF2, raw glyph data, the DCS font loading sequence and embedding in XBin, ADF, IDF
//! and IcyDraw files; TheDraw fonts and bundles survive TDF bytes.

use icy_engine::editor::EditState;
use icy_engine::{BitFont, Buffer, FontGlyph, FontType, IceMode, SaveOptions, TextPane, TheDrawFont, SAUCE_FONT_NAMES};
use std::path::PathBuf;
use vharness::doc::*;
use vharness::emu::{Emu, Term};
use vharness::{catch, json, worker_main, Ctx, Engine, Fnv, Value};

// ---------------------------------------------------------------- bitmap fonts

#[derive(Clone, Debug)]
enum FontSrc {
    Synth(u8, u8),   // height, seed
    Const(u8, u8),   // height, byte
    Rows(u8),        // height: glyph g row r = g (every byte value in every row position), rows differ by rotation
    BuiltIn(usize),  // ANSI font page
    EditedDefault,   // the glyphs of the default font under another name, one glyph edited in place (the cached checksum is stale)
    EditedDefaultSameName, // the same edit, the font keeps the name (and the cached checksum) of the default font
    Sauce(usize),    // SAUCE font index
    /// height, kind: glyph 0 starts with the PSF1 (kind 0) / PSF2 (kind 1) magic number, kind 2: PSF1 magic followed by a mode / charsize
    /// pair that is consistent with the length of the data
    Magic(u8, u8),
}

fn make_font(s: &FontSrc) -> Option<BitFont> {
    match s {
        FontSrc::Synth(h, seed) => Some(synth_font(&format!("synth {h} {seed}"), *h, *seed)),
        FontSrc::Const(h, b) => Some(BitFont::create_8(format!("const {h} {b}"), 8, *h, &vec![*b; 256 * *h as usize])),
        FontSrc::Rows(h) => {
            let mut d = Vec::new();
            for g in 0..256u32 {
                for r in 0..*h as u32 {
                    d.push((g as u8).rotate_left(r % 8) ^ (r as u8).wrapping_mul(29));
                }
            }
            Some(BitFont::create_8(format!("rows {h}"), 8, *h, &d))
        }
        FontSrc::BuiltIn(p) => BitFont::from_ansi_font_page(*p).ok(),
        FontSrc::EditedDefault => {
            let mut f = BitFont::default();
            f.name = "my font".into();
            if let Some(g) = f.get_glyph_mut('A') {
                g.data[2] = 0xFF;
                g.data[9] ^= 0x3C;
            }
            Some(f)
        }
        FontSrc::EditedDefaultSameName => {
            let mut f = BitFont::default();
            if let Some(g) = f.get_glyph_mut('A') {
                g.data[2] = 0xFF;
                g.data[9] ^= 0x3C;
            }
            Some(f)
        }
        FontSrc::Sauce(i) => BitFont::from_sauce_name(SAUCE_FONT_NAMES[*i]).ok(),
        FontSrc::Magic(h, kind) => {
            let mut d = font_glyph_bytes(&synth_font("x", *h, 77));
            let magic: &[u8] = match kind {
                0 => &[0x36, 0x04],
                1 => &[0x72, 0xb5, 0x4a, 0x86],
                _ => &[0x36, 0x04, 0x00, *h],
            };
            if magic.len() > d.len() {
                return None;
            }
            d[..magic.len()].copy_from_slice(magic);
            Some(BitFont::create_8(format!("magic {h} {kind}"), 8, *h, &d))
        }
    }
}

fn same_font(a: &BitFont, b: &BitFont) -> Option<Value> {
    if a.size != b.size {
        return Some(json!({"kind": "size", "original": format!("{:?}", a.size), "read_back": format!("{:?}", b.size)}));
    }
    if a.length != b.length {
        return Some(json!({"kind": "glyph-count", "original": a.length, "read_back": b.length}));
    }
    let (x, y) = (font_glyph_bytes(a), font_glyph_bytes(b));
    if x != y {
        let p = x.iter().zip(y.iter()).position(|(p, q)| p != q).unwrap_or(x.len().min(y.len()));
        let h = a.size.height.max(1) as usize;
        return Some(json!({"kind": "glyph-bits", "glyph": p / h, "row": p % h, "original": x.get(p), "read_back": y.get(p), "lengths": [x.len(), y.len()]}));
    }
    None
}

fn small_doc(f0: &BitFont, f1: Option<&BitFont>) -> Buffer {
    let mut b = new_buffer(80, 2, IceMode::Ice); // ADF files are 80 columns wide
    b.set_font(0, f0.clone());
    put(&mut b, 0, 0, &Cell::new(65, 7, 0));
    put(&mut b, 1, 0, &Cell::new(200, 14, 1));
    if let Some(f) = f1 {
        b.set_font(1, f.clone());
        put(&mut b, 2, 0, &Cell::new(66, 7, 0).page(1));
        put(&mut b, 3, 1, &Cell::new(1, 2, 3).page(1));
    }
    b
}

fn save(b: &Buffer, ext: &str, compress: bool) -> Result<Vec<u8>, String> {
    let mut o = SaveOptions::new();
    o.compress = compress;
    o.lossles_output = true;
    match catch(|| b.to_bytes(ext, &o)) {
        Ok(Ok(v)) => Ok(v),
        Ok(Err(e)) => Err(format!("refused: {e}")),
        Err(p) => Err(format!("PANIC {}", p.signature())),
    }
}

fn load(ext: &str, bytes: &[u8]) -> Result<Buffer, String> {
    match catch(|| Buffer::from_bytes(&PathBuf::from(format!("x.{ext}")), false, bytes)) {
        Ok(Ok(v)) => Ok(v),
        Ok(Err(e)) => Err(format!("load error: {e}")),
        Err(p) => Err(format!("PANIC {}", p.signature())),
    }
}

fn is_psf_magic(d: &[u8]) -> bool {
    d.len() >= 4 && ((d[0] == 0x36 && d[1] == 0x04) || d[..4] == [0x72, 0xb5, 0x4a, 0x86])
}

struct Report<'a> {
    ctx: &'a mut Ctx,
    src: String,
    reported: bool,
}

impl<'a> Report<'a> {
    fn step(&mut self) {
        self.ctx.count("evaluations", 1);
        self.ctx.count("transitions", 2);
    }
    fn diff(&mut self, encoding: &str, d: Value) {
        if !self.reported {
            self.reported = true;
            self.ctx.violation(format!("diff:font:{encoding}:{}", d["kind"].as_str().unwrap_or("")), json!({"font": self.src, "encoding": encoding, "difference": d}));
        }
    }
    fn fail(&mut self, encoding: &str, what: &str, e: &str) {
        if self.reported {
            return;
        }
        self.reported = true;
        if e.starts_with("PANIC") {
            self.ctx.violation(format!("{}:{encoding}", e.replace("PANIC ", "")), json!({"font": self.src, "encoding": encoding, "step": what}));
        } else {
            self.ctx.violation(format!("diff:font:{encoding}:{what}"), json!({"font": self.src, "encoding": encoding, "error": e}));
        }
    }
    fn cmp(&mut self, encoding: &str, a: &BitFont, b: Option<&BitFont>) {
        self.step();
        match b {
            None => self.diff(encoding, json!({"kind": "font-missing"})),
            Some(b) => {
                if let Some(d) = same_font(a, b) {
                    self.diff(encoding, d);
                }
            }
        }
    }
}

fn check_bitfont(src: &FontSrc, ctx: &mut Ctx) {
    let Some(f) = make_font(src) else {
        ctx.outcome(9);
        return;
    };
    ctx.count("nontrivial", 1);
    let h = f.size.height;
    let mut fp = Fnv::new();
    fp.bytes(&font_glyph_bytes(&f));
    fp.i32(f.length);
    ctx.state(fp.finish());
    let mut r = Report { ctx, src: format!("{src:?} ({}x{}, {} glyphs, '{}')", f.size.width, h, f.length, f.name), reported: false };

    // PSF2
    match catch(|| f.to_psf2_bytes()) {
        Ok(Ok(bytes)) => match catch(|| BitFont::from_bytes("psf2", &bytes)) {
            Ok(Ok(g)) => {
                r.cmp("psf2", &f, Some(&g));
                // stable: writing the read font gives the same bytes
                if let Ok(Ok(again)) = catch(|| g.to_psf2_bytes()) {
                    r.step();
                    if again != bytes {
                        r.diff("psf2", json!({"kind": "rewrite-differs"}));
                    }
                }
            }
            Ok(Err(e)) => r.fail("psf2", "own-output-refused", &e.to_string()),
            Err(p) => r.fail("psf2", "load", &format!("PANIC {}", p.signature())),
        },
        Ok(Err(e)) => r.fail("psf2", "write-refused", &e.to_string()),
        Err(p) => r.fail("psf2", "write", &format!("PANIC {}", p.signature())),
    }
    if f.length != 256 || f.size.width != 8 {
        return;
    }
    // raw 8 bit glyph data
    let raw = f.convert_to_u8_data();
    r.step();
    if raw.len() != 256 * h as usize {
        r.diff("raw", json!({"kind": "raw-length", "len": raw.len(), "expected": 256 * h}));
    }
    r.cmp("raw/create_8", &f, Some(&BitFont::create_8("x", 8, h as u8, &raw)));
    r.cmp("raw/from_basic", &f, Some(&BitFont::from_basic(8, h as u8, &raw)));
    // (from_bytes guesses the container from the first bytes: raw data that starts like a PSF file is ambiguous for it by design)
    if !is_psf_magic(&raw) {
        match catch(|| BitFont::from_bytes("raw", &raw)) {
            Ok(Ok(g)) => r.cmp("raw/from_bytes", &f, Some(&g)),
            Ok(Err(e)) => r.fail("raw/from_bytes", "own-output-refused", &e.to_string()),
            Err(p) => r.fail("raw/from_bytes", "load", &format!("PANIC {}", p.signature())),
        }
    }
    {
        // DCS font loading sequence into slots 0, 1, 42 and 255: the payload is raw glyph data by definition, whatever it starts with
        for slot in [0usize, 1, 42, 255] {
            let seq = f.encode_as_ansi(slot);
            let mut t = Term::new(Emu::Ansi(0), 80, 25);
            t.buf.is_terminal_buffer = true;
            if !t.feed_quiet(seq.as_bytes()) {
                r.fail("dcs", "parser-panic", "PANIC in the ANSI parser while loading the font");
                break;
            }
            let got = t.buf.get_font(slot).cloned();
            r.cmp(&format!("dcs"), &f, got.as_ref());
            r.step();
            // nothing of the sequence may be printed
            if (0..80).any(|x| t.buf.get_char((x, 0)).ch != ' ' && t.buf.get_char((x, 0)).ch != '\0') {
                r.diff("dcs", json!({"kind": "sequence-printed", "slot": slot}));
            }
        }
    }
    let other = make_font(&FontSrc::Synth(h as u8, 11)).unwrap();
    // a slot is redefined within one session: F, then another font of the same height, then F again, then a font of another height
    {
        let third = make_font(&FontSrc::Synth(if h == 16 { 14 } else { 16 }, 5)).unwrap();
        for slot in [0usize, 7, 9, 11] {
            let mut t = Term::new(Emu::Ansi(0), 80, 25);
            let mut ok = true;
            // other string-type sequences and text directly before the font: a macro definition and a sixel image (DCS), an OSC (palette,
            // hyperlink), an APS string - each kind once as the last thing the parser saw
            match slot {
                7 => ok &= t.feed_quiet(b"text\x1bP1;0;0!zmacro\x1b\\\x1bPq#1~~\x1b\\\x1b]4;1;rgb:12/34/56\x1b\\\x1b_an application string\x1b\\"),
                9 => ok &= t.feed_quiet(b"\x1b_an application string\x1b\\\x1b]8;;http://x\x1b\\link\x1b]8;;\x1b\\"),
                11 => ok &= t.feed_quiet(b"\x1b]4;1;rgb:12/34/56\x1b\\\x1bPq#1~~\x1b\\"),
                _ => {}
            }
            for (name, f2) in [("dcs/first upload", &f), ("dcs/second upload to the same slot", &other), ("dcs/third upload to the same slot", &f), ("dcs/upload of another height to the same slot", &third)] {
                ok &= t.feed_quiet(f2.encode_as_ansi(slot).as_bytes());
                let got = t.buf.get_font(slot).cloned();
                r.cmp(name, f2, got.as_ref());
            }
            if !ok {
                r.fail("dcs", "parser-panic", "PANIC in the ANSI parser while loading fonts into one slot");
            }
        }
    }
    check_used_page(&f, &mut r);
    // embedded in files
    for (ext, two) in [("xb", false), ("xb", true), ("adf", false), ("idf", false), ("icy", false), ("icy", true)] {
        for compress in [false, true] {
            if compress && ext != "xb" {
                continue;
            }
            let doc = small_doc(&f, if two { Some(&other) } else { None });
            let name = format!("{ext}{}{}", if two { "/2 fonts" } else { "" }, if compress { "/compressed" } else { "" });
            match save(&doc, ext, compress) {
                Err(e) if e.starts_with("PANIC") => r.fail(&name, "save", &e),
                Err(_) => {
                    // the format can't hold the font (ADF / IDF: 8x16 only): refusing is fine, silently changing it is not
                    r.ctx.count("refused", 1);
                    r.step();
                    if h == 16 || ext == "xb" || ext == "icy" {
                        r.diff(&name, json!({"kind": "refused-a-font-the-format-can-hold"}));
                    }
                }
                Ok(bytes) => match load(ext, &bytes) {
                    Err(e) => r.fail(&name, "own-output-refused", &e),
                    Ok(b) => {
                        r.cmp(&name, &f, b.get_font(0));
                        if two {
                            r.cmp(&name, &other, b.get_font(1));
                        }
                    }
                },
            }
        }
    }
}

/// ADF / IDF embed one font: the one the cells use. A document whose cells all sit on font page 1 (slot 0 holds the default font)
/// is either refused or comes back with the font of page 1
fn check_used_page(f: &BitFont, r: &mut Report) {
    for ext in ["adf", "idf", "xb"] {
        let mut doc = new_buffer(80, 2, IceMode::Ice);
        doc.set_font(1, f.clone());
        for y in 0..2 {
            for x in 0..80 {
                put(&mut doc, x, y, &Cell::new((65 + x % 26) as u32, 7, 1).page(1));
            }
        }
        let name = format!("{ext}/only font page 1 used");
        match save(&doc, ext, false) {
            Err(e) if e.starts_with("PANIC") => r.fail(&name, "save", &e),
            Err(_) => {
                r.ctx.count("refused", 1);
            }
            Ok(bytes) => match load(ext, &bytes) {
                Err(e) => r.fail(&name, "own-output-refused", &e),
                Ok(b) => {
                    let page = b.get_char((0, 0)).get_font_page();
                    r.cmp(&name, f, b.get_font(page));
                }
            },
        }
    }
}

/// 512 glyph PSF2 fonts (PSF only)
fn check_psf512(h: u8, seed: u8, ctx: &mut Ctx) {
    ctx.count("nontrivial", 1);
    let mut bytes: Vec<u8> = Vec::new();
    bytes.extend(0x864a_b572u32.to_le_bytes());
    bytes.extend(0u32.to_le_bytes());
    bytes.extend(32u32.to_le_bytes());
    bytes.extend(0u32.to_le_bytes());
    bytes.extend(512u32.to_le_bytes());
    bytes.extend((h as u32).to_le_bytes());
    bytes.extend((h as u32).to_le_bytes());
    bytes.extend(8u32.to_le_bytes());
    for g in 0..512u32 {
        for r in 0..h as u32 {
            bytes.push(((g * (seed as u32 | 1)) ^ (r * 37) ^ (g >> 8) * 0x55) as u8);
        }
    }
    let mut f = Fnv::new();
    f.bytes(&bytes);
    ctx.state(f.finish());
    let mut r = Report { ctx, src: format!("PSF2 with 512 glyphs, height {h}, seed {seed}"), reported: false };
    match catch(|| BitFont::from_bytes("p", &bytes)) {
        Ok(Ok(font)) => {
            r.step();
            if font.length != 512 || font.size.height != h as i32 || font_glyph_bytes(&font) != bytes[32..] {
                r.diff("psf2-512", json!({"kind": "glyph-bits", "length": font.length}));
            }
            match catch(|| font.to_psf2_bytes()) {
                Ok(Ok(again)) => {
                    r.step();
                    if again != bytes {
                        r.diff("psf2-512", json!({"kind": "rewrite-differs"}));
                    }
                    if let Ok(Ok(g)) = catch(|| BitFont::from_bytes("p", &again)) {
                        r.cmp("psf2-512", &font, Some(&g));
                    }
                }
                Ok(Err(e)) => r.fail("psf2-512", "write-refused", &e.to_string()),
                Err(p) => r.fail("psf2-512", "write", &format!("PANIC {}", p.signature())),
            }
        }
        Ok(Err(e)) => r.fail("psf2-512", "load-refused", &e.to_string()),
        Err(p) => r.fail("psf2-512", "load", &format!("PANIC {}", p.signature())),
    }
}

// ---------------------------------------------------------------- TheDraw fonts

#[derive(Clone, Debug)]
struct GlyphSpec {
    ch: u8, // '!'..='~'
    w: usize,
    h: usize,
    style: u8, // 0 dense rows, 1 short rows, 2 empty rows in between, 3 single row
}

#[derive(Clone, Debug)]
struct TdfSpec {
    name: String,
    ty: u8,
    spaces: i32,
    glyphs: Vec<GlyphSpec>,
}

fn glyph_data(ty: u8, g: &GlyphSpec) -> Vec<u8> {
    let mut d = Vec::new();
    let rows = if g.style == 3 { 1 } else { g.h };
    for y in 0..rows {
        if y > 0 {
            d.push(13);
        }
        let len = match g.style {
            1 => (g.w * (y + 1) / rows.max(1)).max(1).min(g.w),
            2 if y % 2 == 1 => 0,
            _ => g.w,
        };
        for x in 0..len {
            match ty {
                0 => d.push(b"ABCDEFGHIJKLMNOPQ@O &"[(x + y + g.ch as usize) % 21]),
                1 => d.push([219u8, 220, 223, 32, 176, 0xF7, 254, 1, 255][(x + 2 * y + g.ch as usize) % 9]),
                _ => {
                    d.push([219u8, 220, 32, 65, 255, 1][(x + y + g.ch as usize) % 6]);
                    // attribute bytes of every kind incl. 0 (black on black) and 13
                    d.push([0x1Fu8, 0x00, 0x0D, 0xFF, 0x70, 0x08][(x * 5 + y + g.ch as usize) % 6]);
                }
            }
        }
    }
    d
}

fn build_tdf(s: &TdfSpec) -> TheDrawFont {
    let mut f = TheDrawFont::new(s.name.clone(), [FontType::Outline, FontType::Block, FontType::Color][s.ty as usize], s.spaces);
    for g in &s.glyphs {
        f.set_glyph(g.ch as char, FontGlyph { size: (g.w, g.h).into(), data: glyph_data(s.ty, g) });
    }
    f
}

fn render_all(f: &TheDrawFont) -> Vec<(u8, Option<(i32, i32)>, u64)> {
    let mut out = Vec::new();
    for ch in b'!'..=b'~' {
        if !f.has_char(ch) {
            out.push((ch, None, 0));
            continue;
        }
        let mut b = Buffer::new((40, 16));
        b.is_terminal_buffer = false;
        let mut e = EditState::from_buffer(b);
        e.get_caret_mut().set_position((2, 1).into());
        let sz = match catch(|| f.render(&mut e, ch)) {
            Ok(s) => s.map(|s| (s.width, s.height)),
            Err(_) => Some((-1, -1)), // a panic while rendering shows as a size no glyph has
        };
        let mut h = Fnv::new();
        let b = e.get_buffer();
        for y in 0..16 {
            for x in 0..40 {
                let c = b.get_char((x, y));
                h.u32(c.ch as u32);
                h.u32(c.attribute.get_foreground());
                h.u32(c.attribute.get_background());
                h.u8(c.is_visible() as u8);
            }
        }
        out.push((ch, sz, h.finish()));
    }
    out
}

fn type_name(t: &FontType) -> &'static str {
    match t {
        FontType::Outline => "outline",
        FontType::Block => "block",
        FontType::Color => "colour",
    }
}

fn check_tdf(specs: &[TdfSpec], what: &str, ctx: &mut Ctx) {
    ctx.count("evaluations", 1);
    ctx.count("transitions", 2);
    ctx.count("nontrivial", 1);
    let fonts: Vec<TheDrawFont> = specs.iter().map(build_tdf).collect();
    let describe = || json!({"case": what, "fonts": specs.len(), "first": {"name": specs[0].name, "type": specs[0].ty, "spaces": specs[0].spaces, "glyphs": specs[0].glyphs.len(), "first_glyph": specs[0].glyphs.first().map(|g| format!("{g:?}"))}});
    let bundle = specs.len() > 1;
    let bytes = match catch(|| if bundle { TheDrawFont::create_font_bundle(&fonts) } else { fonts[0].as_tdf_bytes() }) {
        Ok(Ok(b)) => b,
        Ok(Err(_)) => {
            // refusing a font that TDF can't hold (more than 64 KiB of glyph data) is fine
            ctx.count("refused", 1);
            ctx.outcome(2);
            let total: usize = specs.iter().map(|s| s.glyphs.iter().map(|g| glyph_data(s.ty, g).len() + 3).sum::<usize>()).max().unwrap_or(0);
            if total < 0xFFFF && specs.iter().all(|s| s.name.len() <= 12 && s.spaces <= 40) {
                ctx.violation("diff:tdf:refused-a-font-the-format-can-hold", describe());
            }
            return;
        }
        Err(p) => {
            ctx.violation(format!("{}:tdf-write", p.signature()), describe());
            return;
        }
    };
    let mut f = Fnv::new();
    f.bytes(&bytes[..bytes.len().min(4096)]);
    f.u64(bytes.len() as u64);
    ctx.state(f.finish());
    let back = match catch(|| TheDrawFont::from_tdf_bytes(&bytes)) {
        Ok(Ok(b)) => b,
        Ok(Err(e)) => {
            ctx.violation("diff:tdf:own-output-refused", json!({"case": describe(), "error": e.to_string(), "bytes": bytes.len()}));
            return;
        }
        Err(p) => {
            ctx.violation(format!("{}:tdf-read", p.signature()), describe());
            return;
        }
    };
    ctx.outcome(1);
    if back.len() != fonts.len() {
        ctx.violation("diff:tdf:font-count", json!({"case": describe(), "written": fonts.len(), "read_back": back.len()}));
        return;
    }
    for (i, (a, b)) in fonts.iter().zip(back.iter()).enumerate() {
        if a.name != b.name {
            ctx.violation("diff:tdf:name", json!({"case": describe(), "font": i, "written": a.name, "read_back": b.name}));
            return;
        }
        if type_name(&a.font_type) != type_name(&b.font_type) {
            ctx.violation("diff:tdf:type", json!({"case": describe(), "font": i, "written": type_name(&a.font_type), "read_back": type_name(&b.font_type)}));
            return;
        }
        if a.spaces != b.spaces {
            ctx.violation("diff:tdf:spacing", json!({"case": describe(), "font": i, "written": a.spaces, "read_back": b.spaces}));
            return;
        }
        let (ra, rb) = (render_all(a), render_all(b));
        if let Some(p) = ra.iter().zip(rb.iter()).position(|(x, y)| x != y) {
            let kind = if ra[p].1.is_some() != rb[p].1.is_some() { "glyph-defined" } else if ra[p].1 != rb[p].1 { "glyph-size" } else { "glyph-data" };
            ctx.violation(format!("diff:tdf:{kind}:{}", type_name(&a.font_type)), json!({"case": describe(), "font": i, "char": ra[p].0 as char, "written_size": ra[p].1, "read_back_size": rb[p].1}));
            return;
        }
        if a.get_font_height() != b.get_font_height() {
            ctx.violation("diff:tdf:font-height", json!({"case": describe(), "font": i}));
            return;
        }
    }
    // the read fonts serialise to the same bytes
    if let Ok(Ok(again)) = catch(|| if bundle { TheDrawFont::create_font_bundle(&back) } else { back[0].as_tdf_bytes() }) {
        if again != bytes {
            let p = again.iter().zip(bytes.iter()).position(|(x, y)| x != y).unwrap_or(again.len().min(bytes.len()));
            ctx.violation("diff:tdf:rewrite-differs", json!({"case": describe(), "first_difference_at": p, "lengths": [bytes.len(), again.len()]}));
        }
    }
}

// ---------------------------------------------------------------- jobs

enum Job {
    Bit(FontSrc),
    Psf512(u8, u8),
    Tdf(Vec<TdfSpec>, String),
}

struct Fonts {
    jobs: Vec<Job>,
}

fn name_of(len: usize) -> String {
    "TheDrawFont!".chars().take(len).collect()
}

fn build(_prop: &str, tier: &str) -> Fonts {
    let thorough = tier == "thorough";
    let mut jobs = Vec::new();
    let seeds: Vec<u8> = if thorough { vec![1, 3, 7, 9, 13, 37, 101, 255, 2, 64, 128, 200] } else { vec![1, 3, 7, 13, 37, 255] };
    for h in 1..=32u8 {
        for s in &seeds {
            jobs.push(Job::Bit(FontSrc::Synth(h, *s)));
        }
        jobs.push(Job::Bit(FontSrc::Rows(h)));
        for b in [0x00u8, 0xFF, 0x1B, 0x36] {
            jobs.push(Job::Bit(FontSrc::Const(h, b)));
        }
        jobs.push(Job::Psf512(h, 3));
        if thorough {
            jobs.push(Job::Psf512(h, 9));
        }
    }
    for p in 0..=42usize {
        jobs.push(Job::Bit(FontSrc::BuiltIn(p)));
    }
    jobs.push(Job::Bit(FontSrc::EditedDefault));
    jobs.push(Job::Bit(FontSrc::EditedDefaultSameName));
    for h in 1..=32u8 {
        for kind in 0..3u8 {
            jobs.push(Job::Bit(FontSrc::Magic(h, kind)));
        }
    }
    for i in 0..SAUCE_FONT_NAMES.len() {
        jobs.push(Job::Bit(FontSrc::Sauce(i)));
    }
    // TheDraw: every glyph size x type x row style
    for ty in 0..3u8 {
        for w in 1..=30usize {
            for h in 1..=12usize {
                for style in 0..4u8 {
                    let glyphs = vec![GlyphSpec { ch: b'!', w, h, style }, GlyphSpec { ch: b'A', w, h, style: 0 }, GlyphSpec { ch: b'~', w, h, style }];
                    jobs.push(Job::Tdf(vec![TdfSpec { name: "size".into(), ty, spaces: 1, glyphs }], format!("glyph size {w}x{h} style {style}")));
                }
            }
        }
        // every number of defined glyphs, three placements
        for k in 0..=94usize {
            for placement in 0..3 {
                let chars: Vec<u8> = match placement {
                    0 => (0..k).map(|i| b'!' + i as u8).collect(),
                    1 => (0..k).map(|i| b'~' - i as u8).collect(),
                    _ => (0..94).filter(|i| i % 2 == 0).take(k).map(|i| b'!' + i as u8).collect(),
                };
                let glyphs = chars.iter().map(|c| GlyphSpec { ch: *c, w: 3 + (*c as usize % 5), h: 2 + (*c as usize % 3), style: *c % 3 }).collect();
                jobs.push(Job::Tdf(vec![TdfSpec { name: "count".into(), ty, spaces: 2, glyphs }], format!("{k} defined glyphs placement {placement}")));
            }
        }
        // names and spacing
        for len in 0..=12usize {
            for spaces in [0, 1, 40] {
                let glyphs = vec![GlyphSpec { ch: b'A', w: 2, h: 2, style: 0 }];
                jobs.push(Job::Tdf(vec![TdfSpec { name: name_of(len), ty, spaces, glyphs }], format!("name length {len} spacing {spaces}")));
            }
        }
        for spaces in 0..=40 {
            jobs.push(Job::Tdf(vec![TdfSpec { name: "spacing".into(), ty, spaces, glyphs: vec![GlyphSpec { ch: b'Z', w: 1, h: 1, style: 0 }] }], format!("spacing {spaces}")));
        }
        for name in ["a b", " lead", "trail ", "\u{fc}ml\u{e4}ut", "12345678901\u{7f}"] {
            jobs.push(Job::Tdf(vec![TdfSpec { name: name.into(), ty, spaces: 1, glyphs: vec![GlyphSpec { ch: b'A', w: 2, h: 2, style: 0 }] }], format!("name {name:?}")));
        }
        // fonts whose glyph data ends around the 64 KiB a 16 bit offset reaches: every number of maximal glyphs (refused, or read back)
        for n in 40..=94usize {
            for (w, style) in [(30usize, 0u8), (30, 1), (29, 0), (27, 2)] {
                let glyphs = (0..n).map(|i| GlyphSpec { ch: b'!' + i as u8, w, h: 12, style }).collect();
                jobs.push(Job::Tdf(vec![TdfSpec { name: "edge".into(), ty, spaces: 1, glyphs }], format!("{n} glyphs of {w}x12, row style {style}")));
            }
        }
        // the biggest fonts: 94 glyphs of the maximal size (colour fonts exceed the 16 bit offsets)
        for (w, h) in [(30usize, 12usize), (30, 11), (29, 12), (20, 12), (30, 6)] {
            let glyphs = (0..94).map(|i| GlyphSpec { ch: b'!' + i as u8, w, h, style: 0 }).collect();
            jobs.push(Job::Tdf(vec![TdfSpec { name: "big".into(), ty, spaces: 1, glyphs }], format!("94 glyphs of {w}x{h}")));
        }
    }
    // bundles of 1..=34 fonts of mixed types
    for n in 1..=34usize {
        for rot in 0..3u8 {
            let specs: Vec<TdfSpec> = (0..n)
                .map(|i| {
                    let ty = ((i as u8) + rot) % 3;
                    let k = (i * 7 + n) % 20;
                    TdfSpec { name: name_of(i % 13), ty, spaces: (i % 41) as i32, glyphs: (0..k).map(|j| GlyphSpec { ch: b'!' + ((j * 5 + i) % 94) as u8, w: 1 + (i + j) % 30, h: 1 + (i * j) % 12, style: (j % 4) as u8 }).collect() }
                })
                .collect();
            jobs.push(Job::Tdf(specs, format!("bundle of {n} fonts, type rotation {rot}")));
        }
    }
    Fonts { jobs }
}

impl Engine for Fonts {
    fn total(&self) -> u64 {
        self.jobs.len() as u64
    }
    fn run(&mut self, idx: u64, ctx: &mut Ctx) {
        match &self.jobs[idx as usize] {
            Job::Bit(s) => check_bitfont(s, ctx),
            Job::Psf512(h, s) => check_psf512(*h, *s, ctx),
            Job::Tdf(specs, what) => check_tdf(specs, what, ctx),
        }
    }
    fn describe(&self, idx: u64) -> Value {
        match &self.jobs[idx as usize] {
            Job::Bit(s) => json!({"engine": "bitfont", "idx": idx, "font": format!("{s:?}"), "key": "bitfont"}),
            Job::Psf512(h, s) => json!({"engine": "psf2-512", "idx": idx, "height": h, "seed": s, "key": "psf2-512"}),
            Job::Tdf(specs, what) => json!({"engine": "tdf", "idx": idx, "case": what, "fonts": specs.len(), "key": "tdf"}),
        }
    }
    fn replay(&mut self, case: &Value, ctx: &mut Ctx) {
        self.run(case["idx"].as_u64().unwrap_or(0), ctx)
    }
    fn meta(&self) -> Value {
        json!({"jobs": self.jobs.len(), "bitfont_encodings": ["psf2", "raw/create_8", "raw/from_basic", "raw/from_bytes", "dcs slots 0,1,42,255", "xb", "xb 2 fonts", "xb compressed", "adf", "idf", "icy", "icy 2 fonts"]})
    }
}

fn main() {
    worker_main(|prop, tier| Box::new(build(prop, tier)));
}
