//! terminal emulation drivers (filled in per property)
