//! Terminal emulation drivers: construction of (buffer, caret, parser) for every text-mode emulation,
//! per-character feeding under catch_unwind, token alphabets and reachable start contexts.

use crate::{catch, Fnv, PanicRec};
use icy_engine::{ansi, ascii, atascii, avatar, ctrla, mode7, pcboard, petscii, renegade, viewdata, Buffer, BufferParser, CallbackAction, Caret, TextPane};

#[derive(Clone, Copy, PartialEq, Eq, Debug)]
pub enum Emu {
    Ansi(u8), // music option 0 Off, 1 Conflicting, 2 Banana, 3 Both
    Avatar,
    PcBoard,
    CtrlA,
    Renegade,
    Petscii,
    Atascii,
    Viewdata,
    Mode7,
    Ascii,
}

impl Emu {
    pub const ALL: [Emu; 13] = [
        Emu::Ansi(0),
        Emu::Ansi(3),
        Emu::Ansi(1),
        Emu::Ansi(2),
        Emu::Avatar,
        Emu::PcBoard,
        Emu::CtrlA,
        Emu::Renegade,
        Emu::Petscii,
        Emu::Atascii,
        Emu::Viewdata,
        Emu::Mode7,
        Emu::Ascii,
    ];

    pub fn name(&self) -> String {
        match self {
            Emu::Ansi(0) => "ansi".into(),
            Emu::Ansi(1) => "ansi+music-conflicting".into(),
            Emu::Ansi(2) => "ansi+music-banana".into(),
            Emu::Ansi(_) => "ansi+music-both".into(),
            Emu::Avatar => "avatar".into(),
            Emu::PcBoard => "pcboard".into(),
            Emu::CtrlA => "ctrla".into(),
            Emu::Renegade => "renegade".into(),
            Emu::Petscii => "petscii".into(),
            Emu::Atascii => "atascii".into(),
            Emu::Viewdata => "viewdata".into(),
            Emu::Mode7 => "mode7".into(),
            Emu::Ascii => "ascii".into(),
        }
    }

    pub fn from_name(s: &str) -> Emu {
        *Emu::ALL.iter().find(|e| e.name() == s).unwrap_or(&Emu::Ansi(0))
    }

    pub fn is_ansi_family(&self) -> bool {
        matches!(self, Emu::Ansi(_) | Emu::Avatar | Emu::PcBoard | Emu::CtrlA | Emu::Renegade)
    }

    pub fn is_fixed_grid(&self) -> bool {
        matches!(self, Emu::Viewdata | Emu::Mode7)
    }

    pub fn make(&self) -> Box<dyn BufferParser> {
        match self {
            Emu::Ansi(m) => {
                let mut p = ansi::Parser::default();
                p.ansi_music = match m {
                    0 => ansi::MusicOption::Off,
                    1 => ansi::MusicOption::Conflicting,
                    2 => ansi::MusicOption::Banana,
                    _ => ansi::MusicOption::Both,
                };
                Box::new(p)
            }
            Emu::Avatar => Box::<avatar::Parser>::default(),
            Emu::PcBoard => Box::<pcboard::Parser>::default(),
            Emu::CtrlA => Box::<ctrla::Parser>::default(),
            Emu::Renegade => Box::<renegade::Parser>::default(),
            Emu::Petscii => Box::<petscii::Parser>::default(),
            Emu::Atascii => Box::<atascii::Parser>::default(),
            Emu::Viewdata => Box::<viewdata::Parser>::default(),
            Emu::Mode7 => Box::<mode7::Parser>::default(),
            Emu::Ascii => Box::<ascii::Parser>::default(),
        }
    }
}

pub enum Fed {
    Ok(CallbackAction),
    Err,
    Panic(PanicRec),
}

pub struct Term {
    pub emu: Emu,
    pub buf: Buffer,
    pub caret: Caret,
    pub parser: Box<dyn BufferParser>,
    pub fed: u64,
    pub errs: u64,
    pub resized: bool,
}

impl Term {
    pub fn new(emu: Emu, w: i32, h: i32) -> Term {
        let mut buf = Buffer::new((w, h));
        buf.is_terminal_buffer = true;
        Term {
            emu,
            buf,
            caret: Caret::default(),
            parser: emu.make(),
            fed: 0,
            errs: 0,
            resized: false,
        }
    }

    #[inline]
    pub fn feed(&mut self, b: u8) -> Fed {
        self.fed += 1;
        let (p, buf, caret) = (&mut self.parser, &mut self.buf, &mut self.caret);
        match catch(|| p.print_char(buf, 0, caret, b as char)) {
            Ok(Ok(a)) => {
                if let CallbackAction::ResizeTerminal(_, _) = a {
                    self.resized = true;
                }
                Fed::Ok(a)
            }
            Ok(Err(_)) => {
                self.errs += 1;
                Fed::Err
            }
            Err(p) => Fed::Panic(p),
        }
    }

    /// feed a prefix whose panics are not of interest (context set-up); returns false if it panicked
    pub fn feed_quiet(&mut self, bytes: &[u8]) -> bool {
        let mut ok = true;
        for &b in bytes {
            if let Fed::Panic(_) = self.feed(b) {
                ok = false;
            }
        }
        ok
    }

    /// observable state fingerprint
    pub fn fingerprint(&self) -> u64 {
        let mut f = Fnv::new();
        let p = self.caret.get_position();
        f.i32(p.x);
        f.i32(p.y);
        let a = self.caret.get_attribute();
        f.u32(a.get_foreground());
        f.u32(a.get_background());
        f.u32(a.attr as u32);
        f.u8(self.caret.insert_mode as u8);
        f.i32(self.buf.get_width());
        f.i32(self.buf.get_height());
        f.i32(self.buf.get_first_visible_line());
        f.str(&format!("{:?}", self.buf.terminal_state));
        f.u64(self.buf.sixel_threads.len() as u64);
        for l in &self.buf.layers {
            f.i32(l.get_width());
            f.i32(l.get_height());
            f.u64(l.lines.len() as u64);
            for line in &l.lines {
                f.u64(line.chars.len() as u64);
                for c in &line.chars {
                    f.u32(c.ch as u32);
                    f.u32(c.attribute.get_foreground());
                    f.u32(c.attribute.get_background());
                    f.u32(c.attribute.attr as u32);
                }
            }
        }
        f.finish()
    }
}

#[derive(Clone, Debug)]
pub struct Token {
    pub bytes: Vec<u8>,
    /// names the generating table row; used in signatures (never the raw input)
    pub key: String,
}

fn tok(key: impl Into<String>, bytes: impl AsRef<[u8]>) -> Token {
    Token { bytes: bytes.as_ref().to_vec(), key: key.into() }
}

pub const CSI_PREFIXES: [&str; 5] = ["", "?", "=", "!", "<"];
pub const CSI_SUFFIXES: [&str; 4] = ["", " ", "$", "*"];

fn csi_key(prefix: &str, suffix: &str, fin: u8) -> String {
    let mut k = String::from("CSI");
    if !prefix.is_empty() {
        k.push(' ');
        k.push_str(prefix);
    }
    if !suffix.is_empty() {
        k.push(' ');
        k.push_str(if suffix == " " { "SP" } else { suffix });
    }
    k.push(' ');
    k.push(fin as char);
    k
}

pub fn csi(prefix: &str, params: &str, suffix: &str, fin: u8) -> Token {
    let mut b = vec![0x1b, b'['];
    b.extend_from_slice(prefix.as_bytes());
    b.extend_from_slice(params.as_bytes());
    b.extend_from_slice(suffix.as_bytes());
    b.push(fin);
    tok(csi_key(prefix, suffix, fin), b)
}

/// parameter strings for the complete table at depth 1
pub fn params_full(w: i32, h: i32) -> Vec<String> {
    let mid = (h / 2).max(1);
    let mut v: Vec<String> = vec![
        "".into(),
        "0".into(),
        "1".into(),
        format!("{mid}"),
        format!("{h}"),
        format!("{}", h + 1),
        format!("{w}"),
        format!("{}", w + 1),
        "9999".into(),
        "2147483647".into(),
        ";".into(),
        "1;1".into(),
        "0;0".into(),
        format!("{h};{w}"),
        format!("{};{}", h + 1, w + 1),
        "5;2".into(),
        "2;1".into(),
        "9999;9999".into(),
        "1;1;1".into(),
        format!("8;{h};{w}"),
        "8;0;0".into(),
        "0;0;0;0".into(),
        format!("1;1;{h};{w}"),
        format!("{h};{w};1;1"),
        format!("{};{};{};{}", h + 1, w + 1, h + 2, w + 2),
        "1;255;255;255".into(),
        "0;1;2;3".into(),
        format!("65;1;1;{h};{w}"),
        "65;0;0;0;0".into(),
        format!("65;{h};{w};1;1"),
        "1;1;1;1;1;1".into(),
        format!("1;1;0;0;{h};{w}"),
        format!("1;1;{h};{w};0;0"),
        "38;5;1".into(),
        "38;2;1;2;3".into(),
        "48;5;300".into(),
        "38;2".into(),
        "38".into(),
        "1;5;7;4;31;42".into(),
        "0;99".into(),
        "1;99".into(),
        ";;;;;;;;;;;;;;;;;;;;;;;;;;;;;;;;;;;;;;;;".into(),
    ];
    v.dedup();
    v
}

/// single-value menu for depth >= 2 (no huge values: those belong to C03 and appear at depth 1 only)
pub fn params_small(size: i32, level: u8) -> Vec<String> {
    let mid = (size / 2).max(1);
    match level {
        2 => vec!["".into(), "0".into(), "1".into(), format!("{mid}"), format!("{size}"), format!("{}", size + 1)],
        _ => vec!["".into(), "0".into(), format!("{mid}"), format!("{}", size + 1)],
    }
}

/// every CSI final x intermediate x parameter string of the complete table
pub fn csi_table_full(w: i32, h: i32) -> Vec<Token> {
    let params = params_full(w, h);
    let mut v = Vec::new();
    for prefix in CSI_PREFIXES {
        for suffix in CSI_SUFFIXES {
            if !prefix.is_empty() && !suffix.is_empty() {
                continue;
            }
            for fin in 0x40u8..=0x7e {
                for p in &params {
                    v.push(csi(prefix, p, suffix, fin));
                }
            }
        }
    }
    v
}

/// finals that the ANSI parser implements, with the parameter "axis" they work on
/// (v = vertical/rows, h = horizontal/columns, n = small selector, 0 = no parameter)
const CSI_PLAIN: &[(u8, char)] = &[
    (b'A', 'v'), (b'B', 'v'), (b'C', 'h'), (b'D', 'h'), (b'E', 'v'), (b'F', 'v'), (b'G', 'h'), (b'J', 'n'), (b'K', 'n'), (b'L', 'v'), (b'M', 'v'),
    (b'P', 'h'), (b'S', 'v'), (b'T', 'v'), (b'X', 'h'), (b'Y', 'n'), (b'Z', 'n'), (b'@', 'h'), (b'\'', 'h'), (b'a', 'h'), (b'b', 'h'), (b'd', 'v'),
    (b'e', 'v'), (b'j', 'h'), (b'k', 'v'), (b'g', 'n'), (b'u', '0'), (b's', '0'), (b'c', '0'), (b'~', 'n'),
];

pub fn ansi_core(w: i32, h: i32, level: u8) -> Vec<Token> {
    let mut v: Vec<Token> = Vec::new();
    // printables and C0 controls
    for (k, b) in [
        ("print A", b'A'), ("print SP", b' '), ("print FF", 0xff), ("NUL", 0), ("BEL", 7), ("BS", 8), ("TAB", 9), ("LF", 10), ("VT", 11), ("FF", 12), ("CR", 13),
        ("DEL", 0x7f), ("SO", 0x0e),
    ] {
        v.push(tok(k, [b]));
    }
    if level <= 2 {
        v.push(tok("print line", vec![b'x'; w.max(1) as usize]));
        v.push(tok("print line-1", vec![b'y'; (w - 1).max(1) as usize]));
    }
    // ESC level
    for c in b"78cDMEH" {
        v.push(tok(format!("ESC {}", *c as char), [0x1b, *c]));
    }
    v.push(tok("ESC ESC", [0x1b, 0x1b]));
    v.push(tok("ESC LF", [0x1b, 0x0a]));
    if level <= 2 {
        v.push(tok("ESC FF", [0x1b, 0x0c]));
        v.push(tok("ESC other", [0x1b, b'Q']));
        v.push(tok("ESC invalid", [0x1b, 0x01]));
    }
    for &(fin, axis) in CSI_PLAIN {
        let menu: Vec<String> = match axis {
            'v' => params_small(h, level),
            'h' => params_small(w, level),
            'n' => vec!["".into(), "0".into(), "1".into(), "2".into(), "3".into(), "4".into(), "5".into()],
            _ => vec!["".into()],
        };
        for p in menu {
            v.push(csi("", &p, "", fin));
        }
    }
    // cursor position, two parameters
    let hv = params_small(h, 3);
    let wv = params_small(w, 3);
    for fin in [b'H', b'f'] {
        for a in &hv {
            for b in &wv {
                if fin == b'f' && level > 2 && !(a.is_empty() || b.is_empty()) {
                    continue;
                }
                let p = if a.is_empty() && b.is_empty() { String::new() } else { format!("{a};{b}") };
                v.push(csi("", &p, "", fin));
            }
        }
    }
    // margins
    let mid = (h / 2).max(1);
    let mut margins: Vec<String> =
        vec!["".into(), "0;0".into(), "1;1".into(), format!("2;{}", (h - 1).max(1)), format!("{mid};{mid}"), format!("{h};1"), format!("1;{}", h + 1), format!("{}", mid)];
    margins.push(format!("1;{h};1;{w}"));
    margins.push(format!("2;{};2;{}", (h - 1).max(1), (w - 1).max(1)));
    margins.push("0;0;0;0".into());
    margins.push(format!("{h};1;{w};1"));
    margins.push(format!("1;{};1", h));
    for m in &margins {
        v.push(csi("", m, "", b'r'));
    }
    for m in ["", "0;0", "1;1", &format!("2;{}", (w - 1).max(1)), &format!("{w};1"), &format!("1;{}", w + 1)] {
        v.push(csi("", m, "", b's'));
    }
    v.push(csi("=", "", "", b'r'));
    for a in 0..4 {
        for n in ["0", "1", &format!("{mid}"), &format!("{}", h.max(w) + 1)] {
            v.push(csi("=", &format!("{a};{n}"), "", b'm'));
        }
    }
    // modes
    for m in ["4", "6", "7", "25", "33", "35", "69", "9", "1000"] {
        v.push(csi("?", m, "", b'h'));
        v.push(csi("?", m, "", b'l'));
    }
    v.push(csi("", "4", "", b'h'));
    v.push(csi("", "4", "", b'l'));
    v.push(csi("!", "", "", b'p'));
    v.push(csi("<", "", "", b'c'));
    v.push(csi("<", "1", "", b'c'));
    for n in ["1", "2", "3"] {
        v.push(csi("=", n, "", b'n'));
    }
    for n in ["5", "6", "255"] {
        v.push(csi("", n, "", b'n'));
    }
    v.push(csi("?", "62", "", b'n'));
    v.push(csi("?", "63;1", "", b'n'));
    // SGR
    for m in ["", "0", "1", "5", "7", "8", "1;5;31;44", "38;5;196", "48;2;1;2;3", "38;5", "27", "90", "107", "10"] {
        v.push(csi("", m, "", b'm'));
    }
    // t
    v.push(csi("", "1;10;20;30", "", b't'));
    v.push(csi("", "0;10;20;30", "", b't'));
    v.push(csi("", "1;1;1", "", b't'));
    // SP functions
    for p in params_small(w, level) {
        v.push(csi("", &p, " ", b'@'));
        v.push(csi("", &p, " ", b'A'));
        v.push(csi("", &p, " ", b'd'));
    }
    for p in ["", "0;0", "0;1", "0;42", "0;43", "1;255"] {
        v.push(csi("", p, " ", b'D'));
    }
    // $ functions
    let rects: Vec<String> = vec![
        format!("1;1;{h};{w}"),
        "0;0;0;0".into(),
        format!("{h};{w};1;1"),
        format!("{};{};{};{}", h + 1, w + 1, h + 2, w + 2),
        format!("{mid};1;{mid};{w}"),
        "1;1".into(),
    ];
    for r in &rects {
        v.push(csi("", r, "$", b'z'));
        v.push(csi("", r, "$", b'{'));
        v.push(csi("", &format!("66;{r}"), "$", b'x'));
    }
    v.push(csi("", "2", "$", b'w'));
    v.push(csi("", "1", "$", b'w'));
    // * functions
    for p in ["", "0", "1", "2", "63", "64"] {
        v.push(csi("", p, "*", b'z'));
    }
    for p in ["", "0;0", "1;5", "0;99", "2;3"] {
        v.push(csi("", p, "*", b'r'));
    }
    for p in [format!("1;1;1;1;{h};{w}"), "1;1;0;0;0;0".into(), format!("1;1;{h};{w};1;1"), "1;1".into(), format!("1;0;0;0;{};{}", h + 1, w + 1)] {
        v.push(csi("", &p, "*", b'y'));
    }
    // DCS / OSC / APS
    for t in dcs_osc_tokens(level) {
        v.push(t);
    }
    v
}

/// ~110 token alphabet for depth-3 exploration: one or two representatives of every state-changing function
pub fn ansi_mini(w: i32, h: i32) -> Vec<Token> {
    let mut v: Vec<Token> = Vec::new();
    for (k, b) in [("print A", b'A'), ("BS", 8u8), ("TAB", 9), ("LF", 10), ("FF", 12), ("CR", 13), ("DEL", 0x7f)] {
        v.push(tok(k, [b]));
    }
    v.push(tok("print line", vec![b'x'; w.max(1) as usize]));
    for c in b"78cDME" {
        v.push(tok(format!("ESC {}", *c as char), [0x1b, *c]));
    }
    for &(fin, axis) in CSI_PLAIN {
        let big = match axis {
            'v' => format!("{}", h + 1),
            'h' => format!("{}", w + 1),
            'n' => "2".to_string(),
            _ => continue,
        };
        if matches!(fin, b'j' | b'k' | b'~' | b'g' | b'\'' | b'a' | b'e') {
            continue;
        }
        v.push(csi("", "", "", fin));
        v.push(csi("", &big, "", fin));
    }
    for fin in [b'u', b's'] {
        v.push(csi("", "", "", fin));
    }
    v.push(csi("", "", "", b'H'));
    v.push(csi("", &format!("{};{}", h + 1, w + 1), "", b'H'));
    v.push(csi("", &format!("{};{}", (h / 2).max(1), (w / 2).max(1)), "", b'H'));
    for m in ["", "0;0", &format!("2;{}", (h - 1).max(1)), &format!("1;{}", h + 1), &format!("2;{};2;{}", (h - 1).max(1), (w - 1).max(1)), "0;0;0;0"] {
        v.push(csi("", m, "", b'r'));
    }
    v.push(csi("", &format!("2;{}", (w - 1).max(1)), "", b's'));
    v.push(csi("=", "", "", b'r'));
    v.push(csi("=", "1;0", "", b'm'));
    v.push(csi("=", &format!("0;{}", h + 1), "", b'm'));
    for m in ["7", "69"] {
        v.push(csi("?", m, "", b'h'));
        v.push(csi("?", m, "", b'l'));
    }
    v.push(csi("", "4", "", b'h'));
    v.push(csi("!", "", "", b'p'));
    v.push(csi("", "1;5;44", "", b'm'));
    for p in ["", &format!("{}", w + 1)] {
        v.push(csi("", p, " ", b'@'));
        v.push(csi("", p, " ", b'A'));
    }
    v.push(csi("", &format!("66;1;1;{h};{w}"), "$", b'x'));
    v.push(csi("", &format!("1;1;{h};{w}"), "$", b'z'));
    v.push(csi("", "0;0;0;0", "$", b'{'));
    v.push(csi("", "1", "*", b'z'));
    for t in dcs_osc_tokens(3) {
        if matches!(t.key.as_str(), "DCS macro text" | "DCS macro text csi" | "DCS macro self" | "DCS sixel data" | "OSC link open" | "OSC link close" | "DCS font ok-ish") {
            v.push(t);
        }
    }
    v
}

pub fn dcs_osc_tokens(level: u8) -> Vec<Token> {
    let mut v = Vec::new();
    let dcs = |k: &str, body: &[u8]| {
        let mut b = vec![0x1b, b'P'];
        b.extend_from_slice(body);
        b.extend_from_slice(&[0x1b, b'\\']);
        tok(format!("DCS {k}"), b)
    };
    v.push(dcs("macro text", b"1;0;0!zAB"));
    v.push(dcs("macro text csi", b"2;0;0!z\x1b[2J"));
    v.push(dcs("macro clear-all", b"3;1;0!z"));
    v.push(dcs("macro hex", b"4;0;1!z4142"));
    v.push(dcs("macro hex repeat", b"5;0;1!z!3;41;42"));
    v.push(dcs("macro hex bad", b"6;0;1!z4G"));
    v.push(dcs("macro hex odd", b"6;0;1!z414"));
    v.push(dcs("macro hex repeat bad", b"6;0;1!z!3x"));
    v.push(dcs("macro invoke inside", b"7;0;0!zX\x1b[1*zY"));
    v.push(dcs("macro self", b"8;0;1!z1B5B382A7A1B5B382A7A"));
    v.push(dcs("macro invoke at definition", b"8;0;0!z\x1b[8*z"));
    v.push(dcs("macro p3 invalid", b"9;0;2!zA"));
    v.push(dcs("macro no id", b"!zA"));
    v.push(dcs("macro unicode slice", b"1\xff!z"));
    v.push(dcs("macro id huge", b"2147483647;0;0!zA"));
    v.push(dcs("empty", b""));
    v.push(dcs("unknown", b"zzz"));
    v.push(dcs("digits only", b"12;3"));
    v.push(dcs("non-ascii", b"\xe9!z"));
    v.push(dcs("font ok-ish", b"CTerm:Font:5:AAAA"));
    v.push(dcs("font empty", b"CTerm:Font:5:"));
    v.push(dcs("font no num", b"CTerm:Font::AAAA"));
    v.push(dcs("font bad b64", b"CTerm:Font:5:***"));
    v.push(dcs("font huge slot", b"CTerm:Font:99999999999999999999:AAAA"));
    v.push(dcs("font no colon", b"CTerm:Font:5"));
    v.push(dcs("font psf2 hdr", b"CTerm:Font:6:crVKhgAAAAAgAAAAAAAAAAABAAAQAAAAEAAAAAgAAAA="));
    v.push(dcs("sixel empty", b"q"));
    v.push(dcs("sixel data", b"0;1;0q#1~~~-@@@"));
    v.push(dcs("sixel raster", b"q\"1;1;4;6#0;2;0;0;0~"));
    v.push(dcs("sixel params", b"9;1q?"));
    if level <= 2 {
        v.push(dcs("esc inside", b"1;0;0!z\x1bQ"));
        v.push(dcs("macro in dcs bad1", b"1;0;0!z\x1b[x"));
        v.push(dcs("macro in dcs bad2", b"1;0;0!z\x1b[1x"));
        v.push(dcs("macro in dcs bad3", b"1;0;0!z\x1b[1*x"));
        v.push(dcs("macro in dcs digits", b"1;0;0!z\x1b[[1*z"));
        v.push(dcs("macro in dcs nonum", b"1;0;0!z\x1b[*z"));
    }
    let osc = |k: &str, body: &[u8]| {
        let mut b = vec![0x1b, b']'];
        b.extend_from_slice(body);
        b.extend_from_slice(&[0x1b, b'\\']);
        tok(format!("OSC {k}"), b)
    };
    v.push(osc("palette", b"4;1;rgb:ff/00/80"));
    v.push(osc("palette idx>255", b"4;300;rgb:ff/00/80"));
    v.push(osc("palette huge idx", b"4;99999999999;rgb:ff/00/80"));
    v.push(osc("palette malformed", b"4;1;rgb:f/0/8"));
    v.push(osc("palette two", b"4;1;rgb:01/02/03;2;rgb:04/05/06"));
    v.push(osc("link open", b"8;;http://x"));
    v.push(osc("link close", b"8;;"));
    v.push(osc("link short", b"8;"));
    v.push(osc("8 only", b"8"));
    v.push(osc("empty", b""));
    v.push(osc("unknown", b"0;title"));
    v.push(osc("non-ascii", b"8;;\xe9"));
    v.push(osc("non-ascii-early", b"8\xe9;"));
    v.push(osc("esc inside", b"8;;a\x1bQb"));
    let mut aps = vec![0x1b, b'_'];
    aps.extend_from_slice(b"hello\x1bQ\x1b\\");
    v.push(tok("APS", aps));
    v.push(tok("APS empty", [0x1b, b'_', 0x1b, b'\\']));
    v
}

/// ANSI music bodies (after the introducer); every note with modifiers, octaves, tempo, length, pause
pub fn music_tokens() -> Vec<Token> {
    let mut v = Vec::new();
    let intros: [(&str, &[u8]); 3] = [("CSI M", b"\x1b[M"), ("CSI N", b"\x1b[N"), ("CSI |", b"\x1b[|")];
    let mut bodies: Vec<Vec<u8>> = Vec::new();
    for style in ["", "F", "B", "N", "L", "S", "X"] {
        bodies.push(style.as_bytes().to_vec());
    }
    for o in 0..=7u8 {
        for n in b"CDEFGAB" {
            for m in ["", "+", "#", "-", "++", "--", ".", "4", "64.", "999999999999", "4..", "+-"] {
                let mut b = format!("O{o}").into_bytes();
                b.push(*n);
                b.extend_from_slice(m.as_bytes());
                bodies.push(b);
            }
        }
    }
    for t in ["T", "T0", "T32", "T255", "T256", "T99999999999", "L", "L0", "L1", "L64", "L65", "L4.", "L99999999999..", "P", "P0", "P4", "P64.", "P9999999999"] {
        bodies.push(t.as_bytes().to_vec());
        let mut b = t.as_bytes().to_vec();
        b.push(b'C');
        bodies.push(b);
    }
    for t in ["<<<<<<<<C", ">>>>>>>>B+", "O", "OX", "O7", "MFMBMNMLMS", "M", "MM", "Z", "C\x0e", "\x1b", "C\x1b[M"] {
        bodies.push(t.as_bytes().to_vec());
    }
    for (k, intro) in intros {
        for body in &bodies {
            let mut b = intro.to_vec();
            b.extend_from_slice(body);
            b.push(0x0e);
            v.push(tok(format!("music {k}"), b));
        }
    }
    v
}

/// command bytes of the non-ANSI emulations and of the wrappers around the ANSI parser
pub fn native_tokens(emu: Emu) -> Vec<Token> {
    let mut v = Vec::new();
    match emu {
        Emu::Avatar => {
            for c in 0..=9u8 {
                v.push(tok(format!("AVT ^V {c}"), [0x16, c]));
            }
            v.push(tok("AVT ^V other", [0x16, b'A']));
            for a in [0u8, 1, 7, 0x80, 0xff] {
                v.push(tok("AVT color", [0x16, 1, a]));
            }
            for (x, y) in [(0u8, 0u8), (1, 1), (80, 25), (255, 255), (0, 255), (255, 0), (24, 79)] {
                v.push(tok("AVT goto", [0x16, 8, x, y]));
            }
            for (c, n) in [(b'A', 0u8), (b'A', 1), (b'A', 80), (b'A', 255), (0x0a, 255), (0x19, 3), (0x16, 2), (0x1b, 4), (0x0c, 2)] {
                v.push(tok("AVT repeat", [0x19, c, n]));
            }
            v.push(tok("AVT clear", [0x0c]));
        }
        Emu::PcBoard => {
            for t in ["@X07", "@XFF", "@X0", "@X", "@", "@@", "@Xzz", "@CLS@", "@X1", "@POS:5@", "@X\x1b["] {
                v.push(tok("PCB code", t.as_bytes()));
            }
        }
        Emu::CtrlA => {
            for c in 0..=255u8 {
                v.push(tok(if c >= 128 { "CTRLA right".to_string() } else { format!("CTRLA {}", (c as char).escape_default()) }, [1, c]));
            }
        }
        Emu::Renegade => {
            for t in ["|00", "|15", "|16", "|23", "|31", "|39", "|40", "|1", "|", "||", "|x", "|1x", "|3\x1b"] {
                v.push(tok("RENEGADE code", t.as_bytes()));
            }
        }
        Emu::Petscii => {
            for c in 0..=255u8 {
                v.push(tok(format!("PETSCII ESC {c:02x}"), [0x1b, c]));
            }
        }
        Emu::Atascii => {
            for c in 0..=255u8 {
                v.push(tok(format!("ATASCII ESC {c:02x}"), [0x1b, c]));
            }
        }
        Emu::Viewdata => {
            for c in 0..=255u8 {
                v.push(tok(format!("VIEWDATA ESC {c:02x}"), [0x1b, c]));
            }
        }
        _ => {}
    }
    v
}

pub fn byte_tokens() -> Vec<Token> {
    (0..=255u8).map(|b| tok(format!("byte {b:02x}"), [b])).collect()
}

/// Start contexts: byte prefixes fed through the same parser, so every context is reachable by construction.
pub fn contexts(emu: Emu, w: i32, h: i32) -> Vec<(&'static str, Vec<u8>)> {
    let lf: u8 = match emu {
        Emu::Petscii => 0x0d,
        Emu::Atascii => 0x9b,
        _ => 0x0a,
    };
    let clear: u8 = match emu {
        Emu::Petscii => 0x93,
        Emu::Atascii => 0x7d,
        _ => 0x0c,
    };
    let mut v: Vec<(&'static str, Vec<u8>)> = vec![("fresh", vec![]), ("cleared", vec![clear]), ("scrollback", vec![lf; (h + 3) as usize])];
    let mut filled = Vec::new();
    for _ in 0..(w * h - 1).max(1) {
        filled.push(b'#');
    }
    v.push(("filled", filled));
    if emu.is_ansi_family() {
        let s = |x: String| x.into_bytes();
        v.push(("tb-margins", s(format!("\x1b[2;{}r", (h - 1).max(2)))));
        v.push(("lr-margins", s(format!("\x1b[?69h\x1b[2;{}s", (w - 1).max(2)))));
        v.push(("all-margins", s(format!("\x1b[2;{};2;{}r", (h - 1).max(2), (w - 1).max(2)))));
        v.push(("insert-mode", s("\x1b[4h".into())));
        v.push(("nowrap", s("\x1b[?7l".into())));
        v.push(("bottom-right", s("\x1b[999;999H".into())));
        let mut sv = s("\x1b[999;999H\x1b[s\x1b7".into());
        sv.extend(vec![lf; (h + 3) as usize]);
        v.push(("saved-then-scrollback", sv));
        v.push(("macros", b"\x1bP1;0;0!z\x1b[2*z\x1b\\\x1bP2;0;0!zX\x1b\\".to_vec()));
        v.push(("open-link", b"\x1b]8;;http://x\x1b\\".to_vec()));
        v.push(("ice", b"\x1b[?33h\x1b[5;44m".to_vec()));
        let mut c = vec![clear];
        c.extend(s(format!("\x1b[{};{}H", (h / 2).max(1), (w / 2).max(1))));
        v.push(("cleared-mid", c));
    }
    v
}
