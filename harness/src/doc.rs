//! document builders and comparers (filled in per property)
