//! Document builders and observers shared by the format round-trip engines.

use icy_engine::{AttributedChar, BitFont, Buffer, IceMode, TextAttribute, TextPane};
use serde_json::{json, Value};

#[derive(Clone, Copy, Debug, PartialEq, Eq, Hash)]
pub struct Cell {
    pub ch: u32,
    pub fg: u32,
    pub bg: u32,
    pub blink: bool,
    pub bold: bool,
    pub page: usize,
}

impl Cell {
    pub const fn new(ch: u32, fg: u32, bg: u32) -> Cell {
        Cell { ch, fg, bg, blink: false, bold: false, page: 0 }
    }
    pub const fn blink(mut self) -> Cell {
        self.blink = true;
        self
    }
    pub const fn bold(mut self) -> Cell {
        self.bold = true;
        self
    }
    pub const fn page(mut self, p: usize) -> Cell {
        self.page = p;
        self
    }
    pub fn attr(&self) -> TextAttribute {
        let mut a = TextAttribute::new(self.fg, self.bg);
        a.set_is_blinking(self.blink);
        a.set_is_bold(self.bold);
        a.set_font_page(self.page);
        a
    }
    pub fn to_char(&self) -> AttributedChar {
        AttributedChar::new(char::from_u32(self.ch).unwrap_or('?'), self.attr())
    }
    pub fn json(&self) -> Value {
        json!({"ch": self.ch, "fg": self.fg, "bg": self.bg, "blink": self.blink, "bold": self.bold, "page": self.page})
    }
}

pub fn put(buf: &mut Buffer, x: i32, y: i32, c: &Cell) {
    buf.layers[0].set_char((x, y), c.to_char());
}

/// what a cell shows: character, displayed colours (bold folded into the bright foreground), blink, font page
#[derive(Clone, Copy, Debug, PartialEq, Eq, Hash)]
pub struct Shown {
    pub ch: u32,
    pub fg: (u8, u8, u8),
    pub bg: (u8, u8, u8),
    pub blink: bool,
    pub page: usize,
    pub visible: bool,
}

pub fn shown_of(buf: &Buffer, ch: AttributedChar) -> Shown {
    let a = ch.attribute;
    let mut fg = a.get_foreground();
    if a.is_bold() && fg < 8 {
        fg += 8;
    }
    Shown {
        ch: ch.ch as u32,
        fg: buf.palette.get_rgb(fg),
        bg: buf.palette.get_rgb(a.get_background()),
        blink: a.is_blinking(),
        page: a.get_font_page(),
        visible: ch.is_visible(),
    }
}

pub fn shown(buf: &Buffer, x: i32, y: i32) -> Shown {
    shown_of(buf, buf.get_char((x, y)))
}

pub fn shown_json(s: &Shown) -> Value {
    json!({"ch": s.ch, "fg": [s.fg.0, s.fg.1, s.fg.2], "bg": [s.bg.0, s.bg.1, s.bg.2], "blink": s.blink, "page": s.page, "visible": s.visible})
}

pub fn new_buffer(w: i32, h: i32, ice: IceMode) -> Buffer {
    let mut b = Buffer::new((w, h));
    b.ice_mode = ice;
    b
}

/// a synthetic 8 x h font whose glyph g row r is (g*seed ^ 37r): every byte value occurs
pub fn synth_font(name: &str, h: u8, seed: u8) -> BitFont {
    let mut data = Vec::with_capacity(256 * h as usize);
    for g in 0..256usize {
        for r in 0..h as usize {
            data.push((g as u8).wrapping_mul(seed | 1) ^ (37usize.wrapping_mul(r) as u8) ^ seed);
        }
    }
    BitFont::create_8(name, 8, h, &data)
}

pub fn font_glyph_bytes(f: &BitFont) -> Vec<u8> {
    let mut v = Vec::new();
    for g in 0..f.length.max(0) as u32 {
        if let Some(gl) = char::from_u32(g).and_then(|c| f.get_glyph(c)) {
            v.extend_from_slice(&gl.data);
        } else {
            v.push(0xEE);
        }
    }
    v
}

pub fn ice_name(m: IceMode) -> &'static str {
    match m {
        IceMode::Blink => "blink",
        IceMode::Ice => "ice",
        IceMode::Unlimited => "unlimited",
    }
}
