//! IcyDraw container helpers: split a .icy file (a PNG with zTXt chunks holding base64 payloads) into its
//! chunks and build a valid container from an arbitrary chunk list, so that chunk *payloads* can be faulted
//! while the PNG layer (CRCs, zlib) stays valid. Uses the same `png` / `base64` crates as the engine.

use base64::{engine::general_purpose, Engine};

pub type Chunk = (String, Vec<u8>);

pub fn parse_chunks(png_bytes: &[u8]) -> Vec<Chunk> {
    let mut out = Vec::new();
    let decoder = png::Decoder::new(png_bytes);
    if let Ok(reader) = decoder.read_info() {
        for c in &reader.info().compressed_latin1_text {
            if let Ok(text) = c.get_text() {
                if let Ok(bytes) = general_purpose::STANDARD.decode(text) {
                    out.push((c.keyword.clone(), bytes));
                }
            }
        }
    }
    out
}

pub fn build_png(chunks: &[Chunk]) -> Vec<u8> {
    let mut result = Vec::new();
    {
        let mut encoder = png::Encoder::new(&mut result, 1, 1);
        encoder.set_color(png::ColorType::Rgba);
        encoder.set_depth(png::BitDepth::Eight);
        for (k, v) in chunks {
            let _ = encoder.add_ztxt_chunk(k.clone(), general_purpose::STANDARD.encode(v));
        }
        let mut writer = encoder.write_header().unwrap();
        writer.write_image_data(&[0, 0, 0, 0]).unwrap();
        writer.finish().unwrap();
    }
    result
}

/// layer record builder (mirrors doc/FileFormats/ICEDFormat.md)
pub struct LayerRec {
    pub title: Vec<u8>,
    pub role: u8,
    pub mode: u8,
    pub color: [u8; 4],
    pub flags: u32,
    pub transparency: u8,
    pub x: i32,
    pub y: i32,
    pub w: i32,
    pub h: i32,
    pub font_page: u16,
    pub data: Vec<u8>,
    /// declared data length (None = actual)
    pub declared_len: Option<u64>,
}

impl Default for LayerRec {
    fn default() -> Self {
        LayerRec { title: b"L".to_vec(), role: 0, mode: 0, color: [0; 4], flags: 1, transparency: 0, x: 0, y: 0, w: 1, h: 1, font_page: 0, data: vec![], declared_len: None }
    }
}

impl LayerRec {
    pub fn bytes(&self) -> Vec<u8> {
        let mut r = Vec::new();
        r.extend((self.title.len() as u32).to_le_bytes());
        r.extend(&self.title);
        r.push(self.role);
        r.extend([0, 0, 0, 0]);
        r.push(self.mode);
        r.extend(self.color);
        r.extend(self.flags.to_le_bytes());
        r.push(self.transparency);
        r.extend(self.x.to_le_bytes());
        r.extend(self.y.to_le_bytes());
        r.extend(self.w.to_le_bytes());
        r.extend(self.h.to_le_bytes());
        r.extend(self.font_page.to_le_bytes());
        r.extend(self.declared_len.unwrap_or(self.data.len() as u64).to_le_bytes());
        r.extend(&self.data);
        r
    }
}

pub fn iced_header(w: u32, h: u32) -> Vec<u8> {
    iced_header_typed(w, h, 1)
}

/// header with the given buffer type (0 Unicode, 1 CP437, 2 Petscii, 3 Atascii, 4 Viewdata)
pub fn iced_header_typed(w: u32, h: u32, buffer_type: u16) -> Vec<u8> {
    let mut r = vec![0u8, 0];
    r.extend(0u32.to_le_bytes());
    r.extend(buffer_type.to_le_bytes());
    r.push(0);
    r.push(1);
    r.push(1);
    r.extend(w.to_le_bytes());
    r.extend(h.to_le_bytes());
    r
}

pub fn long_cell(attr: u16, ch: u32, fg: u32, bg: u32, page: u16) -> Vec<u8> {
    let mut r = Vec::new();
    r.extend(attr.to_le_bytes());
    r.extend(ch.to_le_bytes());
    r.extend(fg.to_le_bytes());
    r.extend(bg.to_le_bytes());
    r.extend(page.to_le_bytes());
    r
}

pub fn short_cell(attr: u16, ch: u8, fg: u8, bg: u8, page: u8) -> Vec<u8> {
    let mut r = Vec::new();
    r.extend((attr | 0x4000).to_le_bytes());
    r.extend([ch, fg, bg, page]);
    r
}
