//! Seed files (produced by the engine's own writers + a few hand-built headers) and complete fault menus.

use crate::doc::*;
use crate::icy;
use icy_engine::{BitFont, Buffer, FontGlyph, FontType, IceMode, Palette, PaletteFormat, SauceData, SauceString, SaveOptions, TheDrawFont};

#[derive(Clone, Debug, PartialEq)]
pub enum Kind {
    File(&'static str),
    Icy,
    Font,
    Tdf,
    Palette,
    Sauce,
    Clipboard,
}

#[derive(Clone)]
pub struct Seed {
    pub name: String,
    pub kind: Kind,
    pub bytes: Vec<u8>,
    /// for Icy seeds: the chunk list the container is rebuilt from
    pub chunks: Vec<icy::Chunk>,
}

#[derive(Clone, Debug)]
pub enum Fault {
    None,
    Trunc(usize),
    Byte(usize, u8),
    U16(usize, u16, bool),
    U32(usize, u32, bool),
    Pair(usize, u16, usize, u16),
    /// IcyDraw: truncate the payload of chunk i to n bytes
    ChunkTrunc(usize, usize),
    /// IcyDraw: set byte at offset in payload of chunk i
    ChunkByte(usize, usize, u8),
    ChunkU32(usize, usize, u32),
    /// IcyDraw: reorder chunks (permutation index over the first 4 chunks)
    ChunkPerm(u8),
    ChunkDrop(usize),
    ChunkDup(usize),
    ChunkRename(usize, &'static str),
}

pub const FIELD16: [u16; 9] = [0, 1, 2, 0x7F, 0x7FFF, 0x8000, 0xFFFE, 0xFFFF, 0x0100];
pub const FIELD32: [u32; 8] = [0, 1, 2, 0x7FFF, 0xFFFF, 0x7FFF_FFFF, 0x8000_0000, 0xFFFF_FFFF];

fn pattern_doc(w: i32, h: i32, ice: IceMode) -> Buffer {
    let mut b = new_buffer(w, h, ice);
    for y in 0..h {
        for x in 0..w {
            let ch = [b'A' as u32, 32, 0xDB, b'z' as u32, 0xB0, b'1' as u32, 32][((x + 2 * y) % 7) as usize];
            let mut c = Cell::new(ch, ((x * 3 + y) % 16) as u32, ((x + y * 5) % 8) as u32);
            if ice == IceMode::Ice {
                c.bg = ((x + y * 5) % 16) as u32;
            } else if (x + y) % 5 == 0 {
                c.blink = true;
            }
            put(&mut b, x, y, &c);
        }
    }
    b
}

fn with_sauce(b: &mut Buffer, comments: usize) {
    let mut s = SauceData::default();
    s.title = SauceString::from("title");
    s.author = SauceString::from("author");
    s.group = SauceString::from("group");
    for i in 0..comments {
        s.comments.push(SauceString::from(format!("comment {i}")));
    }
    s.buffer_size = b.get_size_pub();
    s.use_ice = b.ice_mode == IceMode::Ice;
    b.set_sauce(Some(s), false);
}

trait SizePub {
    fn get_size_pub(&self) -> icy_engine::Size;
}
impl SizePub for Buffer {
    fn get_size_pub(&self) -> icy_engine::Size {
        use icy_engine::TextPane;
        self.get_size()
    }
}

fn save(b: &Buffer, ext: &str, sauce: bool, compress: bool) -> Option<Vec<u8>> {
    let mut o = SaveOptions::new();
    o.lossles_output = true;
    o.save_sauce = sauce;
    o.compress = compress;
    crate::catch(|| b.to_bytes(ext, &o)).ok().and_then(|r| r.ok())
}

pub fn seeds() -> Vec<Seed> {
    let mut v: Vec<Seed> = Vec::new();
    let mut add = |name: String, kind: Kind, bytes: Vec<u8>| v.push(Seed { name, kind, bytes, chunks: vec![] });
    let exts: [&'static str; 13] = ["ans", "asc", "avt", "pcb", "msg", "an1", "bin", "xb", "tnd", "adf", "idf", "ata", "seq"];
    for ext in exts {
        for (di, (w, h)) in [(1, 1), (7, 3), (80, 25)].into_iter().enumerate() {
            if ext == "adf" && w != 80 {
                continue;
            }
            let w = if ext == "ata" { w.min(40) } else { w };
            let ice = if matches!(ext, "adf" | "idf" | "tnd") || di == 2 { IceMode::Ice } else { IceMode::Blink };
            let base = pattern_doc(w, h, ice);
            for (sauce, comments) in [(false, 0usize), (true, 0), (true, 1), (true, 255)] {
                if comments == 255 && di != 1 {
                    continue;
                }
                let mut b = base.flat_clone(true);
                if sauce {
                    with_sauce(&mut b, comments);
                }
                for compress in [false, true] {
                    if compress && !matches!(ext, "xb" | "idf" | "ans") {
                        continue;
                    }
                    if let Some(bytes) = save(&b, ext, sauce, compress) {
                        add(format!("{ext} {w}x{h} sauce={sauce} comments={comments} compress={compress}"), Kind::File(ext), bytes);
                    }
                }
            }
        }
    }
    // a compressed iCE Draw file whose last record is a run (the cells of its last row are equal)
    {
        let mut b = pattern_doc(80, 3, IceMode::Ice);
        for x in 0..80 {
            put(&mut b, x, 2, &Cell::new(b'r' as u32, 14, 1));
        }
        if let Some(bytes) = save(&b, "idf", false, true) {
            add("idf 80x3 compressed, last row one run".to_string(), Kind::File("idf"), bytes);
        }
    }
    // XBin with two fonts + palette
    {
        let mut b = pattern_doc(9, 4, IceMode::Blink);
        b.set_font(0, synth_font("a", 8, 3));
        b.set_font(1, synth_font("b", 8, 7));
        for x in 0..9 {
            put(&mut b, x, 1, &Cell::new(b'Q' as u32, 3, 2).page(1));
        }
        b.palette = {
            let mut p = Palette::dos_default();
            p.set_color_rgb(3, 0xF3, 0x41, 0x00);
            p
        };
        for compress in [false, true] {
            if let Some(bytes) = save(&b, "xb", false, compress) {
                add(format!("xb 9x4 two fonts palette compress={compress}"), Kind::File("xb"), bytes);
            }
        }
    }
    // ANSI files with several sixel images: two that do not cover each other, then one that covers both (and the reverse order)
    {
        let img = |row: u32, col: u32, w: u32, bands: u32| {
            let mut b = format!("\x1b[{row};{col}H\x1bPq#1;2;100;0;0").into_bytes();
            for _ in 0..bands {
                b.extend(format!("#1!{w}~-").as_bytes());
            }
            b.extend(b"\x1b\\");
            b
        };
        let mut f = Vec::new();
        f.extend(img(1, 1, 8, 3));
        f.extend(img(1, 3, 8, 3));
        f.extend(img(1, 1, 64, 6));
        f.extend(b"text after the images\r\n");
        add("ans with three sixel images (third covers two)".into(), Kind::File("ans"), f);
        let mut f = Vec::new();
        f.extend(img(1, 1, 64, 6));
        f.extend(img(1, 1, 8, 3));
        f.extend(img(2, 3, 8, 3));
        f.extend(img(1, 1, 64, 6));
        add("ans with four sixel images (big, two small inside, big again)".into(), Kind::File("ans"), f);
    }
    // hand-built streams for the text loaders
    add("seq hand-built".into(), Kind::File("seq"), b"\x93HELLO\x0d\x12REV\x92\x1bQ\x11\x9d\x1d\x05".to_vec());
    add("ata hand-built".into(), Kind::File("ata"), b"\x7dHELLO\x9b\x1b\x1cWORLD\x9c\x9d\xfe\xff\x1e\x1f".to_vec());
    add("ans with sixel + macro + font".into(), Kind::File("ans"), b"\x1b[1;31mHi\x1bP0;1;0q\"1;1;4;6#1~~~~\x1b\\\x1bP1;0;0!zAB\x1b\\\x1b[1*z\x1b[0;42 D\x1b[2J\x1b[5;5Hx".to_vec());
    add("ans utf8 bom".into(), Kind::File("ans"), "\u{feff}h\u{e9}llo \u{2588}\u{1F600}\x1b[31m\u{2591}".as_bytes().to_vec());
    add("pcb codes".into(), Kind::File("pcb"), b"@X1FHello@X07@CLS@ @X4".to_vec());
    add("avt codes".into(), Kind::File("avt"), b"\x0c\x16\x01\x1fHi\x19A\x05\x16\x08\x03\x04x\x16\x02\x16\x03".to_vec());
    // fonts
    let def = BitFont::default();
    add("font psf2 default".into(), Kind::Font, def.to_psf2_bytes().unwrap());
    add("font raw 8x16".into(), Kind::Font, def.convert_to_u8_data());
    {
        let mut d = vec![0x36, 0x04, 0, 8];
        d.extend((0..256 * 8).map(|i| i as u8));
        add("font psf1 8x8".into(), Kind::Font, d);
        let mut d = vec![0x36, 0x04, 1, 2];
        d.extend((0..512 * 2).map(|i| i as u8));
        add("font psf1 512".into(), Kind::Font, d);
    }
    // TheDraw fonts
    for (n, ft) in [("outline", FontType::Outline), ("block", FontType::Block), ("color", FontType::Color)] {
        let mut f = TheDrawFont::new(n, ft, 2);
        let data: Vec<u8> = match ft {
            FontType::Color => vec![b'A', 0x1f, b'B', 0x2e, 13, b'C', 0x07],
            _ => vec![b'A', b'B', 13, b'C', b'D'],
        };
        f.set_glyph('!', FontGlyph { size: (2, 2).into(), data: data.clone() });
        f.set_glyph('A', FontGlyph { size: (2, 2).into(), data: data.clone() });
        f.set_glyph('~', FontGlyph { size: (2, 2).into(), data });
        if let Ok(b) = f.as_tdf_bytes() {
            add(format!("tdf single {n}"), Kind::Tdf, b);
        }
        if let Ok(b) = TheDrawFont::create_font_bundle(&[f.clone(), f.clone(), f]) {
            add(format!("tdf bundle of 3 {n}"), Kind::Tdf, b);
        }
    }
    // palettes
    {
        let mut p = Palette::dos_default();
        p.title = "T".into();
        p.author = "A".into();
        p.description = "D".into();
        for (n, fmt) in [("hex", PaletteFormat::Hex), ("pal", PaletteFormat::Pal), ("gpl", PaletteFormat::Gpl), ("ice", PaletteFormat::Ice), ("txt", PaletteFormat::Txt)] {
            add(format!("palette {n}"), Kind::Palette, p.export_palette(&fmt));
        }
    }
    // a bare SAUCE record and record + comments (extract)
    {
        let mut b = pattern_doc(2, 1, IceMode::Blink);
        with_sauce(&mut b, 2);
        if let Some(bytes) = save(&b, "asc", true, false) {
            let s = bytes.len();
            add("sauce record only".into(), Kind::Sauce, bytes[s - 128..].to_vec());
            add("sauce record + comment block".into(), Kind::Sauce, bytes[s - 128 - 2 * 64 - 5..].to_vec());
            add("sauce with EOF + content".into(), Kind::Sauce, bytes);
        }
    }
    // clipboard
    {
        let mut d = vec![0u8];
        d.extend(1i32.to_le_bytes());
        d.extend(2i32.to_le_bytes());
        d.extend(2u32.to_le_bytes());
        d.extend(2u32.to_le_bytes());
        for i in 0..4u8 {
            d.extend([b'a' + i, 0, 0, 0, 0, 0, 1, 0, 0, 0, 7, 0, 0, 0]);
        }
        add("clipboard 2x2".into(), Kind::Clipboard, d);
    }
    // IcyDraw (kept as chunk lists)
    let mut icys: Vec<(String, Buffer)> = Vec::new();
    {
        let mut b = pattern_doc(3, 2, IceMode::Blink);
        let mut l = icy_engine::Layer::new("two", (3, 2));
        l.properties.has_alpha_channel = true;
        l.set_char((1, 1), Cell::new(0x2588, 300, 2).to_char());
        l.set_char((0, 0), Cell::new(b'x' as u32, 1, 2).page(1).to_char());
        b.layers.push(l);
        b.set_font(1, synth_font("second", 16, 9));
        icys.push(("icy 2 layers".into(), b));
        let mut b = pattern_doc(3, 2, IceMode::Ice);
        with_sauce(&mut b, 1);
        b.palette.set_color_rgb(16, 1, 2, 3);
        icys.push(("icy sauce + palette".into(), b));
        icys.push(("icy empty".into(), new_buffer(0, 0, IceMode::Unlimited)));
    }
    drop(add);
    for (name, b) in icys {
        if let Some(bytes) = save(&b, "icy", true, false) {
            let chunks = icy::parse_chunks(&bytes);
            v.push(Seed { name, kind: Kind::Icy, bytes, chunks });
        }
    }
    // IcyDraw with an image layer and continuation chunks (hand-built)
    {
        let mut chunks: Vec<icy::Chunk> = vec![("ICED".into(), icy::iced_header(4, 4))];
        let mut img = icy::LayerRec { role: 1, w: 1, h: 1, ..Default::default() };
        let mut d = Vec::new();
        for v in [2i32, 2, 1, 1] {
            d.extend(v.to_le_bytes());
        }
        d.extend(vec![0xFFu8; 8]);
        img.data = d;
        img.declared_len = Some(16 + 16);
        chunks.push(("LAYER_0".into(), img.bytes()));
        chunks.push(("LAYER_0~1".into(), vec![0x80u8; 8]));
        let mut cells = Vec::new();
        cells.extend(icy::short_cell(0, b'A', 7, 0, 0));
        cells.extend(0xC000u16.to_le_bytes());
        let l1 = icy::LayerRec { w: 2, h: 3, data: cells.clone(), ..Default::default() };
        chunks.push(("LAYER_1".into(), l1.bytes()));
        let mut cont = icy::long_cell(0, 0x1F600, 0x8000_0001, 300, 2);
        cont.extend(icy::short_cell(1, b'B', 1, 2, 0));
        chunks.push(("LAYER_1~1".into(), cont));
        chunks.push(("END".into(), vec![]));
        let bytes = icy::build_png(&chunks);
        v.push(Seed { name: "icy hand-built image + continuation".into(), kind: Kind::Icy, bytes, chunks });
    }
    v
}

pub fn faults_for(seed: &Seed, thorough: bool) -> Vec<Fault> {
    let n = seed.bytes.len();
    let mut f = vec![Fault::None];
    // 1. truncations
    if n <= 4096 || thorough {
        f.extend((0..n).map(Fault::Trunc));
    } else {
        f.extend((0..512).map(Fault::Trunc));
        f.extend((512..n.saturating_sub(300)).step_by(16).map(Fault::Trunc));
        f.extend((n.saturating_sub(300)..n).map(Fault::Trunc));
    }
    // 2. single byte replacement: value menu in the header and tail regions, {00,FF} elsewhere (bounded)
    let head = n.min(64);
    let tail_start = n.saturating_sub(133 + 64 * 2);
    for pos in 0..n {
        let in_hdr = pos < head || pos >= tail_start;
        if in_hdr {
            let o = seed.bytes[pos];
            let mut vals = vec![0u8, 1, 0x7F, 0x80, 0xFE, 0xFF, o.wrapping_add(1), o.wrapping_sub(1)];
            vals.sort_unstable();
            vals.dedup();
            for v in vals {
                if v != o {
                    f.push(Fault::Byte(pos, v));
                }
            }
        } else if pos < 1200 || thorough || pos % 37 == 0 {
            for v in [0u8, 0xFF, 0x1B, 0x16] {
                if v != seed.bytes[pos] {
                    f.push(Fault::Byte(pos, v));
                }
            }
        }
    }
    // 3. 16/32 bit fields, little and big endian, at every offset of the first 48 bytes, singly and in pairs
    let hdr = n.min(48);
    for pos in 0..hdr.saturating_sub(1) {
        for v in FIELD16 {
            f.push(Fault::U16(pos, v, true));
            f.push(Fault::U16(pos, v, false));
        }
    }
    for pos in 0..hdr.saturating_sub(3) {
        for v in FIELD32 {
            f.push(Fault::U32(pos, v, true));
            f.push(Fault::U32(pos, v, false));
        }
    }
    let pair_hdr = n.min(if thorough { 32 } else { 20 });
    let pv: &[u16] = if thorough { &[0, 1, 0x7FFF, 0xFFFF] } else { &[0, 1, 0xFFFF] };
    for a in 0..pair_hdr.saturating_sub(1) {
        for b in (a + 2)..pair_hdr.saturating_sub(1) {
            for &x in pv {
                for &y in pv {
                    f.push(Fault::Pair(a, x, b, y));
                }
            }
        }
    }
    // 7. IcyDraw chunk payload faults
    if seed.kind == Kind::Icy {
        for (ci, (_k, payload)) in seed.chunks.iter().enumerate() {
            let pl = payload.len();
            let lim = if thorough { pl } else { pl.min(200) };
            for t in 0..lim {
                f.push(Fault::ChunkTrunc(ci, t));
            }
            for t in (lim..pl).step_by(97) {
                f.push(Fault::ChunkTrunc(ci, t));
            }
            for pos in 0..pl.min(if thorough { 120 } else { 64 }) {
                let mut vals = vec![0u8, 1, 0x7F, 0x80, 0xFF, payload[pos].wrapping_add(1)];
                vals.sort_unstable();
                vals.dedup();
                for v in vals {
                    if v != payload[pos] {
                        f.push(Fault::ChunkByte(ci, pos, v));
                    }
                }
            }
            for pos in 0..pl.min(60).saturating_sub(3) {
                for v in FIELD32 {
                    f.push(Fault::ChunkU32(ci, pos, v));
                }
            }
            f.push(Fault::ChunkDrop(ci));
            f.push(Fault::ChunkDup(ci));
            for name in ["LAYER_9", "LAYER_0~1", "LAYER_7~1", "LAYER_99999999999999999999~1", "FONT_x", "FONT_99999999999999999999", "FONT_0", "SAUCE", "PALETTE", "ICED", "END", "LAYER_", "LAYER_~", "LAYER_0~"] {
                f.push(Fault::ChunkRename(ci, name));
            }
        }
        for p in 0..24u8 {
            f.push(Fault::ChunkPerm(p));
        }
    }
    f
}

fn perm4(mut k: u8) -> [usize; 4] {
    let mut items = vec![0usize, 1, 2, 3];
    let mut out = [0usize; 4];
    for i in 0..4 {
        let f = [6u8, 2, 1, 1][i];
        let idx = (k / f) as usize;
        k %= f;
        out[i] = items.remove(idx);
    }
    out
}

pub fn apply(seed: &Seed, f: &Fault) -> Vec<u8> {
    let mut b = seed.bytes.clone();
    match f {
        Fault::None => {}
        Fault::Trunc(n) => b.truncate(*n),
        Fault::Byte(p, v) => b[*p] = *v,
        Fault::U16(p, v, le) => {
            let x = if *le { v.to_le_bytes() } else { v.to_be_bytes() };
            b[*p..*p + 2].copy_from_slice(&x);
        }
        Fault::U32(p, v, le) => {
            let x = if *le { v.to_le_bytes() } else { v.to_be_bytes() };
            b[*p..*p + 4].copy_from_slice(&x);
        }
        Fault::Pair(p, v, q, w) => {
            b[*p..*p + 2].copy_from_slice(&v.to_le_bytes());
            b[*q..*q + 2].copy_from_slice(&w.to_le_bytes());
        }
        _ => {
            let mut c = seed.chunks.clone();
            match f {
                Fault::ChunkTrunc(i, n) => c[*i].1.truncate(*n),
                Fault::ChunkByte(i, p, v) => c[*i].1[*p] = *v,
                Fault::ChunkU32(i, p, v) => c[*i].1[*p..*p + 4].copy_from_slice(&v.to_le_bytes()),
                Fault::ChunkDrop(i) => {
                    c.remove(*i);
                }
                Fault::ChunkDup(i) => {
                    let x = c[*i].clone();
                    c.insert(*i, x);
                }
                Fault::ChunkRename(i, n) => c[*i].0 = n.to_string(),
                Fault::ChunkPerm(k) => {
                    if c.len() >= 4 {
                        let p = perm4(*k);
                        let first: Vec<icy::Chunk> = p.iter().map(|&i| c[i].clone()).collect();
                        for (i, x) in first.into_iter().enumerate() {
                            c[i] = x;
                        }
                    }
                }
                _ => {}
            }
            b = icy::build_png(&c);
        }
    }
    b
}

/// names the generating table row of a fault (for signatures of aborts / budget cuts)
pub fn fault_class(f: &Fault) -> &'static str {
    match f {
        Fault::None => "unchanged",
        Fault::Trunc(_) => "truncation",
        Fault::Byte(..) => "byte",
        Fault::U16(..) => "u16-field",
        Fault::U32(..) => "u32-field",
        Fault::Pair(..) => "u16-field-pair",
        Fault::ChunkTrunc(..) => "chunk-truncation",
        Fault::ChunkByte(..) => "chunk-byte",
        Fault::ChunkU32(..) => "chunk-u32-field",
        Fault::ChunkPerm(_) => "chunk-order",
        Fault::ChunkDrop(_) => "chunk-dropped",
        Fault::ChunkDup(_) => "chunk-duplicated",
        Fault::ChunkRename(..) => "chunk-renamed",
    }
}
