//! Counting global allocator. Exact, load independent memory measurements for C03/C20
//! and a hard cap that turns "allocate gigabytes" into a clean, attributable worker exit.

use std::alloc::{GlobalAlloc, Layout, System};
use std::sync::atomic::{AtomicU64, AtomicUsize, Ordering::Relaxed};

pub struct Counting;

static LIVE: AtomicUsize = AtomicUsize::new(0);
static PEAK: AtomicUsize = AtomicUsize::new(0);
static NALLOC: AtomicU64 = AtomicU64::new(0);
static TOTAL: AtomicU64 = AtomicU64::new(0);
/// live-bytes cap; exceeding it ends the worker with exit code 5 (see worker.rs)
static CAP: AtomicUsize = AtomicUsize::new(usize::MAX);

pub const EXIT_MEM: i32 = 5;

#[inline]
fn on_alloc(size: usize) {
    let live = LIVE.fetch_add(size, Relaxed) + size;
    NALLOC.fetch_add(1, Relaxed);
    TOTAL.fetch_add(size as u64, Relaxed);
    if live > PEAK.load(Relaxed) {
        PEAK.store(live, Relaxed);
        if live > CAP.load(Relaxed) {
            crate::worker::die(EXIT_MEM);
        }
    }
}

unsafe impl GlobalAlloc for Counting {
    unsafe fn alloc(&self, l: Layout) -> *mut u8 {
        on_alloc(l.size());
        System.alloc(l)
    }
    unsafe fn alloc_zeroed(&self, l: Layout) -> *mut u8 {
        on_alloc(l.size());
        System.alloc_zeroed(l)
    }
    unsafe fn dealloc(&self, p: *mut u8, l: Layout) {
        LIVE.fetch_sub(l.size(), Relaxed);
        System.dealloc(p, l)
    }
    unsafe fn realloc(&self, p: *mut u8, l: Layout, new: usize) -> *mut u8 {
        if new > l.size() {
            on_alloc(new - l.size());
        } else {
            LIVE.fetch_sub(l.size() - new, Relaxed);
        }
        System.realloc(p, l, new)
    }
}

#[derive(Clone, Copy, Debug, Default)]
pub struct Snapshot {
    pub live: usize,
    pub peak: usize,
    pub nalloc: u64,
    pub total: u64,
}

pub fn set_cap(bytes: usize) {
    CAP.store(bytes, Relaxed);
}

/// Start a measurement window: peak is reset to the current live size.
pub fn begin() -> Snapshot {
    let live = LIVE.load(Relaxed);
    PEAK.store(live, Relaxed);
    Snapshot {
        live,
        peak: live,
        nalloc: NALLOC.load(Relaxed),
        total: TOTAL.load(Relaxed),
    }
}

/// (peak bytes above the start of the window, allocations, bytes allocated) since `s`.
pub fn since(s: &Snapshot) -> (usize, u64, u64) {
    (
        PEAK.load(Relaxed).saturating_sub(s.live),
        NALLOC.load(Relaxed) - s.nalloc,
        TOTAL.load(Relaxed) - s.total,
    )
}
