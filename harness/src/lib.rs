//! Common machinery for the bounded-exhaustive checks of icy_engine.
//!
//! * counting global allocator (peak live bytes, allocation counts, hard cap)
//! * panic capture with a stable call-site signature
//! * worker protocol: sharded deterministic case enumeration, progress cell in a
//!   shared mmap so the supervisor can find the culprit of an abort / timeout,
//!   per-case CPU watchdog, JSON-lines result file
//!
//! Every engine binary (`src/bin/px_*.rs`) implements [`Engine`] and calls [`worker_main`].

pub mod alloc;
pub mod doc;
pub mod emu;
pub mod fault;
pub mod icy;
pub mod panics;
pub mod worker;

#[global_allocator]
static GLOBAL: alloc::Counting = alloc::Counting;

pub use panics::{catch, PanicRec};
pub use serde_json::{json, Value};
pub use worker::{worker_main, Ctx, Engine};

/// FNV-1a 64 bit, used for observable-state fingerprints (never for pruning).
#[derive(Clone, Copy)]
pub struct Fnv(pub u64);

impl Default for Fnv {
    fn default() -> Self {
        Fnv(0xcbf2_9ce4_8422_2325)
    }
}

impl Fnv {
    pub fn new() -> Self {
        Self::default()
    }
    #[inline]
    pub fn u8(&mut self, b: u8) {
        self.0 ^= b as u64;
        self.0 = self.0.wrapping_mul(0x0000_0100_0000_01b3);
    }
    #[inline]
    pub fn u32(&mut self, v: u32) {
        for b in v.to_le_bytes() {
            self.u8(b);
        }
    }
    #[inline]
    pub fn u64(&mut self, v: u64) {
        // one multiply per word is enough for a fingerprint
        self.0 ^= v;
        self.0 = self.0.wrapping_mul(0x0000_0100_0000_01b3);
        self.0 ^= self.0 >> 29;
    }
    #[inline]
    pub fn i32(&mut self, v: i32) {
        self.u64(v as u32 as u64);
    }
    pub fn bytes(&mut self, b: &[u8]) {
        for x in b {
            self.u8(*x);
        }
    }
    pub fn str(&mut self, s: &str) {
        self.bytes(s.as_bytes());
        self.u8(0xff);
    }
    pub fn finish(&self) -> u64 {
        self.0
    }
}

/// Mixed-radix decoder for enumerating products deterministically.
pub struct Radix(pub u64);
impl Radix {
    #[inline]
    pub fn take(&mut self, n: u64) -> u64 {
        let r = self.0 % n;
        self.0 /= n;
        r
    }
}

pub fn bytes_to_json(b: &[u8]) -> Value {
    // printable representation + exact hex
    let mut s = String::new();
    for &c in b {
        match c {
            0x1b => s.push_str("\\e"),
            b'\\' => s.push_str("\\\\"),
            0x20..=0x7e => s.push(c as char),
            _ => s.push_str(&format!("\\x{c:02x}")),
        }
    }
    let hex: String = b.iter().map(|c| format!("{c:02x}")).collect();
    json!({"text": s, "hex": hex})
}

pub fn hex_to_bytes(s: &str) -> Vec<u8> {
    let s = s.as_bytes();
    let mut v = Vec::with_capacity(s.len() / 2);
    let mut i = 0;
    while i + 1 < s.len() {
        let h = (s[i] as char).to_digit(16).unwrap_or(0) as u8;
        let l = (s[i + 1] as char).to_digit(16).unwrap_or(0) as u8;
        v.push(h << 4 | l);
        i += 2;
    }
    v
}

pub fn json_bytes(v: &Value) -> Vec<u8> {
    hex_to_bytes(v["hex"].as_str().unwrap_or(""))
}
