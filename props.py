"""Per-property configuration of the supervisor (/verif/check)."""

PROPS = {
    "C01": {
        "bin": "px_stream", "budget_ms": 30000, "wall_cap": {"quick": 600, "thorough": 1800},
        "rule": "stateless sequence exploration: every sequence of d tokens (d<=3) over the per-emulation alphabets (all 256 bytes, the complete CSI final x intermediate x parameter table, "
                "ESC/DCS/OSC/APS/music/native command tokens, every proper prefix of every token) from every reachable start context (byte prefixes) on the listed screen sizes; plus long histories made small by the macro sub-language (a macro of 5000 empty sixel sequences invoked 12 times, a macro of 2000 small images invoked 20 times, 45000 empty sixel sequences without a macro: resources held per sequence must not add up); "
                "non-trivial = the run produced at least one error value or panic; states = distinct observable end states (caret, terminal state, cells)",
        "level_text": "all token sequences up to the stated depth are run on the real parsers, one character at a time under catch_unwind, in killable worker processes; no sampling",
        "level_note": "covers sequences of <=3 tokens beyond a context (contexts are themselves byte prefixes); characters are U+0000..U+00FF; cases cut by the CPU budget belong to C03 and are not judged here",
        "technique": "bounded exhaustive (stateless) exploration of operation sequences on the implementation, depth-bounded, with non-initial start states",
        "assumptions": ["a case cut by the per-case CPU/memory budget is counted as cut (C03's subject), not judged"],
    },
    "C02": {
        "bin": "px_load", "budget_ms": 5000, "wall_cap": {"quick": 600, "thorough": 1800},
        "rule": "seed files written by the engine's own writers for 13 extensions (3 documents, with/without SAUCE, 0/1/255 comments, compression on/off; a compressed iCE Draw file whose last record is a run) plus hand-built streams, fonts (PSF1, PSF2, raw), TheDraw fonts and bundles, 5 palette formats, "
                "bare SAUCE records, clipboard data and IcyDraw files kept as chunk lists; per seed every truncation point, a value menu at every header/tail byte, every 16/32-bit field (LE and BE) of the first 48 bytes set to extremes singly and in pairs, "
                "IcyDraw chunk payload truncations / byte and field faults / reorderings / renames with the PNG container kept valid; every prefix <= 64 bytes of every seed under 24 extensions; all byte strings of length <= 2 under every extension and extractor; "
                "a deviation-bounded product of SAUCE tails; control-token streams (depth <= 2) as files of the 8 text formats; odd file names; PSF2 headers whose (headersize, length, charsize) solve the loader's length equation under signed / unsigned / wrapping readings of 14 extreme operand values (cooperating fields); ANSI files with three / four sixel images of which a later one covers two earlier ones; explicit files: fonts of degenerate size loaded by the file itself followed by a sixel image, sparse cursor jumps and line inserts under SAUCE records with extreme heights, IcyDraw layer records with extreme 64 bit lengths; the binary palette constructors and all six palette formats. non-trivial = the loader accepted the input",
        "level_text": "every fault of the stated menus is applied to every seed and loaded by the real loaders and extractors under catch_unwind in killable worker processes",
        "level_note": "faults are single and pairwise (not arbitrary multi-byte corruption); cases cut by the CPU/memory budget are counted, the header-extreme strata are judged under C03's budget by the C03 check",
        "technique": "exhaustive fault enumeration (truncation points, corruption menus, field extremes) over a seed corpus on the implementation",
        "level": "model_checking",
        "assumptions": ["a case cut by the per-case CPU/memory budget is counted as cut (C03's subject), not judged"],
    },
    "C03": {
        "bin": "px_cost", "parts": [{"bin": "px_cost"}, {"bin": "px_load"}], "budget_ms": 3000, "mem_cap_mb": 1024, "judge_budget": True, "wall_cap": {"quick": 600, "thorough": 1800},
        "rule": "complete control-function table: CSI final 0x40..0x7E x 8 intermediates x parameter tuples of length 0..6 over {1,0,H,W,2^16,10^6,2^31-1} with <=2 (thorough <=3, full for <=4 parameters) "
                "positions different from 1, in 5 start contexts (fresh, scrollback, top/bottom margins, all margins, and the non-terminal buffer the file loaders use) on 80x25 and 132x60, a second family 'state-setting command then work probe' (every row with <=1 parameter away from its default, resize / margin pairs of extremes, followed by 9 probes whose cost is bounded by the state left behind) in the terminal and the file-loader context; plus explicit shape lists (DCS macro repeat / recursion shapes, macros made of 64 / 4000 / 65535 commands that each do a screen of work (REP IL DL ICH DCH ECH SD SU DECFRA ED DECERA LF CUD RI, raster-only sixel images followed by cursor right / form feed / clear screen, printing in insert mode without autowrap), a macro redefined as 8 copies of itself over 1..=8 rounds, macros under huge ids followed by the macro-space reports, sixel raster/repeat/colour headers, Avatar repeat and goto byte pairs, "
                "PSF1/PSF2/raw font payload headers, music/OSC/SGR numbers); per case CPU, peak heap and allocation-scaling are measured in the worker; non-trivial = the input made the engine allocate",
        "level_text": "every row of the control-function table (deviation-bounded) and every listed header shape is executed on the real parsers under a counting allocator and a CPU clock; nothing is sampled",
        "level_note": "limits: 0.5 s CPU and 64 MiB peak live heap per input (legitimate work measured at <1 ms / <3 MiB); the file-header part of the property is covered by the C02 fault engine's header-extreme stratum under the same limits",
        "technique": "exhaustive enumeration of a deviation-bounded parameter table on the implementation with a resource-usage oracle (deterministic allocation counts + CPU budget)",
        "assumptions": ["boundedness is judged by a fixed budget on two screen sizes, not by fitting a polynomial"],
    },
    "C04": {
        "bin": "px_text", "budget_ms": 30000, "wall_cap": {"quick": 600, "thorough": 1800},
        "rule": "documents: all rows of width 1..=3 (thorough 4) over an 8-cell alphabet with SAUCE carrying the width (also as 1- and 2-row documents); width 80 rows prefix(<=2 cells).filler.suffix(<=2 cells) with 3 fillers (runs starting at column 0 and ending at 78/79); "
                "all ordered pairs of a ~28-cell extended alphabet (RGB and xterm colours, bold flag, bright backgrounds, every extended attribute the writer emits, blank variants 0/255, control characters under IcyTerm handling) under 27 (screen preparation x control handling x colour mode) x 5 encoding variants; "
                "runs of length 1..=8 of every extended cell at four row placements under these vectors (+ repeat sequences without cursor forward); a 9-row core set under every one of the 6912 option vectors; framed rows at SAUCE widths 81 / 100 / 132; framed rows and all ordered pairs of 24 cells under 3 palettes whose colours sit at other positions (entry 0 blue / an RGB colour, DOS colours permuted) x 3 colour modes; cells with a blink flag in ice colour buffers; rows starting with the characters EF BB BF; text rows separated by 1..58 rows of blanks in several attributes (written as cursor movements), bold cells of every dark colour under a palette whose bright entries differ from the DOS ones, a canvas one row taller than its layer, blinking blanks inside the trailing run of blanks; the row families under every vector within 1 (thorough 2) option of the default; heights {1,2,25,60} x widths {1,2,79,80,81,132}. oracle: same character, displayed fg (non-blank glyphs), bg and blink per cell",
        "level_text": "every document of the stated small scope and every option vector (6912) on a core set is written by the real ANSI writer, parsed by the real loader and compared cell by cell",
        "level_note": "foreground is not compared on blank glyphs; 0/32/255 compare as equal blanks only when whitespace normalisation is on; rows below the writer's last non-blank row may be missing; UTF-8 'modern terminal' output excluded by the statement",
        "technique": "small-scope exhaustive input x configuration enumeration (deviation-bounded product for the wide option space) with a round-trip oracle",
        "assumptions": [],
    },
    "C15": {
        "bin": "px_text", "budget_ms": 30000, "wall_cap": {"quick": 600, "thorough": 1800},
        "rule": "per format (avt, pcb, msg, an1, asc, ata): prefix(<=2, thorough 3).filler.suffix rows over an 8-cell alphabet at width 80 (40 for ATASCII), every row length 0..=width at heights {1,2,25,40} with a non-empty last row, "
                "every printable character (single and doubled, minus each format's lead-in characters; ATASCII: minus ESC and the four cursor codes only, every character also inverse and between inverse / normal neighbours), documents that start like a UTF-8 byte order mark and are valid UTF-8, every ordered pair of (fg 0..15, bg 0..7) attributes, all three screen preparations",
        "level_text": "every document of the stated small scope is written by the real writers, parsed by the real loaders and compared cell by cell",
        "level_note": "blink is not compared (the statement lists characters, 16 foreground and 8 background colours only); blank cells on black after the end of a row are not significant; ASCII compares characters only, ATASCII characters and inverse video",
        "technique": "small-scope exhaustive input enumeration with a round-trip oracle",
        "assumptions": [],
    },
    "C05": {
        "bin": "px_binfmt", "budget_ms": 30000, "wall_cap": {"quick": 600, "thorough": 1800},
        "rule": "per format (xb, bin, adf, idf, tnd): dimension menus combined with <=2 (thorough 3) deviations from a base document (XBin: 7 widths x 6 heights x 7 font set-ups x palette x blink/ice x compression), "
                "pair sweeps in which every (character, attribute byte) pair occurs, all rows of width <=3 over an 8-cell alphabet; each document saved by the real writer, loaded by the real loader and compared cell by cell, "
                "and the saved bytes decoded by independent decoders written from the specification files (XBin, BIN, ADF, IDF); 17 special documents per format (canvas larger than its layer, layer moved off, bold on every colour, default font edited in place, SAUCE width limit); the loaded colour mode is compared exactly (blink / ice, not the third mode); re-save stability over every truncation / header corruption / 16-bit field extreme of 14 seed files, incl. a save with default options - a writer that refuses a file its loader accepted is a violation",
        "level_text": "every document of the stated small scope is round-tripped through the real writers and loaders and cross-checked against spec-derived reference decoders; every faulted seed file that a loader accepts is re-saved and re-loaded",
        "level_note": "Unlimited colour mode is outside the domain (no binary format can return it); blinking cells only in blink-mode buffers and backgrounds 8..15 only in ice buffers; BIN only with SAUCE, ADF only width 80, Tundra/IDF/ADF only ice",
        "technique": "small-scope exhaustive input enumeration with a round-trip oracle and an independent reference decoder (model) whose output is compared with the implementation on every case",
        "assumptions": ["reference decoders were written from doc/FileFormats (x_bin.htm, ArtworxDataFormat.txt, idv_103.pas)"],
    },
    "C06": {
        "bin": "px_binfmt", "budget_ms": 30000, "wall_cap": {"quick": 600, "thorough": 1800},
        "rule": "all rows of width 1..=5 (thorough 6) over 3 chars x 3 attributes x 2 font pages, all rows of width 6..=7 (thorough 9) over a 2x2x2 alphabet, rows of width 60..=70 and 124..=135 that are concatenations of <=3 runs of 4 kinds at every "
                "listed split point (both sides of the 64-cell limit), identical adjacent rows; each row saved compressed and uncompressed by the real writer, both loaded by the real loader, the compressed stream decoded by a decoder written from x_bin.htm; second generation (the loaded picture saved compressed again through the spec decoder); 24 documents built in several steps (second opaque / alpha / hidden layer, moved base layer)",
        "level_text": "every row of the stated alphabets and widths is encoded by the real compressor; both encodings are decoded by the real loader and the compressed stream by an independent spec decoder",
        "level_note": "rows are batched 190 per buffer plus a sentinel row that keeps both font pages in use; the statement's random buffers are replaced by the structured long-row family",
        "technique": "exhaustive enumeration of all inputs up to a size bound against an independent reference decoder and a differential (compressed vs uncompressed) oracle",
        "assumptions": [],
    },
    "C08": {
        "bin": "px_editor", "budget_ms": 30000, "wall_cap": {"quick": 600, "thorough": 1800},
        "rule": "every history of length <=2 (thorough <=3) over ~100 operation instances (every public editing operation with in-range and boundary arguments, selection set-up, current-layer / caret set-up steps, atomic groups incl. nesting) "
                "on 7 start documents (1 layer; offset alpha layer; hidden + locked layers; a shrunk layer with hidden content; custom palette + second font + chars layer + SAUCE; a tall layer with lazily stored rows and the caret on its last row; "
                "an alpha locked current layer + 3 fonts + a SAUCE record whose size fields differ from the buffer), plus 576 explicit histories one step longer than the searched depth (optional clear_layer; an operation recorded as a layer snapshot; a row / column operation; an operation whose redo puts back cloned layers) whose undo / redo walks change the physical row storage between a redo and the next undo; per history: undo step by step down to the start comparing an observational "
                "snapshot at every operation boundary, redo back up comparing again, undo/redo interleavings of length <=4 from the top, and 'new edit after undo discards redo' with every operation of the alphabet as the new edit (h1..hn-1, undo, hn). non-trivial = the history grew the undo stack",
        "level_text": "all edit histories up to the depth bound are executed on the real EditState and every undo / redo walk inside them is compared with snapshots recorded on the way up (differential oracle, no hand-written expected values)",
        "level_note": "an operation that returns Err or panics ends the history before it (the statement quantifies over operations that report success); selection, caret and dirty flags are not part of the document; the statement's random length-40 histories are not claimed",
        "technique": "explicit-state search over operation histories (bounded depth, non-initial start states) with a differential snapshot oracle on every undo/redo transition",
        "assumptions": [],
    },
    "C09": {
        "bin": "px_stream", "budget_ms": 1500, "wall_cap": {"quick": 600, "thorough": 1800},
        "rule": "same explorer as C01 minus text-area resize tokens, plus every token pair repeated until 3*H line changes happened (deterministic replacement of the random scrollback-filling streams); a stratum of control sequences with resize-like parameters ended by every byte except t, followed by every printable byte (by the grammar of control sequences none of them requests a resize: a resize there is a violation); "
                "invariant monitor after every character; non-trivial = the run produced at least one error value; states = distinct observable end states",
        "level_text": "invariant (cursor inside the visible window; fixed 40x24 grid for Viewdata/Mode 7) evaluated after every character of every explored sequence on the real parsers",
        "level_note": "depth <=3 tokens beyond a context; monitoring stops after a ResizeTerminal action; W,H are read from TerminalState and must stay what the emulation was started with, first visible line from Buffer",
        "technique": "bounded exhaustive exploration of operation sequences with an invariant monitor on every transition",
        "assumptions": ["a case cut by the per-case CPU/memory budget is counted as cut (C03's subject), not judged"],
    },
    "C07": {
        "bin": "px_icy", "budget_ms": 30000, "mem_cap_mb": 2048, "wall_cap": {"quick": 600, "thorough": 1800},
        "rule": "documents: a two-layer base document varied in every single dimension, every pair of dimensions and every triple of dimensions (quick: the triples with <=100 combinations; thorough: all 255 000 triples) over 19 dimensions - layer count 1..=6, layer size "
                "{0x0,1x1,2x2,3x1,200x2,1x120,0x2,2x0,200x120}, offsets {-50,-1,0,2,50}, all 32 flag combinations of a normal and of the base layer, 3 modes, colour tag, transparency {0,1,255}, default font page {0,255,300} (with and without a font in that slot), image layers (a picture at offsets (0,0) (1,1) (-1,0) (3,2) (0,-1); role image with its picture removed; a picture and visible cells on the same layer - the one listed known finding), "
                "titles (empty, Unicode incl. astral, 300 chars, embedded NUL), 5 buffer types, 3 ice modes, 4 palette modes, 4 font modes, palettes of 16/1/17/300 colours, the first 8 DOS colours and black alone (strict prefixes of the default palette), font slots {0}/{0,1}/{0,255,300}/{0: default font edited in place}/{5} only with every cell on page 5/{0: a font declaring 9 pixels width}, a palette with equal neighbouring entries, SAUCE none/plain/with comments and a 1996 date (the date is compared), "
                "buffer sizes up to 200x120; cells: every row of length 0..=4 over 8 cell kinds (short, long char, long colour, long font page, invisible, invisible with a character / colours / other flags, transparent fg, transparent bg) in layers of width len, len+1, len+3 (row terminator placement); "
                "non-trivial = every document (all contain visible cells)",
        "level_text": "every document of the stated small scope is saved by the real Buffer::to_bytes(\"icy\", lossless) and loaded by the real Buffer::from_bytes and compared field by field",
        "level_note": "invisible cells compare as invisible only; documents referencing a font page without a font or a colour beyond the palette are excluded as the statement excludes them",
        "technique": "small-scope exhaustive input enumeration (pairwise- and, in the thorough tier, triple-complete over document dimensions, complete over cell rows up to length 4) with a round-trip oracle on the implementation",
        "assumptions": [],
    },
    "C10": {
        "bin": "px_unicode", "parts": [{"bin": "px_unicode"}, {"bin": "px_icy"}], "budget_ms": 20000, "wall_cap": {"quick": 600, "thorough": 1800},
        "rule": "complete value domains: fill-rectangle character parameter (quick: all values < 2^22 plus every 2^k, 2^k+-1, surrogate / 0x10FFFF boundaries and the saturation values; thorough: all 2^31 reachable values), "
                "all 65536 16-bit clipboard character values, PSF2/PSF1/raw glyph tables up to 2^17 glyphs, all 256^2 hex macro byte pairs (macro invoked), hex macro repeat groups of bytes >= 0x80 that overflow the macro space at even and odd offsets, IcyDraw long-form cell character fields (surrogate bounds, every 2^k and 2^k+-1 for k=8..31, values beyond U+10FFFF; in a first and in a continuation chunk) and every 1-byte and ~4400 2-byte strings as layer title and font name in hand-built IcyDraw chunk streams behind headers of every buffer type; DECFRA values around the surrogate range / the font table end / U+10FFFF with a 2^17 glyph font loaded by DCS and selected; every Unicode scalar as first and as second character of a hex macro pair; "
                "non-trivial = batch touches the surrogate range / hex digits / a glyph table",
        "level_text": "every value of each input-derived character conversion is pushed through the real code and the stored cells, glyph keys and strings are inspected",
        "level_note": "an invalid char is observed as its raw bits (debug assertions off); reading one is already UB, so a finding means 'materialised', silence means 'not materialised on any explored value'",
        "technique": "exhaustive enumeration of finite value domains on the implementation with a validity invariant on every stored cell / key / string",
        "assumptions": ["characters are inspected through `ch as u32` in an optimised build without debug assertions"],
    },
    "C11": {
        "bin": "px_sauce", "budget_ms": 30000, "wall_cap": {"quick": 600, "thorough": 1800},
        "rule": "per writer that appends SAUCE (ans, asc, avt, pcb, bin, xb, tnd, adf, idf, icy): title/author/group of every length 0..=LEN, LEN+1, LEN+5 x 7 content classes (letters, trailing blank, trailing NULs, inner NUL, leading blank, "
                "high CP437 / control glyphs, all blanks); every comment count 0..=255 (line lengths cycling 0..=64, lines carrying SAUCE00 / COMNT / EOF bytes); every comment line length 0..=64, 65, 70 x 7 classes as only / second line; "
                "all 8 flag combinations x (no font + the 16 SAUCE font names), also with an attached record that disagrees with the buffer about ice colours; second generation in the same format and cross-format second generation (saved as X, loaded, saved as every other format Y, loaded); every width 1..=1000 the format can hold (bin / idf: every width 1..=510, odd ones included - a width the BinaryText record cannot store has to be refused by the writer); letter spacing / aspect ratio expected from the ANSi, ASCII and BinaryText variants; a loaded file whose font is changed afterwards names the new font in its next record; an empty title / author / group comes back empty; split: engine-written and hand-made contents (empty, 1 byte, 127/128/129 bytes, endings CR LF / EOF / SAUCE00 / COMNT / EOF SAUCE, "
                "a complete inner SAUCE record; for ans / avt: cursor jumps below the first screen, cursor down 30 lines, scrolling, margins taken from the screen height, erase down / erase in line in colour, insert line, 29 line feeds) x records declaring the height of the content, a taller and a one line picture x comment counts (all 0..=255 on the engine document; {0,1,2,3,254,255} on the others, thorough all) x 2 comment styles appended by a reference SAUCE writer; non-trivial = every loadable case",
        "level_text": "every value of each SAUCE field dimension (lengths, counts, flags, fonts, widths) is written by the real writers and read back by the real loader; every listed content x comment count is split by the real extractor and the pictures compared",
        "level_note": "string fields compare by what a fixed-width padded field can carry (trailing blanks / NULs are padding; a zero-terminated field ends at its first NUL); pictures compare cell by cell, the taller buffer may only have blank rows more",
        "technique": "exhaustive enumeration of finite field domains (lengths, counts, flag sets, widths) on the implementation with a round-trip oracle and a metamorphic content-vs-content+SAUCE oracle using an independent reference SAUCE writer",
        "assumptions": ["string contents are 7 classes per length, not all 256^LEN strings"],
    },
    "C12": {
        "bin": "px_layers", "budget_ms": 30000, "wall_cap": {"quick": 600, "thorough": 1800},
        "rule": "every glyph 0..255 of every built-in font page 0..=42 as the middle cell of 3-cell rows with neighbours from {0, 32, 255, 219, 'A'}, 8 colour contexts (incl. bright, equal fg/bg and an extra palette colour), bold on/off, "
                "both settings of normalize_whitespaces; every glyph that is blank in its own page between cells of another font page (every page x 3 other pages; one row in which the three cells differ in the font page only); all stacks of 2 (thorough 3) layers of the small layer menu (alpha / offset / hidden / chars / attributes layers) above a base layer in 6 states (plain, hidden, locked, moved, alpha, only its first row stored) and below a small floating layer low in the document for the flattening step; a copy of each page font with its blank glyphs edited in place (stale checksum) next to the original; 8 special documents (colours encoded as RGB values incl. RGB black x bold x 5 glyph kinds on an alpha / opaque layer, with / without an alpha layer beneath, with / without a default font page of another cell height, unfilled last row and column); 27 font tables other than a font in slot 0 (every subset of the slots {0, 2, 5} incl. the empty table x an 8x8 or 8x16 font in each occupied slot, cells on all three pages whether or not a font is behind the page); "
                "oracle: byte-identical render_to_rgba of input and ColorOptimizer::optimize(input), same size. non-trivial = one middle glyph / one stack",
        "level_text": "the complete glyph range of all built-in fonts and the complete small layer-stack scope are pushed through the real optimiser and renderer and compared pixel for pixel",
        "level_note": "the optimiser is a left-to-right fold over the previous cell's attribute, so 3-cell rows determine its behaviour; the primary font slot is set to the page under test so that the renderer draws every glyph row",
        "technique": "small-scope exhaustive input enumeration with a differential (render before / after) oracle on the implementation",
        "assumptions": [],
    },
    "C13": {
        "bin": "px_layers", "budget_ms": 30000, "wall_cap": {"quick": 600, "thorough": 1800},
        "rule": "all stacks of 1 and 2 layers over the rich layer menu (3 sizes x 4 offsets x 3 modes x alpha x visible x up to 15 contents incl. transparent-colour half blocks, visible NUL and invisible cells) and all stacks of 3 (thorough 4) layers over the small menu; "
                "laws L1-L10 (L1: empty alpha layer of every mode and with its own default font page anywhere; L4: an opaque layer of every mode hides what is beneath; L6: a layer placed with set_offset after a preview offset; L7: row storage - trailing rows not stored / rows stored beyond the height; L8: topmost first among chars / attributes layers; L9: invisible cells of alpha layers that hold a character, colours and other flags; L10: the visible cell of a topmost normal layer is shown, every colour of it that is not the transparent colour; L11: the layers beneath any split point can be replaced by one layer that holds what they display; L12: every displayed colour is held by some cell of the stack - bold bright and bold dark cells are part of the contents) and the reference compositor R evaluated on every stack at every position of the bounding box + 2 cells; non-trivial = the stack shows at least one visible cell",
        "level_text": "the complete small scope of layer stacks is composited by the real Buffer::get_char and checked against metamorphic stacking laws and a reference compositor transcribed from the statement",
        "level_note": "invisible results compare as invisible only; the reference compositor applies to normal-mode layers without transparent colours, the laws to all stacks",
        "technique": "small-scope exhaustive enumeration with metamorphic oracles and a reference model compared on every case",
        "assumptions": [],
    },
    "C14": {
        "bin": "px_sixel", "budget_ms": 20000, "case_wall_ms": 60000, "judge_budget": True, "mem_cap_mb": 3072, "wall_cap": {"quick": 600, "thorough": 1800},
        "rule": "payloads: every string of <=5 (thorough 6) tokens over a 16-token sixel alphabet through Sixel::parse_from (oracles: 4wh bytes; one declaration before the data -> the image is the data rectangle or the declared rectangle, not a mix; a three parameter declaration declares the width only; without declaration every set pixel is inside); schedules: every interleaving of in-order arrivals, "
                "any-order completions (decode threads held at the cfg gate and released one by one) and 0..P polls in every gap for k<=4 images in flight x image-to-arrival assignments, "
                "the count cross-checked against an independent DP; oracle after every poll against a sequential reference model, incl. the returned updated flag against what the poll put on the screen; the same images as an .ans file (every arrival order of 1..=4 images): image layers bottom to top in arrival order; non-trivial = payload sets at least one pixel / every schedule",
        "level_text": "all schedules of the polling protocol for k<=4 in-flight decodes are executed on the real spawn/queue/poll code under a harness-owned gate, and all payloads up to the depth bound are decoded by the real decoder",
        "level_note": "the gate hook (cfg icy_engine_verif) shadows the DCS string inside execute_dcs; decode completion is observed through JoinHandle::is_finished of the public queue; no memory-model interleavings are claimed (no shared mutable state between decode and poller)",
        "technique": "exhaustive schedule enumeration (completion orders x poll placements) of real threads under a controlled gate + bounded exhaustive payload enumeration against a reference model",
        "assumptions": ["font cell is 8x16 px (default font) for the covering relation", "a poll whose thread sleeps for 3 s without interruption while a decode is still held, and that then comes back with that decode, counts as blocking"],
    },
    "C16": {
        "bin": "px_palette", "budget_ms": 20000, "wall_cap": {"quick": 600, "thorough": 1800},
        "rule": "histories: every sequence of <=4 operations over 18 insert/set instances (a colour already present, new colours, indices 0, 5, len, len+2) from 4 start palettes (empty, DOS 16, 300 colours with a duplicate, named colours), "
                "oracle after every step; every sequence of <=3 (thorough 4) colour-selecting control functions (incl. OSC 4 slot redefinition of slots 1, 16, 17 and 255, the 16 colour SGR codes, and 15 malformed colour requests - no index, empty index, index beyond the table, components above 255, a selector that is neither foreground nor background - which must leave palette and current colours as they are) through the real ANSI parser with a character printed after each (earlier cells must keep their colour); "
                "files: 5 formats x (n=1: all 343 colours over 7 levels x 8x8 title/description texts (two of them with line breaks followed by what looks like a colour line) x 2 authors x names on/off; n in {0,2,16,17,256,300} x 8 descriptions x names on/off; thorough: all 2^24 colours) ; all 64^3 six-bit colours; 16 colour palettes of six bit exact colours through xb / adf / idf files (every entry, also the last)",
        "level_text": "all operation histories up to the depth bound and the complete small-scope file menu are executed on the real Palette / parser / exporters / importers and compared with a list-of-RGB reference",
        "level_note": "'returns its existing index' is read as: an index that already resolved to that RGB before the call; Ase format is not implemented in the engine (todo!) and outside the five named formats",
        "technique": "bounded exhaustive exploration of operation histories against a reference model + complete small-scope round-trip enumeration",
        "assumptions": [],
    },
    "C17": {
        "bin": "px_fonts", "budget_ms": 30000, "wall_cap": {"quick": 600, "thorough": 1800},
        "rule": "bitmap fonts: every height 1..=32 x (6 (thorough 12) synthetic seeds whose glyph rows take every byte value, a rotation font, constant fonts 0x00/0xFF/0x1B/0x36) + every built-in font page 0..=42 + the default glyphs under another name and under their own name with a glyph edited in place + fonts whose first glyph starts with the PSF1 / PSF2 magic numbers (3 kinds x every height) + the 16 SAUCE fonts, each through "
                "PSF2 (incl. rewrite stability), raw data via create_8 / from_basic / from_bytes, the DCS font sequence into slots 0/1/42/255 through the ANSI parser and a slot redefined three times within one session, also directly after other string-type sequences (macro, sixel, OSC, APS), XBin (1 and 2 fonts, compressed and not), ADF, IDF and IcyDraw (1 and 2 fonts), and ADF / IDF / XBin documents whose cells all use font page 1 (refused, or the font of that page comes back); "
                "512-glyph PSF2 fonts of every height; TheDraw: every glyph size 1..=30 x 1..=12 x 3 types x 4 row styles, every number 0..=94 of defined glyphs x 3 placements x 3 types, names of 0..=12 characters, spacing 0..=40, "
                "every number 40..=94 of maximal glyphs (glyph data around and beyond the 64 KiB a 16 bit offset reaches), bundles of 1..=34 mixed fonts x 3 type rotations; non-trivial = every font",
        "level_text": "every font of the stated small scope is pushed through every real encoder / decoder pair and compared bit by bit; TheDraw fonts are compared by name, type, spacing, has_char, rendered glyphs and re-serialised bytes",
        "level_note": "raw data that begins with a PSF magic number is ambiguous by construction and is not fed to BitFont::from_bytes; TheDraw glyph tables are private, glyph data is observed by rendering every glyph and by re-serialising",
        "technique": "small-scope exhaustive input enumeration over font geometry and glyph-table layouts with round-trip oracles on the implementation",
        "assumptions": ["glyph byte patterns are a few synthetic families covering every byte value per row position, not all 256^(256h) fonts"],
    },
    "C18": {
        "bin": "px_finite", "max_shards": 4,
        "rule": "complete enumeration of 3x256 attribute bytes, all (fg,bg,blink,bold) tuples expressible in each mode, 4x256 code page codes (round trip claimed for all CP437 codes, the 128 ATASCII base codes and the printable Viewdata codes 0x21..=0x7E), 4x63 typed characters; every code round trip with every other code conversion interleaved and every typed-character round trip after every other lookup (all ordered pairs of calls - the converters are used as pure functions); "
                "distinct_nontrivial = distinct (input, decoded value) fingerprints",
        "level_text": "the whole finite domain is enumerated on the real code: 3x256 attribute bytes, every expressible (fg,bg,blink,bold) tuple per mode, 4x256 code-page codes, 4x63 typed characters",
        "level_note": "trusts the harness's reading of 'expressible' (what from_u8 decodes) and compares displayed foreground (bold folded)",
        "technique": "exhaustive enumeration of a finite input domain on the implementation (explicit-state, no sampling)",
        "assumptions": ["'same foreground' is read as displayed foreground (bold folded into bit 3), the weakest reading of the statement",
                        "Blink/Unlimited bytes express background 0..7 + blink, Ice bytes background 0..15 without blink (what from_u8 decodes)"],
    },
    "C19": {
        "bin": "px_finite",
        "rule": "complete enumeration: 2^16 CRC-16 states x 256 bytes, 16x256 CRC-32 table entries against the slicing recurrence and bitwise division, all strings of length<=2, the incremental CRC-32 step on 4x65536 register values (every 16 bit pattern in the low / high half and their complements, incl. 0 and all ones) x 256 bytes, "
                "for 57 lengths (0..48 and block-boundary lengths up to 255) x 3 backgrounds every single-position deviation with every byte value (an affine basis) "
                "plus value-menu pairs at block boundaries; distinct_nontrivial = distinct (crc32, crc16) results",
        "level_text": "all 2^16x256 CRC-16 transitions, all 16x256 CRC-32 table entries against their recurrence, all strings of length <= 2 (<= 3 in thorough) and an affine basis of every length 0..48 (+block-boundary lengths to 255) compared with bit-at-a-time division",
        "level_note": "reference model is 10 lines of bitwise polynomial division in the harness",
        "technique": "exhaustive state x input enumeration of the CRC step functions plus complete small-scope string enumeration against a bitwise reference model",
        "assumptions": ["reference = bit-at-a-time polynomial division written in the harness (0x1021 MSB-first init 0; 0xEDB88320 LSB-first init ~0, final inversion)"],
    },
    "C20": {
        "bin": "px_gfx", "budget_ms": 60000, "case_wall_ms": 10000, "judge_budget": True, "mem_cap_mb": 2048, "wall_cap": {"quick": 1200, "thorough": 2400},
        "rule": "RIPscrip: every command of the level-0 / level-1 / level-9 tables (+ unknown commands) x parameter strings of every length 0..=24 over {0,1,Z}: all strings up to length 5 (thorough 8) and, beyond, the three constant strings with <=1 (thorough 2) positions changed, "
                "in the initial state; the deviation-bounded part in 7 further start contexts (small / inverted viewport, xor + user line + user fill pattern, saved image, vertical font + text window, changed palette, button style); 6 terminators; text commands x 25 text tails "
                "(text variables, button label separators, continuation lines, icon file names) x numeric prefix lengths 0..=12; all ordered command pairs x 9 digit fills; every command followed by 14 well-formed drawing probes; a continuation backslash at every position of every parameter string; flood fills from an 8x6 grid over 7 scenes with obstacles x 6 fill styles x 3 borders and inside 6 viewports (beyond the screen, small, lower right, inverted, one pixel). "
                "IGS: every command letter x 0..=12 parameters over a 24-value menu (0..9, 15, 16, 99, 199, 200, 319, 320, 639, 640, 9998, 99999, -1, -50, empty): 4 constant vectors with <=1 (thorough 2 for <=6 parameters) positions changed, in 6 start contexts; "
                "loop shapes (from/to/step over {0,3,99999}, 3 separators, 5 parameter templates, 4 counts, 4 looped commands), chains of every command with 8 followers, write-text, every extended sub command 0..=12 x 0..=8 parameters, pauses and loop delays, blits of all 5 types with far away / negative destinations directly and through the loop arithmetic, numbers beyond 32 bit in every loop position, every command letter as loop body with small bounds and steps 0 / 1 / 2 / -1 (a stream of single digit numbers must end its loops within 20000 polls), characters above U+00FF at every text and parameter place of both emulations; every command with 0..=8 parameters (first varied separately) followed by 22 well-formed drawing probes (incl. grab / paste of pieces that reach beyond the grabbed picture); flood fills over 5 scenes; "
                "every byte after 8 lead-ins. per stream: catch_unwind per character, CPU <= 0.5 s, wall <= 1.5 s, canvas read back and checked for width x height x 4 bytes; non-trivial = every batch",
        "level_text": "every command of both command tables is executed on the real parsers with every parameter string of the deviation-bounded scope in every start context; nothing is sampled (the 'randomly beyond' part of the quantifier is outside this technique and not claimed)",
        "level_note": "icon / file commands see a harness-owned directory with 4 fixture files (valid, truncated, oversized header, wide); pending IGS loop steps are polled for at most 64 steps",
        "technique": "stateless depth-bounded exploration of the implementation over complete command tables with deviation-bounded parameter strings, start contexts, and panic / CPU / wall / canvas-shape oracles",
        "assumptions": ["a stream that needs more than 0.5 s CPU or blocks for more than 1.5 s on a 640x350 / 640x400 canvas counts as unbounded", "random streams beyond the enumerated scope are not explored"],
    },
}

HOOK_COMMITS = ["81babd1"]

ENGINES = [
    {"name": "px_gfx", "path": "harness/src/bin/px_gfx.rs", "serves_properties": ["C20"],
     "kind_free_text": "command-table explorer for the RIPscrip and IGS emulations (deviation-bounded parameter strings x start contexts; panic, CPU, stall and canvas-shape oracles)"},
    {"name": "px_fonts", "path": "harness/src/bin/px_fonts.rs", "serves_properties": ["C17"],
     "kind_free_text": "font enumerator: bitmap fonts through PSF2 / raw / DCS / XBin / ADF / IDF / IcyDraw, TheDraw fonts and bundles through TDF bytes"},
    {"name": "px_sauce", "path": "harness/src/bin/px_sauce.rs", "serves_properties": ["C11"],
     "kind_free_text": "SAUCE field-domain enumerator over all SAUCE-writing formats with a reference SAUCE writer for the content split"},
    {"name": "px_icy", "path": "harness/src/bin/px_icy.rs", "serves_properties": ["C07", "C10"],
     "kind_free_text": "IcyDraw document enumerator with a field-by-field round-trip oracle; hand-built IcyDraw chunk streams for the character / string validity invariant"},
    {"name": "px_text", "path": "harness/src/bin/px_text.rs", "serves_properties": ["C04", "C15"],
     "kind_free_text": "text format round trips (ANSI with the full option space; Avatar, PCBoard, Ctrl-A, Renegade, ASCII, ATASCII)"},
    {"name": "px_editor", "path": "harness/src/bin/px_editor.rs", "serves_properties": ["C08"],
     "kind_free_text": "edit-history explorer with observational snapshots and undo/redo walks"},
    {"name": "px_layers", "path": "harness/src/bin/px_layers.rs", "serves_properties": ["C12", "C13"],
     "kind_free_text": "layer stack enumerator with stacking laws + reference compositor; colour optimiser render-equivalence enumerator"},
    {"name": "px_load", "path": "harness/src/bin/px_load.rs", "serves_properties": ["C02", "C03"],
     "kind_free_text": "fault enumerator over seed files (truncations, byte / field corruption, IcyDraw chunk payload faults) for all loaders and extractors; header-extreme strata under the C03 cost oracle"},
    {"name": "px_binfmt", "path": "harness/src/bin/px_binfmt.rs", "serves_properties": ["C05", "C06"],
     "kind_free_text": "binary art format round trips with spec-derived reference decoders, XBin row enumeration, re-save stability over faulted files"},
    {"name": "px_palette", "path": "harness/src/bin/px_palette.rs", "serves_properties": ["C16"],
     "kind_free_text": "palette history explorer (direct and through the ANSI parser), palette file round trips, 6-bit idempotence"},
    {"name": "px_unicode", "path": "harness/src/bin/px_unicode.rs", "serves_properties": ["C10"],
     "kind_free_text": "value-domain enumerator for character conversions (fill rectangle, clipboard, fonts, hex macros, IcyDraw cells)"},
    {"name": "px_cost", "path": "harness/src/bin/px_cost.rs", "serves_properties": ["C03"],
     "kind_free_text": "control-function table enumerator with CPU / peak-heap / allocation-scaling oracle"},
    {"name": "px_sixel", "path": "harness/src/bin/px_sixel.rs", "serves_properties": ["C14"],
     "kind_free_text": "schedule enumerator for the sixel decode queue under the cfg gate + payload enumerator with a reference model"},
    {"name": "px_stream", "path": "harness/src/bin/px_stream.rs", "serves_properties": ["C01", "C09"],
     "kind_free_text": "stateless depth-bounded sequence explorer over token alphabets of the terminal emulations, start contexts, per-character oracle"},
    {"name": "px_finite", "path": "harness/src/bin/px_finite.rs", "serves_properties": ["C18", "C19"],
     "kind_free_text": "complete enumeration of finite codec / CRC domains against bitwise reference models"},
]
