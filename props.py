"""Per-property configuration of the supervisor (/verif/check)."""

PROPS = {
    "C18": {
        "bin": "px_finite", "max_shards": 4,
        "rule": "complete enumeration of 3x256 attribute bytes, all (fg,bg,blink,bold) tuples expressible in each mode, 4x256 code page codes, 4x63 typed characters; "
                "distinct_nontrivial = distinct (input, decoded value) fingerprints",
        "level_text": "the whole finite domain is enumerated on the real code: 3x256 attribute bytes, every expressible (fg,bg,blink,bold) tuple per mode, 4x256 code-page codes, 4x63 typed characters",
        "level_note": "trusts the harness's reading of 'expressible' (what from_u8 decodes) and compares displayed foreground (bold folded)",
        "technique": "exhaustive enumeration of a finite input domain on the implementation (explicit-state, no sampling)",
        "assumptions": ["'same foreground' is read as displayed foreground (bold folded into bit 3), the weakest reading of the statement",
                        "Blink/Unlimited bytes express background 0..7 + blink, Ice bytes background 0..15 without blink (what from_u8 decodes)"],
    },
    "C19": {
        "bin": "px_finite",
        "rule": "complete enumeration: 2^16 CRC-16 states x 256 bytes, 16x256 CRC-32 table entries against the slicing recurrence and bitwise division, all strings of length<=2, "
                "for 57 lengths (0..48 and block-boundary lengths up to 255) x 3 backgrounds every single-position deviation with every byte value (an affine basis) "
                "plus value-menu pairs at block boundaries; distinct_nontrivial = distinct (crc32, crc16) results",
        "level_text": "all 2^16x256 CRC-16 transitions, all 16x256 CRC-32 table entries against their recurrence, all strings of length <= 2 (<= 3 in thorough) and an affine basis of every length 0..48 (+block-boundary lengths to 255) compared with bit-at-a-time division",
        "level_note": "reference model is 10 lines of bitwise polynomial division in the harness",
        "technique": "exhaustive state x input enumeration of the CRC step functions plus complete small-scope string enumeration against a bitwise reference model",
        "assumptions": ["reference = bit-at-a-time polynomial division written in the harness (0x1021 MSB-first init 0; 0xEDB88320 LSB-first init ~0, final inversion)"],
    },
}

HOOK_COMMITS = []

ENGINES = [
    {"name": "px_finite", "path": "harness/src/bin/px_finite.rs", "serves_properties": ["C18", "C19"],
     "kind_free_text": "complete enumeration of finite codec / CRC domains against bitwise reference models"},
]
